"""Independent RSA encodings (RFC 8017) over python integers: EMSA-PSS with a chosen salt length, RSAES-OAEP with a chosen
hash (label hash and MGF1 hash the same, as RFC 7518 4.3 demands), EMSA-PKCS1-v1_5 verification.  Keys are dicts of ints
(n, e, d).  Used as oracles by tools/props/c01.py, c03.py, c15.py; never by the implementation under test."""
import hashlib
import os

DI = {"sha1": bytes.fromhex("3021300906052b0e03021a05000414"),
      "sha256": bytes.fromhex("3031300d060960864801650304020105000420"),
      "sha384": bytes.fromhex("3041300d060960864801650304020205000430"),
      "sha512": bytes.fromhex("3051300d060960864801650304020305000440")}


def mgf1(hname, seed, n):
    out, c = b"", 0
    while len(out) < n:
        out += hashlib.new(hname, seed + c.to_bytes(4, "big")).digest()
        c += 1
    return out[:n]


def _xor(a, b):
    return bytes(x ^ y for x, y in zip(a, b))


def pss_sign(key, hname, msg, saltlen, salt=None):
    """RSASSA-PSS signature with MGF1 over the same hash and a salt of saltlen octets"""
    modbits = key["n"].bit_length()
    embits = modbits - 1
    emlen = (embits + 7) // 8
    h = hashlib.new(hname, msg).digest()
    hl = len(h)
    if emlen < hl + saltlen + 2:
        return None
    salt = salt if salt is not None else os.urandom(saltlen)
    H = hashlib.new(hname, b"\0" * 8 + h + salt).digest()
    db = b"\0" * (emlen - saltlen - hl - 2) + b"\x01" + salt
    masked = bytearray(_xor(db, mgf1(hname, H, emlen - hl - 1)))
    masked[0] &= 0xff >> (8 * emlen - embits)
    em = bytes(masked) + H + b"\xbc"
    k = (modbits + 7) // 8
    return pow(int.from_bytes(em, "big"), key["d"], key["n"]).to_bytes(k, "big")


def pkcs1_v15_verify(pub, hname, msg, sig):
    k = (pub["n"].bit_length() + 7) // 8
    if len(sig) != k:
        return False
    em = pow(int.from_bytes(sig, "big"), pub["e"], pub["n"]).to_bytes(k, "big")
    t = DI[hname] + hashlib.new(hname, msg).digest()
    return em == b"\x00\x01" + b"\xff" * (k - len(t) - 3) + b"\x00" + t


def oaep_decrypt(key, hname, ct):
    """-> message octets, or None when the encoding is not OAEP with this hash (label empty)"""
    k = (key["n"].bit_length() + 7) // 8
    hl = hashlib.new(hname).digest_size
    if len(ct) != k or k < 2 * hl + 2:
        return None
    em = pow(int.from_bytes(ct, "big"), key["d"], key["n"]).to_bytes(k, "big")
    y, mseed, mdb = em[0], em[1:1 + hl], em[1 + hl:]
    seed = _xor(mseed, mgf1(hname, mdb, hl))
    db = _xor(mdb, mgf1(hname, seed, k - hl - 1))
    if y != 0 or db[:hl] != hashlib.new(hname, b"").digest():
        return None
    rest = db[hl:]
    i = rest.find(b"\x01")
    if i < 0 or any(rest[:i]):
        return None
    return rest[i + 1:]


def oaep_encrypt(pub, hname, msg, seed=None):
    k = (pub["n"].bit_length() + 7) // 8
    hl = hashlib.new(hname).digest_size
    if len(msg) > k - 2 * hl - 2:
        return None
    seed = seed if seed is not None else os.urandom(hl)
    db = hashlib.new(hname, b"").digest() + b"\0" * (k - len(msg) - 2 * hl - 2) + b"\x01" + msg
    mdb = _xor(db, mgf1(hname, seed, k - hl - 1))
    mseed = _xor(seed, mgf1(hname, mdb, hl))
    return pow(int.from_bytes(b"\0" + mseed + mdb, "big"), pub["e"], pub["n"]).to_bytes(k, "big")
