"""Generic flow of one check (see DESIGN.md 1.3)."""
import collections
import json
import os
import random
import time

import vlib


def run(mod, tier, seed, replay=None):
    pid = mod.PID
    rep = vlib.Report(pid, tier, seed, level=getattr(mod, "LEVEL", "proof"))
    rep.assumptions = list(vlib.BASE_TRUST) + list(getattr(mod, "ASSUMPTIONS", []))
    t0 = time.time()

    # 1 build the implementation side from the working tree
    ctx = {"tier": tier, "seed": seed, "rep": rep}
    try:
        bdir = vlib.build(getattr(mod, "VARIANT", "san"))
        ctx["bdir"] = bdir
    except vlib.BuildError as e:
        rep.cov.update({"obligations": 1, "discharged": 0, "checker_cmd": "clang build of /repo working tree",
                        "trusted_base": rep.assumptions, "explanation": "build failed: %s" % e})
        rep.violation("build", "the working tree does not build with the harness: %s" % e,
                      {"broken": "build of /repo working tree", "detail": str(e)}, found=False)
        return rep.finish()
    vlib.log("build ok %.1fs" % (time.time() - t0))

    # 2 translate: regenerate the Coq tables from the running code
    tables_ok = True
    try:
        vlib.gen_tables(bdir)
    except Exception as e:   # translator could not read the code any more
        tables_ok = False
        rep.violation("translator", "table translation failed: %s" % e,
                      {"broken": "translator tools/tables.py", "detail": str(e)}, found=False)

    # 3 prove
    broken = []
    g = vlib.gate()
    if g:
        broken.append("gate: " + "; ".join(g[:5]))
    target = mod.PROP_FILE[:-2] + ".vo"
    tp = time.time()
    ok, lg = vlib.coq_make([target] + list(getattr(mod, "EXTRA_TARGETS", [])))
    thms = vlib.theorems_of(mod.PROP_FILE)
    pa = {"closed": 0, "axioms": []}
    if ok:
        closed, axioms, paout = vlib.assumptions_of(lg, mod.PROP_FILE)
        pa = {"closed": closed, "axioms": axioms}
        if closed + (1 if axioms else 0) < 1:
            broken.append("Print Assumptions output missing")
    else:
        tail = "\n".join([l for l in lg.split("\n") if "Error" in l or "rror:" in l or l.startswith("File ")][:12])
        broken.append("make %s failed: %s" % (target, tail or lg[-800:]))
    vlib.log("coq %s %.1fs (%d theorems)" % ("ok" if ok else "FAILED", time.time() - tp, len(thms)))
    nobl = len(thms) + 1   # + the regenerated tables type-check and every table-dependent lemma re-checks
    rep.cov.update({
        "obligations": nobl,
        "discharged": nobl if (ok and not g and tables_ok) else 0,
        "checker_cmd": "cd coq && coq_makefile -f _CoqProject <all .v> -o Makefile && make -k -j16 %s  (full .vo; coqc 8.16.1)" % target,
        "trusted_base": rep.assumptions,
        "theorems": thms,
        "print_assumptions": pa,
    })

    # 4 extract + build the model driver
    drv, dlog = vlib.build_driver()
    ctx["driver"] = drv
    if drv is None:
        broken.append("extraction/driver build failed: " + dlog[-600:])

    # 5/6 correspondence + direct oracle
    tc = time.time()
    stats = mod.correspond(ctx)          # fills rep with violations found on the implementation
    vlib.log("correspondence %.1fs: %s" % (time.time() - tc, {k: v for k, v in stats.items() if k in ("evaluations", "disagreements")}))
    rep.cov.update({
        "evaluations": stats.get("evaluations", 0),
        "distinct_nontrivial": stats.get("distinct_nontrivial", 0),
        "rule": stats.get("rule", ""),
        "samples": stats.get("samples", [])[:8],
        "input_distribution": stats.get("dist", {}),
        "exhaustive": stats.get("exhaustive", False),
        "exhaustive_subspaces": stats.get("exhaustive_subspaces", []),
        "disagreements_checked": stats.get("disagreements", 0),
        "refuted": stats.get("refuted", []),
    })
    # a concrete failing input that is NOT a listed known finding explains a broken proof / correspondence;
    # known findings explain only the disagreements on their own cases
    open_sigs = {k["signature"] for k in vlib.load_known().get("open", []) if k.get("property") == rep.pid}
    found_any = any(v[3] and v[0] not in open_sigs for v in rep.violations)
    ndis = stats.get("unexplained_disagreements", stats.get("disagreements", 0))
    if ndis:
        broken.append("correspondence: %d case(s) where model and implementation differ" % ndis)
    if broken and not found_any:
        rep.violation("broken:" + broken[0][:60],
                      "no longer shown to hold: " + " | ".join(broken),
                      {"broken": broken, "first_disagreements": stats.get("first_disagreements", [])[:10]},
                      found=False)
    elif broken:
        rep.notes.append("also broken: " + " | ".join(broken)[:2000])
    return rep.finish()


# ------------------------------------------------------------------ helper for the usual shape

def standard(ctx, cases, oracle, nontrivial, rule, dist, samples_from=None, model_cases=None,
             exhaustive_subspaces=(), normalize=None, env_extra=None, on_disagree=None):
    """Run cases on both sides, compare line by line, run the direct oracle on
    every implementation result."""
    rep = ctx["rep"]
    h = os.path.join(ctx["bdir"], "h")
    impl = vlib.run_cases(h, cases, env_extra=env_extra)
    model = None
    if ctx.get("driver"):
        model = vlib.run_cases(ctx["driver"], model_cases if model_cases is not None else cases, shards=vlib.NCPU)
    dis = []
    unexplained = 0
    nt = set()
    for i, c in enumerate(cases):
        io = impl[i] if i < len(impl) else "MISSING"
        if normalize:
            io = normalize(c, io)
        if nontrivial(c, io):
            nt.add(c)
        v = oracle(c, io)
        explained = bool(v)
        if v:
            sig, desc = v
            rep.violation(sig, desc, {"case": c, "implementation": io[:4000],
                                     "model": (model[i][:4000] if model and i < len(model) else None),
                                     "replay_cmd": "printf '%s\\n' | _work/build-san/h" % c.replace("\t", "\\t")[:4000]})
        if model is not None:
            mo = model[i] if i < len(model) else "MISSING"
            if normalize:
                mo = normalize(c, mo)
            if mo != io:
                dis.append({"case": c[:2000], "implementation": io[:2000], "model": mo[:2000]})
                if on_disagree:
                    # a disagreement that is by itself a failing input for the property
                    # (e.g. the implementation accepts what the independent model rejects)
                    v = on_disagree(c, io, mo)
                    if v:
                        explained = True
                        rep.violation(v[0], v[1], {"case": c, "implementation": io[:4000], "model": mo[:4000]})
                if not explained:
                    unexplained += 1
    rnd = random.Random(ctx["seed"])
    samp = []
    for i in sorted(rnd.sample(range(len(cases)), min(6, len(cases)))):
        samp.append({"case": cases[i][:300], "implementation": impl[i][:300] if i < len(impl) else None,
                     "model": (model[i][:300] if model and i < len(model) else None)})
    return {"evaluations": len(cases), "distinct_nontrivial": len(nt), "rule": rule, "dist": dist,
            "samples": samp, "disagreements": len(dis), "first_disagreements": dis[:10],
            # disagreements on cases for which no concrete violation was reported (those are explained by it)
            "unexplained_disagreements": unexplained,
            "exhaustive_subspaces": list(exhaustive_subspaces), "exhaustive": False}
