"""Generates tools/data/rsa_small.json once (deterministic seed): RSA keys with moduli of the listed bit lengths,
as JWKs.  Committed so that every run uses the same corpus without paying for prime generation."""
import base64, json, random, sys
sys.path.insert(0, "/verif/tools")
import pyec

def b64i(i):
    b = i.to_bytes((i.bit_length() + 7) // 8 or 1, "big")
    return base64.urlsafe_b64encode(b).rstrip(b"=").decode()

SIZES = [512, 513, 520, 640, 768, 1000, 1023, 1024, 1025, 1280, 1536, 1792, 2000, 2024, 2032, 2033, 2039, 2040,
         2041, 2047, 2048, 2049, 2056]
rnd = random.Random(20240607)
out = {}
for b in SIZES:
    k = pyec.rsa_key(b, rnd)
    out[str(b)] = dict(kty="RSA", **{m: b64i(k[m]) for m in ("n", "e", "d", "p", "q", "dp", "dq", "qi")})
    print(b, file=sys.stderr)
json.dump(out, open("/verif/tools/data/rsa_small.json", "w"), indent=0, sort_keys=True)
