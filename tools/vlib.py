"""Shared machinery of the /verif checks: build the harness from /repo's working
tree, regenerate the Coq tables, run the proofs, extract and build the model
driver, run both sides on the same cases, search, report, write evidence."""
import concurrent.futures as cf
import fcntl
import hashlib
import json
import os
import re
import shutil
import subprocess
import sys
import time

ROOT = os.path.dirname(os.path.dirname(os.path.abspath(__file__)))
REPO = os.environ.get("VERIF_REPO", "/repo")
WORK = os.path.join(ROOT, "_work")
COQ = os.path.join(ROOT, "coq")
NCPU = min(16, os.cpu_count() or 4)
GUARD = "LATCHSET_JOSE_VERIF"


def log(*a):
    print("[check]", *a, file=sys.stderr, flush=True)


def sh(cmd, **kw):
    return subprocess.run(cmd, stdout=subprocess.PIPE, stderr=subprocess.STDOUT, text=True, **kw)


class Lock:
    def __enter__(self):
        os.makedirs(WORK, exist_ok=True)
        self.f = open(os.path.join(WORK, ".lock"), "w")
        fcntl.flock(self.f, fcntl.LOCK_EX)
        return self

    def __exit__(self, *a):
        fcntl.flock(self.f, fcntl.LOCK_UN)
        self.f.close()


# --------------------------------------------------------------------------- build

def _files(d, exts):
    out = []
    for r, _, fs in os.walk(d):
        if "/_build" in r or "/.git" in r:
            continue
        for f in fs:
            if f.endswith(exts):
                out.append(os.path.join(r, f))
    return sorted(out)


def tree_hash(paths):
    h = hashlib.sha256()
    for p in paths:
        h.update(p.encode())
        with open(p, "rb") as f:
            h.update(f.read())
    return h.hexdigest()[:16]


VARIANTS = {
    # default: ASan (use-after-scope instrumentation on, clang's default) + UBSan
    "san": ["-g", "-O1", "-fsanitize=address,undefined", "-fno-sanitize-recover=all", "-fno-omit-frame-pointer"],
    "full": ["-g", "-O1", "-fsanitize=address,undefined", "-fno-sanitize-recover=all",
             "-fno-omit-frame-pointer"],
    "plain": ["-g", "-O1"],
    "tsan": ["-g", "-O1", "-fsanitize=thread"],
    # allocation hooks: the library's own malloc/calloc/realloc/free are redirected (at compile time, for
    # lib/ sources only) to vh_* functions provided by harness/h_alloc.c; see harness/allochook.h
    "hook": ["-g", "-O1", "-fsanitize=address,undefined", "-fno-sanitize-recover=all", "-fno-omit-frame-pointer"],
}

# extra flags applied to /repo/lib sources only, per variant
LIB_ONLY = {
    "hook": ["-include", os.path.join(ROOT, "harness", "allochook.h")],
}


def lib_sources():
    s = _files(os.path.join(REPO, "lib"), (".c",))
    return s


def cmd_sources():
    return _files(os.path.join(REPO, "cmd"), (".c",))


def build(variant="san", extra_defs=()):
    """Compile libjose + harness (+ the jose CLI) from REPO's working tree."""
    hdrs = _files(os.path.join(REPO, "lib"), (".h",)) + _files(os.path.join(REPO, "include"), (".h", ".in")) \
        + _files(os.path.join(REPO, "cmd"), (".h",))
    hsrc = _files(os.path.join(ROOT, "harness"), (".c", ".h"))
    if variant in LIB_ONLY and not os.path.exists(os.path.join(ROOT, "harness", "allochook.h")):
        raise BuildError("variant %s needs harness/allochook.h" % variant)
    key = tree_hash(lib_sources() + cmd_sources() + hdrs + hsrc) + "-" + variant + "".join(extra_defs)
    out = os.path.join(WORK, "build-" + variant)
    stamp = os.path.join(out, "stamp")
    if os.path.exists(stamp) and open(stamp).read() == key:
        return out
    shutil.rmtree(out, ignore_errors=True)
    os.makedirs(os.path.join(out, "gen", "jose"))
    os.makedirs(os.path.join(out, "obj"))
    with open(os.path.join(REPO, "include/jose/jose.h.in")) as f:
        open(os.path.join(out, "gen/jose/jose.h"), "w").write(f.read().replace("@VERSION@", "14"))
    cc = ["clang", "-std=gnu99", "-D_GNU_SOURCE", "-D" + GUARD, "-Wno-deprecated-declarations", "-w",
          "-I", os.path.join(out, "gen"), "-I", os.path.join(REPO, "include"), "-I", os.path.join(REPO, "lib"),
          "-I", REPO] + VARIANTS[variant] + list(extra_defs)
    jobs = []
    for kind, srcs in (("lib", lib_sources()), ("cmd", cmd_sources()),
                       ("har", [p for p in hsrc if p.endswith(".c")])):
        for s in srcs:
            o = os.path.join(out, "obj", kind + "_" + re.sub(r"[^A-Za-z0-9]", "_", os.path.relpath(s, REPO if kind != "har" else ROOT)) + ".o")
            jobs.append((kind, s, o))

    def one(j):
        kind, s, o = j
        extra = LIB_ONLY.get(variant, []) if kind == "lib" else []
        r = sh(cc + extra + ["-c", s, "-o", o])
        return (j, r)

    with cf.ThreadPoolExecutor(NCPU) as ex:
        res = list(ex.map(one, jobs))
    bad = [(j, r) for j, r in res if r.returncode != 0]
    if bad:
        for j, r in bad[:3]:
            log("compile failed:", j[1], "\n", r.stdout[-2000:])
        raise BuildError("compilation of %d file(s) failed, e.g. %s" % (len(bad), bad[0][0][1]))
    libo = [o for k, s, o in jobs if k == "lib"]
    cmdo = [o for k, s, o in jobs if k == "cmd"]
    haro = [o for k, s, o in jobs if k == "har"]
    libs = ["-lcrypto", "-ljansson", "-lz", "-lpthread"]
    for name, objs in (("h", haro + libo), ("jose", cmdo + libo)):
        r = sh(["clang"] + VARIANTS[variant] + objs + libs + ["-o", os.path.join(out, name)])
        if r.returncode != 0:
            log(r.stdout[-3000:])
            raise BuildError("link of %s failed" % name)
    open(stamp, "w").write(key)
    return out


class BuildError(Exception):
    pass


SAN_ENV = {
    "ASAN_OPTIONS": "detect_leaks=0:abort_on_error=0:exitcode=97:allocator_may_return_null=1",
    "UBSAN_OPTIONS": "halt_on_error=1:exitcode=98:print_stacktrace=0",
}


def _run_shard(binary, cases, env, timeout_case=20):
    """Run one process over cases; restart after a crash. Returns list of outputs."""
    outs = []
    i = 0
    while i < len(cases):
        chunk = cases[i:]
        try:
            p = subprocess.run([binary], input="\n".join(chunk) + "\n", stdout=subprocess.PIPE,
                               stderr=subprocess.PIPE, text=True, env=env, errors="replace",
                               timeout=max(60, timeout_case * len(chunk) // 10))
            lines = p.stdout.split("\n")
            if lines and lines[-1] == "":
                lines.pop()
            rc = p.returncode
            err = p.stderr
        except subprocess.TimeoutExpired as e:
            so = e.stdout or b""
            if isinstance(so, bytes):
                so = so.decode(errors="replace")
            lines = so.split("\n")
            lines = lines[:-1]   # last may be partial
            rc = -999
            err = "TIMEOUT"
        if len(lines) >= len(chunk) and rc == 0:
            outs.extend(lines[:len(chunk)])
            break
        # crashed (or harness refused) on case number len(lines) of this chunk
        good = lines[:min(len(lines), len(chunk) - 1)] if len(lines) >= len(chunk) else lines
        outs.extend(good)
        k = len(good)
        summ = "TIMEOUT" if rc == -999 else crash_summary(rc, err)
        outs.append("CRASH " + summ)
        i += k + 1
    return outs


def crash_summary(rc, err):
    m = re.search(r"SUMMARY: (\w+): ([^\n]*)", err)
    if m:
        s = m.group(2)
        s = re.sub(r"/[^ ]*/(repo|verif)/", r"\1/", s)
        s = re.sub(r"0x[0-9a-f]+", "0x..", s)
        return "SAN %s %s" % (m.group(1), s.strip())
    m = re.search(r"runtime error: ([^\n]*)", err)
    if m:
        return "SAN UBSan " + m.group(1)
    if rc < 0:
        return "SIGNAL %d" % (-rc)
    return "EXIT %d %s" % (rc, err.strip().split("\n")[-1][:200] if err.strip() else "")


def run_cases(binary, cases, env_extra=None, shards=NCPU, timeout_case=None):
    env = dict(os.environ)
    env.update(SAN_ENV)
    if env_extra:
        env.update(env_extra)
    if not cases:
        return []
    n = max(1, min(shards, len(cases) // 50 + 1))
    size = (len(cases) + n - 1) // n
    parts = [cases[i:i + size] for i in range(0, len(cases), size)]
    with cf.ThreadPoolExecutor(len(parts)) as ex:
        # the extracted model is orders of magnitude slower than the C code on large inputs (Gallina AES/PBKDF2)
        tc = timeout_case if timeout_case is not None else (400 if os.path.basename(binary) == "driver" else 20)
        res = list(ex.map(lambda c: _run_shard(binary, c, env, tc), parts))
    out = []
    for r in res:
        out.extend(r)
    return out


# --------------------------------------------------------------------------- tables -> Coq

def write_if_changed(path, text):
    if os.path.exists(path) and open(path).read() == text:
        return False
    os.makedirs(os.path.dirname(path), exist_ok=True)
    open(path, "w").write(text)
    return True


def gen_tables(bdir):
    sys.path.insert(0, os.path.join(ROOT, "tools"))
    import tables
    r = subprocess.run([os.path.join(bdir, "h"), "tables"], stdout=subprocess.PIPE, stderr=subprocess.PIPE,
                       text=True, env=dict(os.environ, **SAN_ENV))
    if r.returncode != 0:
        raise BuildError("table dump failed: " + r.stderr[-500:])
    files = tables.translate(r.stdout, REPO)
    for name, text in files.items():
        write_if_changed(os.path.join(COQ, "Gen", name), text)
    return files


# --------------------------------------------------------------------------- Coq

def coq_files():
    fs = []
    for r, _, names in os.walk(COQ):
        for n in names:
            if n.endswith(".v"):
                fs.append(os.path.relpath(os.path.join(r, n), COQ))
    return sorted(fs)


def gen_extract():
    """coq/Extract/Extract.v is assembled from coq/Extract/roots.d/*.txt"""
    d = os.path.join(COQ, "Extract", "roots.d")
    mods, roots = [], []
    for f in sorted(os.listdir(d)):
        for line in open(os.path.join(d, f)):
            line = line.strip()
            if line.startswith("module:"):
                for m in line[7:].split():
                    if m not in mods:
                        mods.append(m)
            elif line.startswith("root:"):
                for r in line[5:].split():
                    if r not in roots:
                        roots.append(r)
    txt = ("(* GENERATED from Extract/roots.d/*.txt -- extraction of the executable model for the\n"
           "   correspondence driver.  ExtrOcamlBasic only; numbers stay the extracted inductive types. *)\n"
           "Require Import ExtrOcamlBasic.\n"
           "From JoseV Require Import %s.\n"
           "Extraction \"../ocaml/_gen/model.ml\"\n  %s.\n" % (" ".join(mods), "\n  ".join(roots)))
    write_if_changed(os.path.join(COQ, "Extract", "Extract.v"), txt)


def coq_make(targets, timeout=3000):
    """Full .vo build of targets. Returns (ok, log)."""
    gen_extract()
    os.makedirs(os.path.join(ROOT, "ocaml", "_gen"), exist_ok=True)
    mk = sh(["coq_makefile", "-f", "_CoqProject"] + coq_files() + ["-o", "Makefile"], cwd=COQ)
    if mk.returncode != 0:
        return False, mk.stdout
    try:
        r = sh(["make", "-k", "-j%d" % NCPU] + targets, cwd=COQ, timeout=timeout)
    except subprocess.TimeoutExpired:
        return False, "TIMEOUT of make"
    return r.returncode == 0, r.stdout


GATE = re.compile(r"\b(Admitted|admit|Axiom|Parameter|Conjecture|Unset\s+Guard|bypass_check|Admit\s+Obligations)\b")


def gate():
    """No admits / axioms / disabled checks anywhere in the development."""
    bad = []
    for f in coq_files():
        txt = open(os.path.join(COQ, f)).read()
        txt = re.sub(r"\(\*.*?\*\)", "", txt, flags=re.S)
        for m in GATE.finditer(txt):
            bad.append("%s: %s" % (f, m.group(0)))
        if re.search(r"^\s*(Variable|Hypothesis|Variables|Hypotheses)\b", txt, flags=re.M):
            # only allowed inside sections: check crude nesting
            depth = 0
            for line in txt.split("\n"):
                if re.match(r"\s*Section\b", line):
                    depth += 1
                elif re.match(r"\s*End\b", line) and depth > 0:
                    depth -= 1
                elif re.match(r"\s*(Variable|Hypothesis|Variables|Hypotheses)\b", line) and depth == 0:
                    bad.append("%s: %s outside a section" % (f, line.strip()[:40]))
    return bad


def theorems_of(propfile):
    txt = open(os.path.join(COQ, propfile)).read()
    txt = re.sub(r"\(\*.*?\*\)", "", txt, flags=re.S)
    return re.findall(r"^\s*Theorem\s+(\w+)", txt, flags=re.M)


def assumptions_of(makelog_or_text, propfile):
    """Re-run coqc on the (already compiled) property file to read Print Assumptions."""
    r = sh(["coqc", "-Q", ".", "JoseV", "-w", "-notation-overridden,-deprecated-hint-without-locality,-deprecated-syntactic-definition", propfile], cwd=COQ)
    out = r.stdout
    closed = out.count("Closed under the global context")
    ax = re.findall(r"^Axioms:\n((?:.+\n)+?)(?=\S|\Z)", out, flags=re.M)
    names = sorted(set(re.findall(r"^([\w.]+)\s*:", "\n".join(ax), flags=re.M)))
    return closed, names, out


# --------------------------------------------------------------------------- extraction + driver

def build_driver():
    gen = os.path.join(ROOT, "ocaml", "_gen")
    os.makedirs(gen, exist_ok=True)
    ok, lg = coq_make(["Extract/Extract.vo"])
    if not ok:
        return None, lg
    ml = os.path.join(gen, "model.ml")
    odir = os.path.join(ROOT, "ocaml")
    mods = sorted(f for f in os.listdir(odir) if f.startswith("d_") and f.endswith(".ml"))
    srcs = [os.path.join(odir, "dcore.ml")] + [os.path.join(odir, m) for m in mods] + [os.path.join(odir, "driver.ml")]
    key = tree_hash([ml, os.path.join(gen, "model.mli")] + srcs)
    exe = os.path.join(WORK, "driver")
    stamp = exe + ".stamp"
    if os.path.exists(exe) and os.path.exists(stamp) and open(stamp).read() == key:
        return exe, ""
    bd = os.path.join(WORK, "ocaml")
    shutil.rmtree(bd, ignore_errors=True)
    os.makedirs(bd)
    for f in ("model.ml", "model.mli"):
        shutil.copy(os.path.join(gen, f), bd)
    for f in srcs:
        shutil.copy(f, bd)
    files = ["model.mli", "model.ml", "dcore.ml"] + mods + ["driver.ml"]
    r = sh(["ocamlfind", "ocamlopt", "-O3", "-w", "-a", "-package", "str", "-linkpkg"] + files + ["-o", exe], cwd=bd)
    if r.returncode != 0:
        r = sh(["ocamlfind", "ocamlopt", "-w", "-a", "-package", "str", "-linkpkg"] + files + ["-o", exe], cwd=bd)
    if r.returncode != 0:
        return None, r.stdout
    open(stamp, "w").write(key)
    return exe, ""


# --------------------------------------------------------------------------- findings / evidence

def load_known():
    p = os.path.join(ROOT, "known_findings.json")
    if not os.path.exists(p):
        return {"open": [], "fixed": []}
    return json.load(open(p))


class Report:
    def __init__(self, pid, tier, seed, level="proof"):
        self.pid, self.tier, self.seed, self.level = pid, tier, seed, level
        self.t0 = time.time()
        self.violations = []   # (signature, description, replay dict, found_input)
        self.cov = {}
        self.assumptions = []
        self.notes = []

    def violation(self, sig, desc, replay, found=True):
        for v in self.violations:
            if v[0] == sig:
                return
        self.violations.append((sig, desc, replay, found))

    def finish(self):
        known = load_known()
        open_sigs = {k["signature"]: k for k in known.get("open", []) if k.get("property") == self.pid}
        rc = 0
        os.makedirs(os.path.join(ROOT, "replays"), exist_ok=True)
        nviol = 0
        seen_known = set()
        for sig, desc, replay, found in self.violations:
            k = open_sigs.get(sig)
            if k is not None:
                if sig not in seen_known:
                    print("KNOWN-FINDING: property=%s %s" % (self.pid, k.get("what", desc)))
                    seen_known.add(sig)
                continue
            nviol += 1
            path = os.path.join(ROOT, "replays", "%s-%s.json" % (self.pid, hashlib.sha1(sig.encode()).hexdigest()[:10]))
            replay = dict(replay)
            replay.update({"property": self.pid, "signature": sig, "description": desc, "failing_input_found": found})
            json.dump(replay, open(path, "w"), indent=1)
            print("VIOLATION property=%s replay=%s%s" % (self.pid, path, "" if found else " no-failing-input-found"))
            rc = 1
        ev = {
            "property_id": self.pid, "tier": self.tier, "seed": self.seed, "level": self.level,
            "coverage": self.cov, "assumptions": self.assumptions, "wall_s": round(time.time() - self.t0, 2),
            "violations": nviol,
        }
        if self.notes:
            ev["coverage"]["notes"] = self.notes
        os.makedirs(os.path.join(ROOT, "evidence"), exist_ok=True)
        json.dump(ev, open(os.path.join(ROOT, "evidence", self.pid + ".json"), "w"), indent=1)
        sys.stdout.flush()
        return rc


BASE_TRUST = [
    "Coq 8.16.1 kernel and coqc; vm_compute for finite sweeps and model evaluation; no native_compute",
    "no axioms declared; Print Assumptions output of every property theorem is recorded in coverage.print_assumptions",
    "translator: harness/h_tables.c + tools/tables.py (registry dumped from the running code, macros read from source text)",
    "extraction: ExtrOcamlBasic only (bool, option, unit, list, prod, sumbool, sumor; andb/orb inlined); no Extract Constant/Inductive of our own; OCaml 4.13.1; ocaml/driver.ml",
    "correspondence harness (harness/*.c, tools/*.py): generator quality bounds what it can find",
    "modelled, not verified: C compiler and ABI, OpenSSL, zlib, jansson internals",
]
