"""C15 header merge precedence; the algorithm used is the one recorded."""
import base64
import collections
import itertools
import json
import os
import random
import subprocess

import runner
import vlib

PID = "C15"
PROP_FILE = "Props/Properties_C15.v"
LEVEL = "proof"
ASSUMPTIONS = [
    "C15: precedence theorems assume header objects without duplicate member names (jansson objects have none)",
    "C15: 'the algorithm actually applied' is shown on the model as 'the algorithm record handed to the primitive bears the recorded name'; that the primitive behind a name is the right one is C03/C04's subject (independent verification/decryption of products)",
    "C15: the inference table is the Gallina transcription of the suggestion hooks (Jose/Suggest.v), compared with the implementation over every key shape of the generator; it is not generated from the code",
]


def dumps(v):
    return json.dumps(v, separators=(",", ":"), sort_keys=True)


def b64(b):
    return base64.urlsafe_b64encode(b).rstrip(b"=").decode()


def enc_hdr(o):
    return b64(dumps(o).encode())


def harness_gen(bdir, templates):
    cases = ["gen\t%s" % dumps(t) for t in templates]
    out = vlib.run_cases(os.path.join(bdir, "h"), cases, shards=8)
    return [None if o in ("ERR",) or o.startswith("CRASH") else json.loads(o) for o in out]


def key_shapes(bdir, rnd):
    """keys of every type/size/curve, with and without alg"""
    shapes = []
    for n in (0, 1, 15, 16, 17, 24, 31, 32, 33, 47, 48, 49, 63, 64, 65, 128):
        k = b64(bytes(rnd.getrandbits(8) for _ in range(n)))
        shapes.append({"kty": "oct", "k": k})
    shapes.append({"kty": "oct"})
    shapes.append({"kty": "oct", "k": 5})
    shapes.append({"kty": "oct", "k": "A"})
    gen = harness_gen(bdir, [{"kty": "EC", "crv": c} for c in ("P-256", "P-384", "P-521", "secp256k1")] +
                      [{"kty": "RSA", "bits": 2048}, {"kty": "RSA", "bits": 3072}])
    real = [g for g in gen if g]
    for g in real:
        g.pop("key_ops", None)
    shapes += real
    shapes += [{"kty": "EC", "crv": "P-999", "x": "AA", "y": "AA"}, {"kty": "EC"}, {"kty": "RSA"}, {"kty": "RSA", "n": "AQAB", "e": "AQAB"},
               {"kty": "ec", "crv": "P-256"}, {"kty": "unknown"}, {}, {"kty": 5}, {"kty": "oct", "crv": 5, "k": "AAAAAAAAAAAAAAAAAAAAAA"}]
    return shapes, real


def gen(tier, seed, bdir):
    rnd = random.Random(seed)
    cases = []
    dist = collections.Counter()
    names = ["alg", "enc", "zip", "kid", "x"]
    vals = {"p": "fromP", "u": "fromU", "h": "fromH"}
    # ---- precedence: every presence pattern of a name across the 2 / 3 headers, both protected forms
    for name in names:
        for pat in itertools.product([0, 1], repeat=3):
            p = {name: vals["p"]} if pat[0] else {}
            u = {name: vals["u"]} if pat[1] else {}
            h = {name: vals["h"]} if pat[2] else {}
            for pform in ("absent", "object", "encoded", "empty-object"):
                if pform == "absent" and pat[0]:
                    continue
                for other in ({}, {"other": 1}):
                    pp = dict(p, **other)
                    jwe = {}
                    if pform == "object":
                        jwe["protected"] = pp
                    elif pform == "encoded":
                        jwe["protected"] = enc_hdr(pp)
                    elif pform == "empty-object":
                        if pat[0]:
                            continue
                        jwe["protected"] = {}
                    if pat[1] or other:
                        jwe["unprotected"] = dict(u, **other)
                    rcp = {"header": dict(h)} if pat[2] else {}
                    cases.append("hdr\tjwe\t%s\t%s" % (dumps(jwe), dumps(rcp)))
                    cases.append("hdr\tjwe\t%s\t-" % dumps(jwe))
                    sig = {k: v for k, v in jwe.items() if k == "protected"}
                    if pat[2]:
                        sig["header"] = dict(h)
                    cases.append("hdr\tjws\t%s" % dumps(sig))
                    dist["precedence patterns"] += 3
    # odd header types
    odd = [5, None, "", "!!!", enc_hdr([1, 2]), enc_hdr(5), b64(b"{not json"), [], True, {"alg": None}, enc_hdr({"a": {"b": [1]}}), "e30=", "e30 "]
    for p in odd:
        for u in (None, 5, {"alg": "U"}, []):
            for h in (None, "x", {"alg": "H"}, []):
                jwe = {"protected": p}
                if u is not None:
                    jwe["unprotected"] = u
                rcp = {} if h is None else {"header": h}
                cases.append("hdr\tjwe\t%s\t%s" % (dumps(jwe), dumps(rcp)))
                cases.append("hdr\tjws\t%s" % dumps(dict(rcp, protected=p)))
                dist["odd header types"] += 2
    for x in ([], 5, "s", None):
        cases.append("hdr\tjws\t%s" % dumps(x))
        cases.append("hdr\tjwe\t%s\t%s" % (dumps(x), dumps(x)))
        dist["odd header types"] += 2
    # ---- suggestions: every key shape with / without alg, passwords of every length class
    shapes, real = key_shapes(bdir, rnd)
    allnames = []
    r = subprocess.run([os.path.join(bdir, "h"), "tables"], stdout=subprocess.PIPE, text=True, env=dict(os.environ, **vlib.SAN_ENV))
    kinds = collections.defaultdict(list)
    for l in r.stdout.split("\n"):
        f = l.split(" ")
        if f[0] == "alg":
            kinds[f[1]].append(f[2])
    declared = [None] + kinds["sign"][:4] + kinds["wrap"][::3] + kinds["encr"][::2] + ["none", 5]
    for s in shapes:
        for a in declared:
            k = dict(s)
            if a is not None:
                k["alg"] = a
            for kind in ("sign", "wrap", "encr"):
                cases.append("sug\t%s\t%s" % (kind, dumps(k)))
            for w in kinds["wrap"][::2] + ["nope"]:
                cases.append("sug\twenc\t%s\t%s" % (w, dumps(k)))
            dist["suggestions by key shape"] += 3 + len(kinds["wrap"][::2]) + 1
    for n in list(range(0, 42)) + [100]:
        pw = "p" * n
        cases.append("sug\twrap\t%s" % dumps(pw))
        cases.append("sug\tsign\t%s" % dumps(pw))
        cases.append("sug\twenc\tPBES2-HS256+A128KW\t%s" % dumps(pw))
        dist["password lengths 0..41"] += 3
    ecs = [k for k in shapes if k.get("kty") == "EC"]
    for a in ecs + [{"kty": "RSA"}, {}]:
        for b in ecs + [{"kty": "oct"}, 5]:
            cases.append("sug\texch\t%s\t%s" % (dumps(a), dumps(b)))
            dist["exchange suggestions"] += 1
    # ---- recording: sign / content-encrypt / wrap with and without caller-supplied names
    usable_sig = [k for k in shapes if isinstance(k.get("k"), str) or k in real]
    tmpls = [None, {}, {"protected": {}}, {"protected": {"kid": "1"}}, {"header": {"kid": "2"}}, {"protected": {"alg": "HS256"}},
             {"header": {"alg": "HS512"}}, {"protected": {"alg": "ES256"}, "header": {"alg": "HS256"}}, {"protected": enc_hdr({"alg": "HS384"})},
             {"protected": enc_hdr({"x": 1})}, {"protected": 5}, {"header": 5}, {"protected": {"alg": "none"}}, {"protected": {"alg": 7}},
             {"protected": {"alg": "RS256"}}, {"header": {"alg": "PS384"}}]
    for k in usable_sig:
        for t in tmpls:
            for ka in (None, "HS256", "RS256", "ES256"):
                kk = dict(k)
                if ka:
                    kk["alg"] = ka
                cases.append("sigalg\t%s\t%s" % ("-" if t is None else dumps(t), dumps(kk)))
                dist["recording: signatures"] += 1
    # one template object applied to SEVERAL keys whose inferred algorithms differ (the template must not leak
    # the first key's choice into the next key's header, nor be modified)
    mk = [k for k in usable_sig if "alg" not in k]
    for t in ({"protected": {"typ": "JWT"}}, {"protected": {}}, {"header": {"kid": "k"}}, {}, {"protected": {"typ": "JWT"}, "header": {"x": 1}}):
        for _ in range(12 if tier == "quick" else 80):
            ks = [dict(rnd.choice(mk)) for _ in range(rnd.choice((2, 2, 3)))]
            if rnd.random() < 0.3:
                ks[-1]["alg"] = rnd.choice(["HS512", "HS256"])
            cases.append("sigmulti\t%s\t%s" % (dumps(t), dumps(ks)))
            dist["recording: one template, several keys"] += 1
    ceks = [{"kty": "oct", "k": b64(bytes(n))} for n in (16, 24, 32, 48, 64, 20)] + [{"kty": "oct"}, {}]
    jwes = [{}, {"protected": {}}, {"protected": {"enc": "A128GCM"}}, {"unprotected": {"enc": "A256GCM"}}, {"protected": {"enc": "A128CBC-HS256"}, "unprotected": {"enc": "A256GCM"}},
            {"protected": enc_hdr({"enc": "A128GCM"})}, {"unprotected": {}}, {"protected": {"zip": "DEF"}}, {"protected": {"enc": "nope"}}, {"protected": {"enc": 5}},
            {"unprotected": 5}, {"protected": {"alg": "dir"}}, {"protected": {}, "unprotected": {}}]
    for c in ceks:
        for ca in (None, "A128GCM", "A256CBC-HS512", "A192GCM"):
            cc = dict(c)
            if ca:
                cc["alg"] = ca
            for j in jwes:
                cases.append("encalg\t%s\t%s" % (dumps(j), dumps(cc)))
                dist["recording: content encryption"] += 1
    wkeys = [k for k in shapes if (k.get("kty") == "oct" and isinstance(k.get("k"), str) and len(k["k"]) in (22, 32, 43)) or k in real] + ["password", "p" * 30, "p" * 40]
    wjwes = [{}, {"protected": {"alg": "A128KW"}}, {"unprotected": {"alg": "A256KW"}}, {"protected": {"enc": "A128GCM"}}, {"protected": enc_hdr({"enc": "A256GCM"})},
             {"protected": {"alg": "RSA1_5"}}, {"protected": {"alg": "ECDH-ES"}}, {"protected": {"alg": "PBES2-HS256+A128KW"}}, {"protected": {"alg": "dir", "enc": "A128CBC-HS256"}}]
    wrcps = [None, {}, {"header": {"alg": "A192KW"}}, {"header": {"kid": "r"}}, {"header": {"alg": "RSA-OAEP-256"}}]
    for k in wkeys:
        for j in wjwes:
            for rc in wrcps:
                for cek in ({}, {"alg": "A128GCM"}):
                    cases.append("wrapalg\t%s\t%s\t%s\t%s" % (dumps(j), "-" if rc is None else dumps(rc), dumps(k), dumps(cek)))
                    dist["recording: key management"] += 1
    return cases, dict(dist)


def first(*xs):
    for x in xs:
        if x is not None:
            return x
    return None


def oracle(case, out):
    if out.startswith("CRASH"):
        return ("crash:" + out[:80], "crash or sanitizer report: " + out)
    f = case.split("\t")
    if f[0] == "hdr" and out != "ERR":
        # independent precedence computation for well-typed inputs
        a = json.loads(f[2])
        if not isinstance(a, dict):
            return None
        p = a.get("protected")
        if isinstance(p, str):
            try:
                pad = p + "=" * (-len(p) % 4)
                p = json.loads(base64.urlsafe_b64decode(pad))
            except Exception:
                return None
        if p is None:
            p = {}
        if not isinstance(p, dict):
            return None
        got = json.loads(out)
        layers = [p]
        if f[1] == "jwe":
            u = a.get("unprotected")
            if isinstance(u, dict):
                layers.append(u)
            if f[3] != "-":
                r = json.loads(f[3])
                if isinstance(r, dict) and isinstance(r.get("header"), dict):
                    layers.append(r["header"])
        else:
            if isinstance(a.get("header"), dict):
                layers.append(a["header"])
        want = {}
        for l in reversed(layers):
            want.update(l)
        if got != want:
            return ("hdr-precedence:" + f[1], "merged header does not give precedence to the more protected header")
    if f[0] == "sigalg" and out != "ERR":
        parts = dict(x.split("=", 1) for x in out.split("\t"))
        p = json.loads(parts["P"])
        t = json.loads(f[1]) if f[1] != "-" else {}
        # a caller-supplied alg must be respected; the recorded alg must be in protected
        tp = t.get("protected") if isinstance(t, dict) else None
        if isinstance(tp, str):
            tp = json.loads(base64.urlsafe_b64decode(tp + "=" * (-len(tp) % 4)))
        th = t.get("header") if isinstance(t, dict) else None
        supplied = first(tp.get("alg") if isinstance(tp, dict) else None, th.get("alg") if isinstance(th, dict) else None)
        merged = first(p.get("alg") if isinstance(p, dict) else None, (json.loads(parts["H"]).get("alg") if parts["H"] != "-" else None))
        if isinstance(supplied, str) and merged != supplied:
            return ("sigalg-changed", "a caller-supplied alg (%s) was replaced (%s)" % (supplied, merged))
        if merged is None:
            return ("sigalg-unrecorded", "a signature was prepared without any alg in the merged header")
        if supplied is None and not (isinstance(p, dict) and isinstance(p.get("alg"), str)):
            return ("sigalg-inferred-not-protected", "the signing algorithm was inferred (the template names none) but it is not recorded in the PROTECTED header: protected %s, header %s" % (parts["P"][:80], parts["H"][:80]))
    if f[0] == "encalg" and out != "ERR" and "\tIV=" in out:
        parts = dict(x.split("=", 1) for x in out.split("\t"))
        if parts.get("RT") == "FAIL":
            return ("encalg-product-does-not-decrypt", "the object produced by jose_jwe_enc_cek_io does not decrypt under the header it carries (the algorithm applied is not the one the merged header names)")
        try:
            pj = json.loads(parts["P"]) if parts["P"] != "null" else {}
            uj = json.loads(parts["U"]) if parts["U"] != "-" else {}
            enc = first(pj.get("enc") if isinstance(pj, dict) else None, uj.get("enc") if isinstance(uj, dict) else None)
            if isinstance(enc, str) and enc.startswith("A") and parts.get("IV") not in (None, "MAX"):
                want_iv = "12" if enc.endswith("GCM") else "16"
                if parts["IV"] != want_iv:
                    return ("encalg-applied-differs-from-header", "the merged header names enc=%s but an IV of %s octets was generated (another algorithm was applied)" % (enc, parts["IV"]))
        except Exception:
            pass
    if f[0] == "sigmulti":
        # metamorphic: one template over several keys = each key signed on its own with (a copy of) the template,
        # and the caller's template is not modified
        t_in = json.loads(f[1])
        parts = out.split("\t")
        t_out = parts[-1]
        if t_out.startswith("ERRT="):
            t_out = t_out[3:]
        if t_out.startswith("T=") and json.loads(t_out[2:]) != t_in:
            return ("sigmulti-template-modified", "jose_jws_sig modified the caller's signature template (%s -> %s)" % (f[1], t_out[2:]))
        if not out.startswith("ERR"):
            keys = json.loads(f[2])
            single = SINGLE.get((f[1], "\x00".join(dumps(k) for k in keys)))
            if single is not None and single != parts[:-1]:
                return ("sigmulti-alg-not-per-key", "with one template and several keys the recorded algorithms %s differ from those of signing with each key alone %s" % (parts[:-1], single))
    return None


SINGLE = {}


def klen(key):
    try:
        k = key["k"]
        return len(base64.urlsafe_b64decode(k + "=" * (-len(k) % 4)))
    except Exception:
        return None


def wrap_key_fits(alg, key):
    if alg in ("A128KW", "A128GCMKW"):
        return isinstance(key, dict) and klen(key) == 16
    if alg in ("A192KW", "A192GCMKW"):
        return isinstance(key, dict) and klen(key) == 24
    if alg in ("A256KW", "A256GCMKW"):
        return isinstance(key, dict) and klen(key) == 32
    if alg.startswith("RSA"):
        return isinstance(key, dict) and key.get("kty") == "RSA" and "n" in key
    if alg.startswith("ECDH-ES"):
        return isinstance(key, dict) and key.get("kty") == "EC" and key.get("crv") in ("P-256", "P-384", "P-521") and "x" in key
    if alg.startswith("PBES2"):
        return isinstance(key, str) or (isinstance(key, dict) and klen(key) is not None)
    return False      # dir and unknown: usability depends on the CEK; an implementation refusal is not compared


def normalize(case, out):
    """wrapalg: the model decides with ideal primitives; when the implementation refuses and the key does
    not even structurally fit the algorithm the model chose, the refusal is the primitive's and is not compared"""
    return out


def nontrivial(case, out):
    return out not in ("ERR", "-")


def conflicting_parameters(ctx, dist):
    """algorithm parameters named in several headers with DIFFERENT values (apu / apv for ECDH-ES, p2c for PBES2, alg,
    enc): the producer must use the value the merged header gives (protected over shared unprotected over
    per-recipient), i.e. the one a consumer will read -- observed end to end: the product must decrypt again
    (implementation only)"""
    import jwsgen as G
    rep = ctx["rep"]
    bdir = ctx["bdir"]
    rnd = random.Random(ctx["seed"] + 15)
    J = G.dumps
    keys = G.standard_keys(bdir)
    ec = keys.get("P-256")
    kw = G.oct_key(rnd, 16)
    pw = G.oct_key(rnd, 14)
    req, meta = [], []

    def add(what, tmpl, rcp, key):
        req.append("jweenc\t%s\t%s\t%s\t%s" % (J(tmpl), "-" if rcp is None else J(rcp), J(key), b"c15".hex()))
        meta.append((what, key))
    A, B = G.b64(b"Alice"), G.b64(b"Mallory")
    if ec:
        for alg in ("ECDH-ES", "ECDH-ES+A128KW", "ECDH-ES+A256KW"):
            for prm in ("apu", "apv"):
                add("%s %s: protected vs per-recipient" % (alg, prm), {"protected": {"alg": alg, "enc": "A128GCM", prm: A}}, {"header": {prm: B}}, G.pub_of(ec))
                add("%s %s: shared unprotected vs per-recipient" % (alg, prm), {"protected": {"alg": alg, "enc": "A128GCM"}, "unprotected": {prm: A}}, {"header": {prm: B}}, G.pub_of(ec))
                add("%s %s: protected vs shared unprotected" % (alg, prm), {"protected": {"alg": alg, "enc": "A128GCM", prm: A}, "unprotected": {prm: B}}, None, G.pub_of(ec))
                add("%s %s: per-recipient only (control)" % (alg, prm), {"protected": {"alg": alg, "enc": "A128GCM"}}, {"header": {prm: B}}, G.pub_of(ec))
    add("PBES2 p2c: protected vs per-recipient", {"protected": {"alg": "PBES2-HS256+A128KW", "enc": "A128GCM", "p2c": 1000}}, {"header": {"p2c": 2000}}, pw)
    add("PBES2 p2c: shared unprotected vs per-recipient", {"protected": {"alg": "PBES2-HS256+A128KW", "enc": "A128GCM"}, "unprotected": {"p2c": 1000}}, {"header": {"p2c": 2000}}, pw)
    add("alg: protected A128KW vs per-recipient A256KW", {"protected": {"alg": "A128KW", "enc": "A128GCM"}}, {"header": {"alg": "A256KW"}}, kw)
    add("alg: shared unprotected A128KW vs per-recipient A256KW", {"protected": {"enc": "A128GCM"}, "unprotected": {"alg": "A128KW"}}, {"header": {"alg": "A256KW"}}, kw)
    add("enc: protected A128GCM vs shared unprotected A256GCM", {"protected": {"alg": "A128KW", "enc": "A128GCM"}, "unprotected": {"enc": "A256GCM"}}, None, kw)
    # the caller names one key-management algorithm, the KEY declares another one it could also serve: refused, or done with
    # the caller's -- never silently with the key's (the product must open under the header it carries, the key's alg removed)
    for kalg, calg, klen_ in (("A128GCMKW", "A128KW", 16), ("A128KW", "A128GCMKW", 16), ("A256KW", "A256GCMKW", 32), ("PBES2-HS256+A128KW", "A128KW", 16)):
        kk = G.oct_key(rnd, klen_, alg=kalg)
        add("alg: caller %s in protected, key declares %s" % (calg, kalg), {"protected": {"alg": calg, "enc": "A128GCM"}}, None, kk)
        add("alg: caller %s in shared unprotected, key declares %s" % (calg, kalg), {"protected": {"enc": "A128GCM"}, "unprotected": {"alg": calg}}, None, kk)
        add("alg: caller %s in per-recipient header, key declares %s" % (calg, kalg), {"protected": {"enc": "A128GCM"}}, {"header": {"alg": calg}}, kk)
    outs = G.harness(bdir, req)
    dec, dmeta = [], []
    for r, o, (what, key) in zip(req, outs, meta):
        if o.startswith("CRASH"):
            rep.violation("conflict:crash", "crash: " + o[:200], {"case": r})
        elif o != "ERR":
            dkey = ec if key.get("kty") == "EC" else key
            if "key declares" in what:
                dkey = {m: v for m, v in key.items() if m != "alg"}
                tk = json.loads(o)
                mh = dict(tk.get("header") or {})
                mh.update(tk.get("unprotected") or {})
                mh.update(json.loads(G.unb64(tk["protected"])) if isinstance(tk.get("protected"), str) else {})
                calg_ = what.split("caller ")[1].split(" ")[0]
                if mh.get("alg") != calg_:
                    rep.violation("conflict:caller-alg-replaced", "%s: the result names %r" % (what, mh.get("alg")), {"case": r[:1500], "implementation": o[:600]})
            dec.append("jwedec\t%s\t-\t%s" % (o, J(dkey)))
            dmeta.append((what, r))
    for c, o, (what, r) in zip(dec, G.harness(bdir, dec), dmeta):
        if o != "OK " + b"c15".hex():
            rep.violation("conflict:product-does-not-decrypt:" + what.split(":")[0], "%s: the JWE produced by jose_jwe_enc does not decrypt again -- the producer used another value than the merged header names" % what,
                          {"case": c[:2500], "produced_by": r[:1500], "implementation": o[:100]})
    dist["conflicting algorithm parameters, end to end"] = len(req)
    return len(req) + len(dec)


def zip_placement(ctx, dist):
    """compression is honoured only when "zip" is in the PROTECTED header, on both sides (implementation only; the
    ciphertext of AES-GCM is as long as what was encrypted, so the length shows whether the plaintext was deflated)"""
    import zlib
    import jwsgen as G
    rep = ctx["rep"]
    bdir = ctx["bdir"]
    rnd = random.Random(ctx["seed"] + 16)
    J = G.dumps
    n = 0
    pt = b"compressible " * 150
    co = zlib.compressobj(9, zlib.DEFLATED, -15)
    deflated = co.compress(pt) + co.flush()
    for enc, klen_ in (("A128GCM", 16), ("A256GCM", 32), ("A128CBC-HS256", 32)):
        key = G.oct_key(rnd, klen_)
        base = {"alg": "dir", "enc": enc}
        places = {
            "protected": ({"protected": dict(base, zip="DEF")}, None, True),
            "protected (encoded)": ({"protected": G.b64(J(dict(base, zip="DEF")).encode())}, None, True),
            "shared unprotected": ({"protected": base, "unprotected": {"zip": "DEF"}}, None, False),
            "per-recipient": ({"protected": base}, {"header": {"zip": "DEF"}}, False),
            "unprotected only, nothing protected": ({"unprotected": dict(base, zip="DEF")}, None, False),
            "absent": ({"protected": base}, None, False),
        }
        req = ["jweenc\t%s\t%s\t%s\t%s" % (J(t), "-" if r is None else J(r), J(key), pt.hex()) for t, r, _ in places.values()]
        outs = G.harness(bdir, req)
        dec = []
        for (pl, (t, r, want)), rq, o in zip(places.items(), req, outs):
            n += 1
            if o.startswith("CRASH") or o == "ERR":
                rep.violation("zip-placement:enc-failed:" + pl, "jose_jwe_enc with zip %s failed: %s" % (pl, o[:80]), {"case": rq[:600]})
                continue
            ctl = len(G.unb64(json.loads(o)["ciphertext"]))
            compressed = ctl < len(pt) // 2
            if compressed != want:
                rep.violation("zip-placement:producer:" + pl.split(",")[0].split(" (")[0], "zip given in: %s -- the producer %s the plaintext (%d plaintext octets, %d ciphertext octets, %s)"
                              % (pl, "compressed" if compressed else "did not compress", len(pt), ctl, enc), {"case": rq[:600], "implementation": o[:300]})
            dec.append(("jwedec\t%s\t-\t%s" % (o, J(key)), pl))
        for (c, pl), o in zip(dec, G.harness(bdir, [x[0] for x in dec])):
            n += 1
            if o != "OK " + pt.hex():
                rep.violation("zip-placement:roundtrip:" + pl.split(",")[0].split(" (")[0], "zip given in: %s -- the product does not decrypt to the plaintext: %s" % (pl, o[:60]), {"case": c[:800]})
        # consumer: a token whose PLAINTEXT is a raw deflate stream, encrypted without zip; adding an (unauthenticated)
        # "zip" to the shared unprotected or per-recipient header must not make the consumer inflate it
        o = G.harness(bdir, ["jweenc\t%s\t-\t%s\t%s" % (J({"protected": base}), J(key), deflated.hex())])[0]
        if o.startswith("{"):
            tok = json.loads(o)
            variants = {"untouched": tok, "shared unprotected": dict(tok, unprotected={"zip": "DEF"}), "per-recipient": dict(tok, header={"zip": "DEF"})}
            dl = ["jwedec\t%s\t-\t%s" % (J(v), J(key)) for v in variants.values()]
            sl = ["jwedecio\t%s\t-\t%s\t%d" % (J(v), J(key), len(tok["ciphertext"])) for v in variants.values()]
            for pl, c, od in zip(list(variants) * 2, dl + sl, G.harness(bdir, dl + sl)):
                n += 1
                got = od.split(" ")[-1] if od.startswith(("OK", "1 ", "0 ")) else od
                if got != deflated.hex():
                    rep.violation("zip-placement:consumer:" + pl, "a token encrypted without zip, with \"zip\":\"DEF\" added to the %s header: the consumer does not return the %d octets that were encrypted (%s)"
                                  % (pl, len(deflated), "it returns %d octets" % (len(got) // 2) if all(ch in "0123456789abcdef" for ch in got) else od[:40]), {"case": c[:800]})
    dist["zip in each header position: producer, round trip, consumer"] = n
    return n


def recorded_after_growth(ctx, dist):
    """the merged header of EVERY entry of the result names the algorithm that was applied (and keeps the caller's other
    parameters) also after the object has grown from the flattened to the general form: first entry made with the
    algorithm in the protected header / in the unprotected header only / inferred, then a second one added"""
    import jwsgen as G
    rep = ctx["rep"]
    bdir = ctx["bdir"]
    rnd = random.Random(ctx["seed"] + 18)
    J = G.dumps
    n = 0
    hk, hk2 = G.oct_key(rnd, 32), G.oct_key(rnd, 64)
    firsts = {"protected": {"protected": {"alg": "HS256", "kid": "first"}}, "unprotected only": {"header": {"alg": "HS256", "kid": "first"}},
              "split": {"protected": {"alg": "HS256"}, "header": {"kid": "first"}}, "inferred": {"header": {"kid": "first"}}}
    for name, tm in firsts.items():
        a = G.harness(bdir, ["jwssig\t%s\t%s\t%s" % (J({"payload": G.b64(b"grow")}), J(tm), J(hk))])[0]
        n += 1
        if not a.startswith("{"):
            rep.violation("growth:first-signature-failed:" + name, "jose_jws_sig failed (algorithm given through: %s): %s" % (name, a[:60]), {"template": tm})
            continue
        b = G.harness(bdir, ["jwssig\t%s\t%s\t%s" % (a, J({"protected": {"alg": "HS512", "kid": "second"}}), J(hk2))])[0]
        n += 1
        if not b.startswith("{"):
            rep.violation("growth:second-signature-failed:" + name, "adding a second signature failed: " + b[:60], {"first": a[:600]})
            continue
        tok = json.loads(b)
        stray = [m for m in ("protected", "header", "signature") if m in tok]
        sigs = tok.get("signatures") or []
        merged = []
        for e in sigs:
            h = dict(e.get("header") or {})
            if isinstance(e.get("protected"), str):
                h.update(json.loads(G.unb64(e["protected"])))
            merged.append(h)
        want = [{"alg": "HS256", "kid": "first"}, {"alg": "HS512", "kid": "second"}]
        if stray or [{k: h.get(k) for k in ("alg", "kid")} for h in merged] != want:
            rep.violation("growth:merged-header-lost:" + name.split(" ")[0],
                          "after a second signature was added (first one: algorithm through %s) the merged headers of the entries are %s (top-level leftovers: %s); they must name %s"
                          % (name, J(merged)[:200], stray, J(want)), {"first": a[:800], "result": b[:1200]})
    # JWE: first recipient with alg in the protected / shared header (no per-recipient header), then a second recipient
    kw, kw2 = G.oct_key(rnd, 16), G.oct_key(rnd, 32)
    for name, tm in {"protected": {"protected": {"alg": "A128KW", "enc": "A128GCM"}}, "shared unprotected": {"protected": {"enc": "A128GCM"}, "unprotected": {"alg": "A128KW"}},
                     "inferred": {"protected": {"enc": "A128GCM"}}}.items():
        o = G.harness(bdir, ["jweenc2\t%s\t%s\t%s\t%s" % (J(tm), J(kw), J(dict(kw2, alg="A256KW") if name == "inferred" else kw), b"grow".hex())])[0]
        n += 1
        if o == "ERR" or o.startswith("CRASH"):
            rep.violation("growth:second-recipient-failed:" + name, "two recipients (algorithm through %s) failed: %s" % (name, o[:60]), {"template": tm})
            continue
        tok = json.loads(o.split("\t")[0])
        stray = [m for m in ("header", "encrypted_key") if m in tok]
        if stray or len(tok.get("recipients") or []) != 2 or any("encrypted_key" not in e for e in tok["recipients"]):
            rep.violation("growth:recipient-entry-lost:" + name.split(" ")[0], "two recipients (algorithm through %s): entries %s, top-level leftovers %s" % (name, J(tok.get("recipients"))[:200], stray),
                          {"result": o[:1200]})
    dist["merged headers of every entry after growth flattened -> general"] = n
    return n


def oaep_named_is_applied(ctx, dist):
    """RSA-OAEP, RSA-OAEP-224/256/384/512: the encrypted_key jose produces opens under EXACTLY the named variant (python
    RSAES-OAEP, label hash = MGF1 hash, RFC 7518 4.3), and a key wrapped outside under the named variant is unwrapped by jose"""
    import hashlib
    import jwsgen as G
    import pyrsa
    rep = ctx["rep"]
    bdir = ctx["bdir"]
    rk = G.standard_keys(bdir).get("RSA2048")
    if not rk:
        return 0
    ki = {m: int.from_bytes(G.unb64(rk[m]), "big") for m in ("n", "e", "d")}
    J = G.dumps
    n = 0
    for alg, hn in (("RSA-OAEP", "sha1"), ("RSA-OAEP-224", "sha224"), ("RSA-OAEP-256", "sha256"), ("RSA-OAEP-384", "sha384"), ("RSA-OAEP-512", "sha512")):
        for src in ("caller", "key"):
            key = G.pub_of(rk) if src == "caller" else dict(G.pub_of(rk), alg=alg)
            tm = {"protected": {"alg": alg, "enc": "A128GCM"}} if src == "caller" else {"protected": {"enc": "A128GCM"}}
            o = G.harness(bdir, ["jweenc\t%s\t-\t%s\t%s" % (J(tm), J(key), b"oaep".hex())])[0]
            n += 1
            if not o.startswith("{"):
                continue       # an algorithm this build does not offer
            tok = json.loads(o)
            hdr = dict(tok.get("header") or {})
            hdr.update(json.loads(G.unb64(tok["protected"])))
            cek = pyrsa.oaep_decrypt(ki, hn, G.unb64(tok["encrypted_key"]))
            if hdr.get("alg") != alg or cek is None or len(cek) != 16:
                others = [h2 for h2 in ("sha1", "sha224", "sha256", "sha384", "sha512") if h2 != hn and pyrsa.oaep_decrypt(ki, h2, G.unb64(tok["encrypted_key"])) is not None]
                rep.violation("oaep-applied-differs-from-named:" + alg, "the result names %r (algorithm from the %s) but its encrypted_key does not open as RSAES-OAEP with %s for label and MGF1%s"
                              % (hdr.get("alg"), src, hn, (" (it opens with %s)" % others[0]) if others else " (nor with any single hash: label and mask hashes differ)"), {"token": o[:900]})
        # consumer: a content key wrapped outside under the named variant
        o = G.harness(bdir, ["jweenc\t%s\t-\t%s\t%s" % (J({"protected": {"alg": alg, "enc": "A128GCM"}}), J(G.pub_of(rk)), b"oaep".hex())])[0]
        if o.startswith("{"):
            tok = json.loads(o)
            cek = b"0123456789abcdef"
            tok["encrypted_key"] = G.b64(pyrsa.oaep_encrypt(ki, hn, cek))
            u = G.harness(bdir, ["jweunw\t%s\t-\t%s" % (J(tok), J(rk))])[0]
            n += 1
            if not u.startswith("{") or json.loads(u).get("k") != G.b64(cek):
                rep.violation("oaep-consumer-differs-from-named:" + alg, "a content key wrapped outside the library as RSAES-OAEP with %s (label and MGF1) under the header alg %s is not unwrapped by jose: %s" % (hn, alg, u[:60]),
                              {"token": J(tok)[:900]})
    dist["RSA-OAEP variants: named = applied (python RSAES-OAEP both directions)"] = n
    return n


def correspond(ctx):
    ncf = oaep_named_is_applied(ctx, collections.Counter()) + conflicting_parameters(ctx, collections.Counter()) + zip_placement(ctx, collections.Counter()) + recorded_after_growth(ctx, collections.Counter())
    cases, dist = gen(ctx["tier"], ctx["seed"], ctx["bdir"])
    dist["conflicting algorithm parameters (apu/apv/p2c/alg/enc in two headers), end to end"] = ncf
    # drop wrapalg cases whose key cannot be used with the algorithm the header / the suggestion names:
    # decided on the implementation-independent side (python), before running anything
    kept = []
    for c in cases:
        f = c.split("\t")
        if f[0] == "wrapalg":
            jwe = json.loads(f[1])
            rcp = json.loads(f[2]) if f[2] != "-" else {}
            key = json.loads(f[3])
            p = jwe.get("protected")
            if isinstance(p, str):
                p = json.loads(base64.urlsafe_b64decode(p + "=" * (-len(p) % 4)))
            alg = first((p or {}).get("alg"), (jwe.get("unprotected") or {}).get("alg"), (rcp.get("header") or {}).get("alg"))
            if alg is not None and not wrap_key_fits(alg, key):
                dist["recording: key management"] -= 1
                dist["dropped: key cannot be used with the named algorithm"] = dist.get("dropped: key cannot be used with the named algorithm", 0) + 1
                continue
        kept.append(c)
    cases = kept
    # reference for the sigmulti metamorphic relation: each key alone with the same template (implementation only)
    import jwsgen as _G
    singles, owners = [], []
    for c in cases:
        f = c.split("\t")
        if f[0] == "sigmulti":
            for k in json.loads(f[2]):
                singles.append("sigalg\t%s\t%s" % (f[1], dumps(k)))
            owners.append(f)
    outs = _G.harness(ctx["bdir"], singles) if singles else []
    it = iter(outs)
    for f in owners:
        keys = json.loads(f[2])
        res = []
        ok = True
        for k in keys:
            o = next(it)
            if o == "ERR" or o.startswith("CRASH"):
                ok = False
            else:
                res.append(o.replace("\tH=", " H="))
        if ok:
            SINGLE[(f[1], "\x00".join(dumps(k) for k in keys))] = res
    return runner.standard(
        ctx, cases, oracle, nontrivial,
        rule="jose_jws_hdr/jose_jwe_hdr on every presence pattern of a name across the 2/3 headers in object, encoded, absent and malformed protected forms; the suggestion hooks on every key type/size/curve with and without declared alg and on passwords of length 0..41; the recording of chosen algorithms by jose_jws_sig_io (one key, and one template applied to several keys with differing inferred algorithms), jose_jwe_enc_cek_io, jose_jwe_enc_jwk; non-trivial = a header/name was produced",
        dist=dist)
