"""C18 the command-line tool is faithful to the library: exit status and output.

The built `jose` binary is run on generated command lines; for the same inputs the LIBRARY is
called through the harness (jwsver, jwedec, jwssig, jweenc, pub, thp, eql, exc, gen, prm, b64enc...)
and the two are compared: "exit status 0 <=> the library succeeded" and "standard output / output
file on success = the library's result" (JSON canonicalised; random products -- PS/ES signatures,
ciphertexts, generated keys -- are CHECKED by a second round: the token printed by `jws sig` /
`jwe enc` / `fmt` must be accepted by `jws ver` / `jwe dec`, binary and library, with the same
payload / plaintext).  This oracle needs no model.  The model side (coq/Cli/Cmds.v extracted,
ocaml/d_cli.ml) predicts exit status and output from the same command line (HMAC / symmetric
algorithms, jwk and b64 subcommands, fmt) or from the library's verdicts (the prep_io / dec glue
for the other algorithms) and is compared too."""
import base64
import collections
import concurrent.futures as cf
import json
import os
import random
import shutil
import subprocess
import tempfile

import jwsgen as G
import vlib

PID = "C18"
PROP_FILE = "Props/Properties_C18.v"
LEVEL = "proof"
ASSUMPTIONS = [
    "C18: proved on the glue model coq/Cli/Cmds.v + Cli/Compact.v: which IO objects jcmd_jws_prep_io multiplexes, how payload/ciphertext is fed (one feed per byte from a FILE, one feed for a member), exit status = verdict of done(), the C tests on return values as written (NULL verifier test, `!= dlen` on a size_t, recipient count, json_object_del of the streamed member, EXIT_FAILURE on a missing tag); getopt, fopen, allocation failure, tty newline and the interactive password prompt are exercised or excluded, not modelled",
    "C18: the library side of the theorems is the library MODEL of the other properties (Jose/Jws.v ver_io/ver_valid, Jose/Jwe.v dec_jwk/dec_cek_octets, Jwk/*.v); cipher stages are modelled by their verdict at done() (atdone stage), so what a FAILING run had already streamed to its output is only bounded (prefix), not computed",
    "C18: `jwe enc` is modelled as a skeleton over three library steps given as Section variables (enc_jwk, enc_cek_io creation, feed+done); that the token it prints decrypts is C18_dec_accepts under the library's own round trip (C04; compression as one stream: C07) and is checked on the binary for plaintexts of 0 B .. 64 KiB (1 MiB thorough), with and without zip",
    "C18: correspondence: the equivalent library call for a command line is built by the python generator (compact -> flattened object, detached file -> base64url member, JWKSet -> key list as jwks_extend does); usage errors (bad option, unreadable file, missing mandatory option) exit with status 1 like refusals and are kept apart by construction of the case, not by status",
    "C18: `-p` (password prompt) is run without a controlling terminal (setsid) so that the prompt cannot block; passwords are exercised as JSON-string keys (-k file holding a JSON string)",
]

NW = 16


def b64(b):
    return base64.urlsafe_b64encode(b).rstrip(b"=").decode()


def unb64(s):
    return base64.urlsafe_b64decode(s + "=" * (-len(s) % 4))


def canon_b64(s):
    """canonical unpadded base64url text?"""
    try:
        if not isinstance(s, str) or any(c not in G_ALPH for c in s):
            return False
        return b64(unb64(s)) == s
    except Exception:
        return False


G_ALPH = "ABCDEFGHIJKLMNOPQRSTUVWXYZabcdefghijklmnopqrstuvwxyz0123456789-_"


def dumps(v):
    return json.dumps(v, separators=(",", ":"), sort_keys=True)


def hx(b):
    return b.hex() if b else "-"


class Dup(Exception):
    pass


def loads_strict(text):
    """JSON with duplicate member names reported"""
    dups = []

    def hook(pairs):
        seen = set()
        for k, _ in pairs:
            if k in seen:
                dups.append(k)
            seen.add(k)
        return dict(pairs)
    v = json.loads(text, object_pairs_hook=hook)
    return v, dups


# ------------------------------------------------------------------ running the binary

_ENV = None


def _env():
    global _ENV
    if _ENV is None:
        e = dict(os.environ)
        e["ASAN_OPTIONS"] = "detect_leaks=0"
        e.pop("UBSAN_OPTIONS", None)
        _ENV = e
    return _ENV


class Case:
    """one command line.  args: list of str | ("F", name) input file | ("O", name) output file.
    files: name -> bytes.  stdin: bytes | None.  spec: semantic description used by the oracle."""
    __slots__ = ("group", "cmd", "args", "files", "stdin", "spec", "lib", "model", "res", "libres", "modres", "tag", "_mline")

    def __init__(self, group, cmd, args, files=None, stdin=None, spec=None, lib=None, model=None, tag=""):
        self.group, self.cmd, self.args = group, cmd, args
        self.files = files or {}
        self.stdin = stdin
        self.spec = spec or {}
        self.lib = lib or []
        self.model = model
        self.res = self.libres = self.modres = None
        self.tag = tag

    def argv_display(self):
        out = []
        for a in self.args:
            out.append(a if isinstance(a, str) else a[1])
        return self.cmd + out

    def shell(self):
        """a shell one-liner that reproduces the run"""
        parts = []
        for n, c in self.files.items():
            if len(c) > 600:
                parts.append("head -c %d /dev/zero > %s" % (len(c), n) if c == bytes(len(c)) else
                             "python3 -c \"import sys;sys.stdout.buffer.write(bytes.fromhex('%s'))\" > %s" % (c[:300].hex(), n))
            else:
                try:
                    t = c.decode()
                    if "'" in t or "\n" in t or not t.isprintable():
                        raise ValueError
                    parts.append("printf '%%s' '%s' > %s" % (t, n))
                except ValueError:
                    parts.append("printf '%s' > %s" % ("".join("\\x%02x" % b for b in c), n))
        av = " ".join("'%s'" % a if isinstance(a, str) and (not a.startswith("-") or len(a) > 2) else (a if isinstance(a, str) else a[1])
                      for a in self.args)
        cmd = "jose %s %s" % (" ".join(self.cmd), av)
        if self.stdin is not None:
            try:
                cmd = "printf '%%s' '%s' | %s" % (self.stdin.decode(), cmd)
            except UnicodeDecodeError:
                cmd = "printf '%s' | %s" % ("".join("\\x%02x" % b for b in self.stdin), cmd)
        return "; ".join(parts + [cmd + "; echo \" exit=$?\""])


class Bin:
    def __init__(self, bdir):
        self.exe = os.path.join(bdir, "jose")
        self.tmp = tempfile.mkdtemp(prefix="c18-")
        self.n = 0

    def close(self):
        shutil.rmtree(self.tmp, ignore_errors=True)

    def run(self, idx, case):
        d = os.path.join(self.tmp, "c%d" % idx)
        os.makedirs(d, exist_ok=True)
        try:
            for n, c in case.files.items():
                with open(os.path.join(d, n), "wb") as f:
                    f.write(c)
            argv = []
            outs = []
            for a in case.args:
                if isinstance(a, str):
                    argv.append(a)
                else:
                    p = os.path.join(d, a[1])
                    argv.append(p)
                    if a[0] == "O":
                        outs.append((a[1], p))
            try:
                p = subprocess.run([self.exe] + case.cmd + argv, input=case.stdin if case.stdin is not None else b"",
                                   stdout=subprocess.PIPE, stderr=subprocess.PIPE, timeout=120, env=_env(),
                                   start_new_session=True, cwd=d)
            except subprocess.TimeoutExpired:
                return {"rc": None, "out": b"", "files": {}, "crash": "TIMEOUT", "err": ""}
            err = p.stderr.decode(errors="replace")
            crash = None
            if p.returncode < 0 or "AddressSanitizer" in err or "runtime error:" in err:
                crash = vlib.crash_summary(p.returncode, err)
            files = {}
            for n, path in outs:
                if os.path.exists(path):
                    with open(path, "rb") as f:
                        files[n] = f.read()
            return {"rc": p.returncode, "out": p.stdout, "files": files, "crash": crash,
                    "err": err.replace(self.tmp, "").strip()[-300:], "usage": "Usage:" in err}
        finally:
            shutil.rmtree(d, ignore_errors=True)

    def run_all(self, cases):
        base = self.n
        self.n += len(cases)
        with cf.ThreadPoolExecutor(NW) as ex:
            res = list(ex.map(lambda ic: self.run(base + ic[0], ic[1]), enumerate(cases)))
        for c, r in zip(cases, res):
            c.res = r
        return res


def run_lib(bdir, cases):
    """all harness lines of all cases in one sharded run"""
    lines = []
    for c in cases:
        lines.extend(c.lib)
    outs = G.harness(bdir, lines, shards=NW) if lines else []
    i = 0
    for c in cases:
        c.libres = outs[i:i + len(c.lib)]
        i += len(c.lib)


def run_model(driver, cases):
    idx = [i for i, c in enumerate(cases) if c.model]
    if not driver or not idx:
        return
    outs = vlib.run_cases(driver, [cases[i].model for i in idx], shards=NW)
    for i, o in zip(idx, outs):
        cases[i].modres = o


# ------------------------------------------------------------------ inputs: keys and tokens

def jwks_extend(files_content):
    """what the accumulated -k options become (cmd/jose.c jwks_extend): None = the option is refused"""
    keys = []
    for v in files_content:
        if not isinstance(v, (dict, str)):
            return None
        ks = v.get("keys") if isinstance(v, dict) else None
        if isinstance(ks, list):
            if not ks:
                return None
            keys.extend(ks)
        else:
            keys.append(v)
    return keys


def via_args(opt, text, via, fname):
    """-> (args, files, stdin) for giving `text` to option `opt` inline / by file / on stdin"""
    if via == "inline":
        return [opt, text], {}, None
    if via == "file":
        return [opt, ("F", fname)], {fname: text.encode()}, None
    return [opt, "-"], {}, text.encode()


def jws_forms(flat):
    """flattened JWS object -> the three serializations (compact None when not expressible)"""
    out = {"flat": dumps(flat)}
    ent = {k: flat[k] for k in ("protected", "header", "signature") if k in flat}
    gen = {k: v for k, v in flat.items() if k not in ent}
    gen["signatures"] = [ent]
    out["general"] = dumps(gen)
    if "header" not in flat and isinstance(flat.get("protected", ""), str):
        out["compact"] = "%s.%s.%s" % (flat.get("protected", ""), flat.get("payload", ""), flat["signature"])
    return out


def jwe_forms(flat):
    out = {"flat": dumps(flat)}
    ent = {k: flat[k] for k in ("header", "encrypted_key") if k in flat}
    gen = {k: v for k, v in flat.items() if k not in ent}
    gen["recipients"] = [ent]
    out["general"] = dumps(gen)
    if not any(k in flat for k in ("header", "unprotected", "aad")):
        out["compact"] = ".".join(flat.get(k, "") for k in ("protected", "encrypted_key", "iv", "ciphertext", "tag"))
    return out


def compact_to_json(kind, text):
    names = ["protected", "payload", "signature"] if kind == "jws" else ["protected", "encrypted_key", "iv", "ciphertext", "tag"]
    parts = text.split(".")
    if len(parts) != len(names):
        return None
    return dict(zip(names, parts))


def is_hmac_key(k):
    return isinstance(k, dict) and k.get("kty") == "oct"


class Env:
    """keys and library-produced tokens shared by the generators"""

    def __init__(self, bdir, rnd):
        self.bdir = bdir
        std = G.standard_keys(bdir)
        extra = G.gen_keys(bdir, [{"kty": "EC", "crv": "P-256", "kid": "second"}, {"kty": "EC", "crv": "P-384", "kid": "c18"}])
        K = {}
        K["hs256"] = G.oct_key(rnd, 32)
        K["hs256b"] = G.oct_key(rnd, 32)
        K["hs512"] = G.oct_key(rnd, 64)
        K["short"] = G.oct_key(rnd, 4)
        K["encuse"] = dict(G.oct_key(rnd, 32), use="enc")
        K["siguse"] = dict(G.oct_key(rnd, 16), use="sig")
        K["nok"] = {"kty": "oct"}
        K["ec"] = std["P-256"]
        K["ec2"] = G.strip_meta(extra[0])
        K["ec384"] = G.strip_meta(extra[1])
        K["ecpub"] = G.pub_of(K["ec"])
        K["rsa"] = std["RSA2048"]
        K["rsapub"] = G.pub_of(K["rsa"])
        K["a128"] = G.oct_key(rnd, 16)
        K["a128b"] = G.oct_key(rnd, 16)
        K["a256"] = G.oct_key(rnd, 32)
        K["pw"] = "correct horse battery %d" % rnd.randrange(1000)
        K["pwbad"] = "wrong password"
        self.K = K
        self.payload = b"C18 payload \x00\xff with bytes"
        self.plain = b"C18 plaintext: attack at dawn"
        self._make_tokens()

    def h(self, lines):
        return G.harness(self.bdir, lines)

    def _make_tokens(self):
        K = self.K
        pay = b64(self.payload)
        base = dumps({"payload": pay})
        req = [
            ("hs", "jwssig\t%s\t%s\t%s" % (base, dumps({"protected": {"alg": "HS256"}}), dumps(K["hs256"]))),
            ("hs512", "jwssig\t%s\t%s\t%s" % (base, dumps({"protected": {"alg": "HS512"}}), dumps(K["hs512"]))),
            ("es", "jwssig\t%s\t%s\t%s" % (base, dumps({"protected": {"alg": "ES256"}}), dumps(K["ec"]))),
            ("rs", "jwssig\t%s\t%s\t%s" % (base, dumps({"protected": {"alg": "RS256"}}), dumps(K["rsa"]))),
            ("hdr", "jwssig\t%s\t%s\t%s" % (base, dumps({"header": {"alg": "HS256"}}), dumps(K["hs256"]))),
            ("empty", "jwssig\t%s\t%s\t%s" % (dumps({"payload": ""}), dumps({"protected": {"alg": "HS256"}}), dumps(K["hs256"]))),
        ]
        pt = self.plain.hex()
        ereq = [
            ("kw", "jweenc\t%s\t-\t%s\t%s" % (dumps(G.jwe_template("A128KW", "A128GCM", False, None)), dumps(K["a128"]), pt)),
            ("dir", "jweenc\t%s\t-\t%s\t%s" % (dumps(G.jwe_template("dir", "A128CBC-HS256", False, None)), dumps(K["a256"]), pt)),
            ("ec", "jweenc\t%s\t-\t%s\t%s" % (dumps(G.jwe_template("ECDH-ES+A128KW", "A128GCM", False, None)), dumps(K["ecpub"]), pt)),
            ("rsa", "jweenc\t%s\t-\t%s\t%s" % (dumps(G.jwe_template("RSA-OAEP", "A128GCM", False, None)), dumps(K["rsapub"]), pt)),
            ("pb", "jweenc\t%s\t-\t%s\t%s" % (dumps(G.jwe_template("PBES2-HS256+A128KW", "A128GCM", False, None)), dumps(K["pw"]), pt)),
            ("zip", "jweenc\t%s\t-\t%s\t%s" % (dumps(G.jwe_template("A128KW", "A128GCM", True, None)), dumps(K["a128"]), (self.plain * 20).hex())),
            ("split", "jweenc\t%s\t-\t%s\t%s" % (dumps(G.jwe_template("A128KW", "A128GCM", False, None, where="split")), dumps(K["a128"]), pt)),
            ("two", "jweenc2\t%s\t%s\t%s\t%s" % (dumps({"protected": {"enc": "A128GCM"}}), dumps(K["a128"]), dumps(K["a128b"]), pt)),
            ("twop", "jweenc2\t%s\t%s\t%s\t%s" % (dumps({"protected": {"enc": "A128GCM", "alg": "A128KW"}}), dumps(K["a128"]), dumps(K["a128b"]), pt)),
        ]
        outs = self.h([r for _, r in req] + [r for _, r in ereq])
        self.T, self.E = {}, {}
        bad = []
        for (n, r), o in zip(req, outs[:len(req)]):
            if o == "ERR" or o.startswith("CRASH"):
                bad.append((r, o))
            else:
                self.T[n] = json.loads(o)
        for (n, r), o in zip(ereq, outs[len(req):]):
            o = o.split("\t")[0]
            if o == "ERR" or o.startswith("CRASH"):
                bad.append((r, o))
            else:
                self.E[n] = json.loads(o)
        # a second signature on the HS256 token -> general form with two signatures
        if "hs" in self.T:
            o = self.h(["jwssig\t%s\t%s\t%s" % (dumps(self.T["hs"]), dumps({"protected": {"alg": "ES256"}}), dumps(K["ec"]))])[0]
            if o != "ERR" and not o.startswith("CRASH"):
                self.T["two"] = json.loads(o)
            else:
                bad.append(("second signature", o))
        self.bad = bad
        self.tok_key = {"hs": "hs256", "hs512": "hs512", "es": "ec", "rs": "rsa", "hdr": "hs256", "empty": "hs256"}
        self.tok_pay = {n: (b"" if n == "empty" else self.payload) for n in self.T}
        self.jwe_key = {"kw": "a128", "dir": "a256", "ec": "ec", "rsa": "rsa", "pb": "pw", "zip": "a128", "split": "a128",
                        "two": "a128", "twop": "a128"}
        self.jwe_pt = {n: (self.plain * 20 if n == "zip" else self.plain) for n in self.E}

    def verkey(self, name):
        """what a verifier holds"""
        k = self.K[name]
        return k


# ------------------------------------------------------------------ jose jws ver

VER_KS = ["right", "right2", "set", "unusable", "wrongtype", "encuse", "wrong", "right+unusable", "right+wrong", "nok"]


def ver_keyset(env, tn, ks):
    """-> list of -k file contents (JSON values)"""
    K = env.K
    if tn == "two":
        R, R2 = K["hs256"], K["ec"]
        wrong, wtype = K["hs256b"], K["rsapub"]
    else:
        R = K[env.tok_key[tn]]
        R2 = R
        kind = env.tok_key[tn]
        wrong = {"hs256": K["hs256b"], "hs512": G.oct_key(random.Random(7), 64), "ec": K["ec2"], "rsa": K["ec2"]}[kind]
        wtype = K["ec"] if kind.startswith("hs") else K["hs256"]
    unusable = K["short"]
    return {
        "right": [R], "right2": [R, R2], "set": [{"keys": [R, R2]}], "unusable": [unusable], "wrongtype": [wtype],
        "encuse": [dict(R, use="enc")], "wrong": [wrong], "right+unusable": [R, unusable], "right+wrong": [R, wrong],
        "nok": [K["nok"]],
    }[ks]


def pubonly(k):
    return G.pub_of(k) if isinstance(k, dict) and k.get("kty") in ("EC", "RSA") else k


def make_ver(env, spec):
    tn, form, via = spec["tn"], spec["form"], spec["via"]
    flat = env.T[tn]
    pay = env.tok_pay.get(tn, env.payload)
    det = spec["det"]
    if tn == "two":
        forms = {"general": dumps(flat)}
        form = "general"
    else:
        forms = jws_forms(flat)
        if form not in forms:
            form = "flat"
    text = forms[form]
    files, stdin, args = {}, None, []
    eff = json.loads(forms["general" if tn == "two" else "flat"])
    if det != "none":
        # a detached JWS: no payload member / empty payload field; the payload comes from -I
        if form == "compact":
            p = text.split(".")
            text = "%s..%s" % (p[0], p[2])
        else:
            o = json.loads(text)
            o.pop("payload", None)
            text = dumps(o)
        dpay = pay if det == "same" else pay + b"!"
        files["pay.bin"] = dpay
        eff["payload"] = b64(dpay)
    a, f, stdin = via_args("-i", text, via, "in.jws")
    args += a
    files.update(f)
    if det != "none":
        args += ["-I", ("F", "pay.bin")]
    kfiles = [pubonly(k) if spec.get("pub", True) else k for k in ver_keyset(env, tn, spec["ks"])]
    if spec["ks"] == "set":
        kfiles = [{"keys": [pubonly(k) for k in kfiles[0]["keys"]]}]
    for i, k in enumerate(kfiles):
        files["k%d.jwk" % i] = dumps(k).encode()
        args += ["-k", ("F", "k%d.jwk" % i)]
    keys = jwks_extend(kfiles)
    if spec["all"]:
        args.append("-a")
    if spec["out"] == "-":
        args += ["-O", "-"]
    elif spec["out"] == "file":
        args += ["-O", ("O", "pay.out")]
    text_fed = eff.get("payload", "")
    # the verifier object is asked for in the serialization the program was given (a general object
    # gets a per-key multiplexer even when no signature is usable: non-NULL)
    given = compact_to_json("jws", text) if form == "compact" else json.loads(text)
    effnp = {k: v for k, v in given.items() if k != "payload"}
    lib = ["jwsver\t%s\t-\t%s\t%d" % (dumps(eff), dumps(keys), spec["all"]),
           "jwsverio\t%s\t-\t%s\t%d\t100000000\t%s" % (dumps(effnp), dumps(keys), spec["all"], hx(text_fed.encode()))]
    hm = tn in ("hs", "hs512", "hdr", "empty") and all(isinstance(k, dict) for k in keys)
    if hm:
        model = "c18ver\t%s\t%s\t%s\t%d\t%d\t%s" % (
            hx(args_text(a, files).encode()), "N" if via == "inline" else hx(text.encode()), dumps(keys),
            spec["all"], spec["out"] != "none", hx(files["pay.bin"]) if det != "none" else "N")
    else:
        sink = "-" if spec["out"] == "none" else ("T" if canon_b64(text_fed) else "F")

        def model(libres, sink=sink):
            v = libres[1]
            vv = "N" if v == "N" else ("T" if v.endswith(" T") else "F")
            return "c18verg\t%s\t%s" % (vv, sink)
    sp = dict(spec, form=form, payload=(files.get("pay.bin") if det != "none" else pay), keys=keys)
    return Case("jws ver", ["jws", "ver"], args, files, stdin, sp, lib, model)


def args_text(a, files):
    """the argv word of -i as the program sees it: the text itself, "-" or a path (any path with a
    slash is neither JSON nor compact, which is all the model needs to know)"""
    v = a[1]
    return v if isinstance(v, str) else "/tmp/c18/" + v[1]


def ver_opts(spec):
    o = []
    if spec["all"]:
        o.append("-a")
    if spec["out"] != "none":
        o.append("-O")
    if spec["det"] != "none":
        o.append("-I")
    return "+".join(o) or "plain"


def oracle_ver(c):
    r, sp = c.res, c.spec
    if r["crash"]:
        return ("jws ver:crash:" + r["crash"][:60], "crash or sanitizer report: " + r["crash"])
    lib = c.libres[0]
    if lib not in ("T", "F"):
        return ("jws ver:harness", "harness result: " + lib)
    ok = r["rc"] == 0
    o = ver_opts(sp)
    if ok and lib != "T":
        return ("jws ver:%s:exit-0-library-refuses" % o,
                "`jose jws ver` exits with status 0 although jose_jws_ver() with the same keys%s returns false (key set '%s'%s): "
                "nothing was verified" % (" and all=true" if sp["all"] else "", sp["ks"],
                                          ", payload printed" if sp["out"] != "none" else ""))
    if not ok and lib == "T":
        return ("jws ver:%s:exit-%s-library-accepts" % (o, r["rc"]),
                "`jose jws ver` fails (status %s, %s) although jose_jws_ver() accepts the same token and keys" % (r["rc"], r["err"][-120:]))
    if ok:
        want = sp["payload"]
        if sp["out"] == "-" and r["out"] != want:
            return ("jws ver:%s:stdout-not-payload" % o, "status 0 but standard output is not the decoded payload")
        if sp["out"] == "file" and r["files"].get("pay.out") != want:
            return ("jws ver:%s:file-not-payload" % o, "status 0 but the -O file does not hold the decoded payload")
        if sp["out"] != "-" and r["out"]:
            return ("jws ver:%s:unexpected-stdout" % o, "output on standard output without -O-")
    return None


def gen_ver(env, rnd, tier):
    specs = []
    forms = ["compact", "flat", "general"]
    # exhaustive option grid for the HS256 token by file, every form
    for form in forms:
        for all_ in (0, 1):
            for out in ("none", "-", "file"):
                for det in ("none", "same"):
                    for ks in VER_KS:
                        specs.append(dict(tn="hs", form=form, via="file", all=all_, out=out, det=det, ks=ks))
    # other tokens / ways of giving the input: the grid sampled
    toks = [t for t in ("hs512", "es", "rs", "hdr", "empty", "two") if t in env.T]
    n = 420 if tier == "quick" else 3000
    for _ in range(n):
        specs.append(dict(tn=rnd.choice(toks + ["hs"]), form=rnd.choice(forms), via=rnd.choice(["inline", "file", "stdin"]),
                          all=rnd.randrange(2), out=rnd.choice(["none", "-", "file"]),
                          det=rnd.choice(["none", "none", "same", "other"]), ks=rnd.choice(VER_KS)))
    # every token x form x via once, plainly
    for tn in toks + ["hs"]:
        for form in forms:
            for via in ("inline", "file", "stdin"):
                specs.append(dict(tn=tn, form=form, via=via, all=0, out="-", det="none", ks="right"))
    seen, out = set(), []
    for s in specs:
        k = dumps(s)
        if k not in seen:
            seen.add(k)
            out.append(make_ver(env, s))
    return out


# ------------------------------------------------------------------ jose jwe dec

DEC_KS = ["right", "wrong", "wrong+right", "set", "siguse", "wrongtype", "none-p", "right-p"]


def dec_keyset(env, en, ks):
    K = env.K
    R = K[env.jwe_key[en]]
    kind = env.jwe_key[en]
    wrong = {"a128": K["a128b"], "a256": K["hs256"], "ec": K["ec2"], "rsa": K["ec2"], "pw": K["pwbad"]}[kind]
    wtype = K["ec"] if kind in ("a128", "a256", "pw") else K["a128"]
    if ks in ("none-p",):
        return []
    return {"right": [R], "right-p": [R], "wrong": [wrong], "wrong+right": [wrong, R], "set": [{"keys": [wrong, R]}],
            "siguse": [dict(R, use="sig") if isinstance(R, dict) else wrong], "wrongtype": [wtype]}[ks]


def make_dec(env, spec):
    en, form, via, det = spec["en"], spec["form"], spec["via"], spec["det"]
    tok = env.E[en]
    multi = "recipients" in tok
    forms = {"general": dumps(tok)} if multi else jwe_forms(tok)
    if form not in forms:
        form = "general" if multi else "flat"
    text = forms[form]
    eff = json.loads(forms["general" if multi else "flat"])
    files, args = {}, []
    ct_raw = unb64(eff["ciphertext"])
    if det != "none":
        if form == "compact":
            p = text.split(".")
            p[3] = ""
            text = ".".join(p)
        else:
            o = json.loads(text)
            o.pop("ciphertext", None)
            text = dumps(o)
        d = ct_raw if det == "same" else ct_raw[:-1] + bytes([ct_raw[-1] ^ 1]) if ct_raw else b"x"
        files["ct.bin"] = d
        eff["ciphertext"] = b64(d)
    a, f, stdin = via_args("-i", text, via, "in.jwe")
    args += a
    files.update(f)
    if det != "none":
        args += ["-I", ("F", "ct.bin")]
    kfiles = dec_keyset(env, en, spec["ks"])
    for i, k in enumerate(kfiles):
        files["k%d.jwk" % i] = dumps(k).encode()
        args += ["-k", ("F", "k%d.jwk" % i)]
    if spec["ks"].endswith("-p"):
        args.append("-p")
    keys = jwks_extend(kfiles)
    if spec["out"] == "-":
        args += ["-O", "-"]
    elif spec["out"] == "file":
        args += ["-O", ("O", "pt.out")]
    lib = ["jwedec\t%s\t-\t%s" % (dumps(eff), dumps(keys)), "jweunw\t%s\t-\t%s" % (dumps(eff), dumps(keys))]
    sym = en in ("kw", "dir", "zip", "split", "two", "twop") and keys and all(isinstance(k, dict) and k.get("kty") == "oct" for k in keys)
    if sym:
        model = "c18dec\t%s\t%s\t%s\t%s" % (hx(args_text(a, files).encode()), "N" if via == "inline" else hx(text.encode()),
                                            dumps(keys), hx(files["ct.bin"]) if det != "none" else "N")
    elif keys:
        dec_ok = det != "none" or canon_b64(eff["ciphertext"])

        def model(libres, dec_ok=dec_ok):
            unw = libres[1] != "ERR"
            return "c18decg\t%d\t%d\t%d" % (unw, dec_ok, libres[0].startswith("OK"))
    else:
        model = None
    sp = dict(spec, form=form, keys=keys, plain=env.jwe_pt[en])
    return Case("jwe dec", ["jwe", "dec"], args, files, stdin, sp, lib, model)


def dec_opts(spec):
    o = []
    if spec["out"] == "file":
        o.append("-O")
    if spec["det"] != "none":
        o.append("-I")
    if spec["ks"].endswith("-p"):
        o.append("-p")
    return "+".join(o) or "plain"


def oracle_dec(c):
    r, sp = c.res, c.spec
    if r["crash"]:
        return ("jwe dec:crash:" + r["crash"][:60], "crash or sanitizer report: " + r["crash"])
    lib = c.libres[0]
    o = dec_opts(sp)
    if not sp["keys"]:
        # no key at all: with -p the prompt has no terminal -> failure; without: usage
        if r["rc"] == 0:
            return ("jwe dec:%s:exit-0-without-key" % o, "status 0 without any key")
        return None
    libok = lib.startswith("OK")
    if not libok and lib != "ERR":
        return ("jwe dec:harness", "harness result: " + lib[:80])
    ok = r["rc"] == 0
    if ok and not libok:
        return ("jwe dec:%s:exit-0-library-refuses" % o, "`jose jwe dec` exits 0 although jose_jwe_dec() fails (key set '%s')" % sp["ks"])
    if not ok and libok:
        return ("jwe dec:%s:exit-%s-library-accepts" % (o, r["rc"]),
                "`jose jwe dec` fails (status %s, %s) although jose_jwe_dec() decrypts the same token with the same keys (token '%s', form %s, input %s)"
                % (r["rc"], r["err"][-100:], sp["en"], sp["form"], sp["via"]))
    if ok:
        want = bytes.fromhex(lib[3:]) if lib[3:] != "-" else b""
        got = r["files"].get("pt.out") if sp["out"] == "file" else r["out"]
        if got != want:
            return ("jwe dec:%s:output-not-plaintext" % o, "status 0 but the output is not the library's plaintext")
        if want != sp["plain"]:
            return ("jwe dec:%s:plaintext-not-original" % o, "library plaintext differs from what was encrypted")
    return None


def gen_dec(env, rnd, tier):
    specs = []
    forms = ["compact", "flat", "general"]
    for form in forms:
        for out in ("none", "-", "file"):
            for det in ("none", "same", "other"):
                for ks in DEC_KS:
                    specs.append(dict(en="kw", form=form, via="file", out=out, det=det, ks=ks))
    toks = [t for t in ("dir", "ec", "rsa", "pb", "zip", "split", "two", "twop") if t in env.E]
    for _ in range(220 if tier == "quick" else 2000):
        specs.append(dict(en=rnd.choice(toks + ["kw"]), form=rnd.choice(forms), via=rnd.choice(["inline", "file", "stdin"]),
                          out=rnd.choice(["none", "-", "file"]), det=rnd.choice(["none", "none", "same", "other"]),
                          ks=rnd.choice(DEC_KS)))
    for en in toks + ["kw"]:
        for form in forms:
            for via in ("inline", "file", "stdin"):
                specs.append(dict(en=en, form=form, via=via, out="none", det="none", ks="right"))
    seen, out = set(), []
    for s in specs:
        k = dumps(s)
        if k not in seen:
            seen.add(k)
            out.append(make_dec(env, s))
    return out


# ------------------------------------------------------------------ jose jws sig (round 1) and the check of its product (round 2)

def make_sig(env, spec):
    K = env.K
    keys = [K[k] for k in spec["keys"]]
    files, args = {}, []
    tmpl = dict(spec.get("tmpl") or {})
    pay = env.payload
    eff_t = dict(tmpl)
    if spec["pay"] in ("tmpl", "both"):
        tmpl["payload"] = b64(b"template payload")
        eff_t["payload"] = tmpl["payload"]
    if spec["pay"] in ("I", "both"):
        files["pay.bin"] = pay
        eff_t["payload"] = b64(pay)
    stdin = None
    if tmpl:
        text = dumps(tmpl)
        if spec.get("tmpl_form") == "compact":
            text = "%s.%s.%s" % (tmpl.get("protected", ""), tmpl.get("payload", ""), tmpl["signature"])
        a, f, stdin = via_args("-i", text, spec.get("via", "inline"), "tmpl.jws")
        args += a
        files.update(f)
    if spec["pay"] in ("I", "both"):
        args += ["-I", ("F", "pay.bin")]
    sigs = spec.get("sigs") or []
    for s in sigs:
        args += ["-s", dumps(s)]
    for i, k in enumerate(keys):
        files["k%d.jwk" % i] = dumps(k).encode()
        args += ["-k", ("F", "k%d.jwk" % i)]
    if spec["compact"]:
        args.append("-c")
    if spec["out"] == "file":
        args += ["-o", ("O", "out.jws")]
    if spec["detach"]:
        args += ["-O", ("O", "pay.out")]
    padded = list(sigs) + [{} for _ in range(len(keys) - len(sigs))]
    lib = ["jwssig\t%s\t%s\t%s" % (dumps(eff_t), dumps(padded), dumps(keys))]
    nsigs = len(keys) + (1 if ("protected" in tmpl or "signature" in tmpl) else 0) + \
        (len(tmpl["signatures"]) if isinstance(tmpl.get("signatures"), list) else 0)
    usage = len(sigs) > len(keys) or (spec["compact"] and nsigs > 1) or not keys
    model = None
    if keys and all(is_hmac_key(k) for k in keys) and not usage:
        src = "D" + hx(pay) if spec["pay"] in ("I", "both") else "M"
        model = "c18sig\t%s\t%s\t%s\t%d\t%d\t%s" % (dumps(tmpl), dumps(sigs), dumps(keys), spec["compact"], spec["detach"], src)
    sp = dict(spec, usage=usage, signed_payload=unb64(eff_t.get("payload", "")), keyvals=keys)
    if spec.get("tmpl_form") == "compact":
        model = None          # the glue model takes the template as JSON text
    return Case("jws sig", ["jws", "sig"], args, files, stdin, sp, lib, model)


def sig_opts(sp):
    o = []
    if sp["pay"] in ("tmpl", "both"):
        o.append("-i{payload}")
    if sp["pay"] in ("I", "both"):
        o.append("-I")
    if sp["compact"]:
        o.append("-c")
    if sp["detach"]:
        o.append("-O")
    if len(sp["keys"]) > 1:
        o.append("multi-k")
    if sp.get("sigs"):
        o.append("-s")
    return "+".join(o) or "plain"


def token_of_output(kind, text, compact):
    """-> (object as a last-wins parser sees it, duplicate member names, complete?)"""
    try:
        s = text.decode()
    except UnicodeDecodeError:
        return None, [], False
    if compact:
        o = compact_to_json(kind, s)
        last = "signature" if kind == "jws" else "tag"
        return o, [], bool(o and o[last])
    try:
        o, dups = loads_strict(s)
    except ValueError:
        return None, [], False
    if not isinstance(o, dict):
        return None, [], False
    if kind == "jws":
        complete = "signature" in o or bool(o.get("signatures"))
    else:
        complete = "tag" in o
    return o, dups, complete


def oracle_sig(c):
    r, sp = c.res, c.spec
    if r["crash"]:
        return ("jws sig:crash:" + r["crash"][:60], "crash or sanitizer report: " + r["crash"])
    o = sig_opts(sp)
    lib = c.libres[0]
    product = r["files"].get("out.jws", b"") if sp["out"] == "file" else r["out"]
    tok, dups, complete = token_of_output("jws", product, sp["compact"])
    if sp["usage"]:
        if r["rc"] == 0:
            return ("jws sig:%s:usage-accepted" % o, "an option combination that must be refused exits 0")
        if complete:
            return ("jws sig:%s:product-on-failure" % o, "a complete token is printed although the command fails")
        return None
    libok = lib != "ERR" and not lib.startswith("CRASH")
    if lib.startswith("CRASH"):
        return None
    if r["rc"] == 0 and not libok:
        return ("jws sig:%s:exit-0-library-refuses" % o, "`jose jws sig` exits 0 although jose_jws_sig() refuses (keys %s)" % sp["keys"])
    if r["rc"] != 0 and libok:
        return ("jws sig:%s:exit-%s-library-accepts" % (o, r["rc"]), "`jose jws sig` fails (%s) although jose_jws_sig() signs" % r["err"][-100:])
    if r["rc"] != 0:
        if complete:
            return ("jws sig:%s:product-on-failure" % o, "a complete token is printed although the library refused")
        return None
    if not complete:
        return ("jws sig:%s:no-token" % o, "status 0 but the output is not a complete token: %r" % product[:80])
    if dups:
        return ("jws sig:%s:duplicate-member" % ("-i{payload}" + ("+-I" if sp["pay"] == "both" else "")),
                "the JSON text printed has the member %s twice (once streamed, once from the template object): "
                "it is not the serialization of the library's object, and parsers disagree on which one counts" % dups)
    if sp["detach"] and r["files"].get("pay.out") != sp["signed_payload"]:
        return ("jws sig:%s:detached-file" % o, "the -O file does not hold the payload")
    if sp["detach"] and not sp["compact"] and "payload" in tok:
        return ("jws sig:-i{payload}+-O:detached-but-still-embedded", "-O was given but the JSON printed still carries the template's payload member")
    if all(is_hmac_key(k) for k in sp["keyvals"]):
        want = json.loads(lib)
        if sp["compact"]:
            want = {k: want.get(k, "") for k in ("protected", "payload", "signature")}
        got = dict(tok)
        if sp["detach"]:
            want.pop("payload", None)
            if sp["compact"]:
                want["payload"] = ""
        if got != want:
            return ("jws sig:%s:output-differs" % o, "the token printed is not the library's result (deterministic HMAC)")
    return None


def round2_sig(env, c):
    """the token `jws sig` printed must verify (binary and library), with all the keys"""
    r, sp = c.res, c.spec
    if r["rc"] != 0 or sp["usage"]:
        return None
    product = r["files"].get("out.jws", b"") if sp["out"] == "file" else r["out"]
    tok, dups, complete = token_of_output("jws", product, sp["compact"])
    if not complete:
        return None
    files = {"tok.jws": product}
    args = ["-i", ("F", "tok.jws")]
    eff = dict(tok)
    if sp["detach"]:
        files["pay.bin"] = r["files"].get("pay.out", b"")
        args += ["-I", ("F", "pay.bin")]
        eff["payload"] = b64(files["pay.bin"])
    keys = [pubonly(k) for k in sp["keyvals"]] + [pubonly(env.K[k]) for k in sp.get("earlier_keys", [])]
    for i, k in enumerate(keys):
        files["k%d.jwk" % i] = dumps(k).encode()
        args += ["-k", ("F", "k%d.jwk" % i)]
    args += ["-a", "-O", "-"]
    lib = ["jwsver\t%s\t-\t%s\t1" % (dumps(eff), dumps(keys))]
    return Case("jws sig>ver", ["jws", "ver"], args, files, None,
                dict(origin=c, opts=sig_opts(sp), payload=sp["signed_payload"]), lib, None)


def oracle_round2_sig(c):
    r, sp = c.res, c.spec
    o = sp["opts"]
    org = sp["origin"]
    if r["crash"]:
        return ("jws sig>ver:crash:" + r["crash"][:60], "crash: " + r["crash"])
    if r["rc"] != 0 or c.libres[0] != "T":
        return ("jws sig:%s:token-rejected-by-ver" % o,
                "the token printed by `jose %s` is rejected by `jose jws ver -a` with the signing keys (status %s) / by jose_jws_ver (%s)"
                % (" ".join(org.argv_display()), r["rc"], c.libres[0]))
    if r["out"] != sp["payload"]:
        return ("jws sig:%s:payload-changed" % o, "the produced token verifies but carries another payload")
    return None


def gen_sig(env, rnd, tier):
    specs = []
    P = {"protected": {"alg": "HS256"}}
    keysets = [(["hs256"], None), (["hs256"], [P]), (["hs512"], None), (["ec"], None), (["rsa"], [{"protected": {"alg": "PS256"}}]),
               (["rsa"], None), (["hs256", "ec"], None), (["hs256", "hs256b"], [P, {"header": {"kid": "two"}}]),
               (["hs256"], [{"header": {"kid": "k1"}}]), (["ec384"], None),
               # refusals
               (["short"], [P]), (["encuse"], None), (["ecpub"], None), (["nok"], None), (["hs256"], [{"protected": {"alg": "ES256"}}]),
               (["a128"], [{"protected": {"alg": "HS512"}}]), (["hs256", "nok"], None), (["siguse", "short"], [P, P]),
               # refused by the option validation
               (["hs256"], [P, P])]
    for keys, sigs in keysets:
        for pay in ("I", "tmpl", "both"):
            for compact in (0, 1):
                for detach in (0, 1):
                    for out in ("stdout", "file"):
                        if out == "file" and (detach or pay == "both") and tier == "quick" and rnd.random() < 0.6:
                            continue
                        specs.append(dict(keys=keys, sigs=sigs, pay=pay, compact=compact, detach=detach, out=out))
    # a template that already carries a signature: adding one gives the general form
    if "hs" in env.T:
        t = dict(env.T["hs"])
        t.pop("payload")
        for compact in (0, 1):
            specs.append(dict(keys=["ec"], sigs=None, pay="I", compact=compact, detach=0, out="stdout", tmpl=t, via="file"))
    # co-signing: the existing token (with its payload) given in flattened or compact form, inline / by file / on stdin;
    # afterwards BOTH signers' keys must verify (round 2), and with an HMAC key the output is the library's, bit for bit
    if "hs" in env.T:
        for form in ("flat", "compact"):
            for via in ("inline", "file", "stdin"):
                for keys in (["hs256b"], ["ec"]):
                    specs.append(dict(keys=keys, sigs=None, pay="none", compact=0, detach=0, out="stdout", tmpl=dict(env.T["hs"]), tmpl_form=form, via=via,
                                      earlier_keys=["hs256"]))
    return [make_sig(env, s) for s in specs]


# ------------------------------------------------------------------ jose jwe enc (round 1) and the check of its product (round 2)

def make_enc(env, spec):
    K = env.K
    keys = [K[k] for k in spec["keys"]]
    files, args = {}, []
    tmpl = spec.get("tmpl")
    if tmpl is not None:
        a, f, _ = via_args("-i", dumps(tmpl), spec.get("via", "inline"), "tmpl.jwe")
        args += a
        files.update(f)
    pt = spec["pt"]
    if pt is not None:
        files["pt.bin"] = pt
        args += ["-I", ("F", "pt.bin")]
    rcps = spec.get("rcps") or []
    for i, rc in enumerate(rcps):
        files["r%d.json" % i] = dumps(rc).encode()
        args += ["-r", ("F", "r%d.json" % i)]
    for i, k in enumerate(keys):
        files["k%d.jwk" % i] = dumps(k).encode()
        args += ["-k", ("F", "k%d.jwk" % i)]
    if spec["compact"]:
        args.append("-c")
    if spec["out"] == "file":
        args += ["-o", ("O", "out.jwe")]
    if spec["detach"]:
        args += ["-O", ("O", "ct.out")]
    usage = not keys or (spec["compact"] and len(keys) > 1) or pt is None or len(rcps) > len(keys)
    lib = []
    if len(keys) == 1 and not usage:
        lib = ["jweenc\t%s\t%s\t%s\t%s" % (dumps(tmpl or {}), dumps(rcps[0]) if rcps else "-", dumps(keys[0]), hx(pt))]
    elif len(keys) > 1 and not usage:
        # several -k: every key gets its own recipient template, the -r ones in order, then fresh empty objects
        lib = ["jweenc\t%s\t%s\t%s\t%s" % (dumps(tmpl or {}), dumps(list(rcps) + [{} for _ in range(len(keys) - len(rcps))]), dumps(keys), hx(pt))]
    sp = dict(spec, usage=usage, keyvals=keys)
    return Case("jwe enc", ["jwe", "enc"], args, files, None, sp, lib, None)


def enc_opts(sp):
    o = []
    t = sp.get("tmpl") or {}
    if "zip" in (t.get("protected") or {}):
        o.append("zip")
    if sp["compact"]:
        o.append("-c")
    if sp["detach"]:
        o.append("-O")
    if len(sp["keys"]) > 1:
        o.append("multi-k")
    if sp.get("rcps"):
        o.append("-r")
    return "+".join(o) or "plain"


def oracle_enc(c):
    r, sp = c.res, c.spec
    if r["crash"]:
        return ("jwe enc:crash:" + r["crash"][:60], "crash or sanitizer report: " + r["crash"])
    o = enc_opts(sp)
    product = r["files"].get("out.jwe", b"") if sp["out"] == "file" else r["out"]
    tok, dups, complete = token_of_output("jwe", product, sp["compact"])
    if sp["usage"]:
        if r["rc"] == 0:
            return ("jwe enc:%s:usage-accepted" % o, "an option combination that must be refused exits 0")
        if complete:
            return ("jwe enc:%s:product-on-failure" % o, "a complete token is printed although the command fails")
        return None
    if c.lib:
        lib = c.libres[0].split("\t")[0]
        if lib.startswith("CRASH"):
            return None
        libok = lib != "ERR"
        if r["rc"] == 0 and not libok:
            return ("jwe enc:%s:exit-0-library-refuses" % o, "`jose jwe enc` exits 0 although jose_jwe_enc() refuses (keys %s, template %s)" % (sp["keys"], dumps(sp.get("tmpl"))))
        if r["rc"] != 0 and libok:
            return ("jwe enc:%s:exit-%s-library-accepts" % (o, r["rc"]), "`jose jwe enc` fails (%s) although jose_jwe_enc() encrypts" % r["err"][-100:])
    if r["rc"] != 0:
        if complete:
            return ("jwe enc:%s:product-on-failure" % o, "a complete token is printed although the command fails")
        return None
    if not complete:
        return ("jwe enc:%s:no-token" % o, "status 0 but the output is not a complete token: %r" % product[:80])
    if dups:
        return ("jwe enc:%s:duplicate-member" % o, "the JSON text printed has the member %s twice" % dups)
    return None


def round2_enc(env, c):
    """every key given to `jwe enc` must decrypt what it printed, to the same plaintext"""
    r, sp = c.res, c.spec
    if r["rc"] != 0 or sp["usage"]:
        return []
    product = r["files"].get("out.jwe", b"") if sp["out"] == "file" else r["out"]
    tok, dups, complete = token_of_output("jwe", product, sp["compact"])
    if not complete:
        return []
    out = []
    priv = {"ecpub": "ec", "rsapub": "rsa"}
    for kn in sp["keys"]:
        k = env.K[priv.get(kn, kn)]
        files = {"tok.jwe": product, "k.jwk": dumps(k).encode()}
        args = ["-i", ("F", "tok.jwe")]
        eff = dict(tok)
        if sp["detach"]:
            files["ct.bin"] = r["files"].get("ct.out", b"")
            args += ["-I", ("F", "ct.bin")]
            eff["ciphertext"] = b64(files["ct.bin"])
        args += ["-k", ("F", "k.jwk")]
        lib = ["jwedec\t%s\t-\t%s" % (dumps(eff), dumps(k))]
        out.append(Case("jwe enc>dec", ["jwe", "dec"], args, files, None,
                        dict(origin=c, opts=enc_opts(sp), plain=sp["pt"]), lib, None))
    return out


def oracle_round2_enc(c):
    r, sp = c.res, c.spec
    o = sp["opts"]
    org = sp["origin"]
    if r["crash"]:
        return ("jwe enc>dec:crash:" + r["crash"][:60], "crash: " + r["crash"])
    lib = c.libres[0]
    n = len(sp["plain"])
    size = "1-byte" if n <= 1 else "multi-byte"
    if lib.startswith("CRASH TIMEOUT"):
        # the one-shot library call on a megabyte-sized token needs minutes under the sanitizers (byte-wise feeds and
        # one realloc per byte): no verdict from the library side; the binary's own verdict and output still count
        lib = "OK"
    if r["rc"] != 0 or not lib.startswith("OK"):
        return ("jwe enc:%s:%s-plaintext:token-rejected-by-dec" % (o, size),
                "the token printed by `jose %s` (plaintext of %d bytes) is rejected by `jose jwe dec` with the same key (status %s) / by jose_jwe_dec (%s)"
                % (" ".join(org.argv_display()), n, r["rc"], lib[:10]))
    if r["out"] != sp["plain"]:
        return ("jwe enc:%s:plaintext-changed" % o, "the produced token decrypts to something else")
    return None


def gen_enc(env, rnd, tier):
    specs = []
    sizes = [0, 1, 2, 15, 16, 17, 100, 4096]
    big = [65536] if tier == "quick" else [65536, 1048576]
    T = G.jwe_template
    combos = [(["a128"], T("A128KW", "A128GCM", False, None)), (["a128"], None), (["a256"], T("dir", "A128CBC-HS256", False, None)),
              (["ecpub"], T("ECDH-ES+A128KW", "A128GCM", False, None)), (["ecpub"], None), (["rsapub"], T("RSA-OAEP", "A256GCM", False, None)),
              (["pw"], None), (["a128"], T("A128GCMKW", "A128CBC-HS256", False, None, where="split")),
              (["a128", "ecpub"], {"protected": {"enc": "A128GCM"}}), (["a128", "a128b"], None),
              (["a128", "a128b", "a128"], {"protected": {"enc": "A128GCM"}}), (["ecpub", "a128", "rsapub"], None), (["a128", "pw", "a128b"], None),
              # header parameters split over protected / shared unprotected with the algorithm named explicitly (no
              # per-recipient header is then created): compact output must still carry everything decryption needs
              (["a128"], {"protected": {"alg": "A128KW"}, "unprotected": {"enc": "A128GCM"}}),
              (["a128"], {"unprotected": {"alg": "A128KW", "enc": "A128GCM"}}),
              (["a128"], {"protected": {"enc": "A128GCM"}, "unprotected": {"alg": "A128KW", "kid": "u"}}),
              (["rsapub"], {"protected": {"alg": "RSA-OAEP"}, "unprotected": {"enc": "A256GCM"}}),
              (["a256"], {"unprotected": {"alg": "dir", "enc": "A128CBC-HS256"}}),
              (["ecpub"], {"protected": {"alg": "ECDH-ES"}, "unprotected": {"enc": "A128GCM", "apu": "QQ"}})]
    for keys, tmpl in combos:
        for compact in (0, 1):
            for detach in (0, 1):
                for out in ("stdout", "file"):
                    n = rnd.choice(sizes)
                    specs.append(dict(keys=keys, tmpl=tmpl, pt=bytes(rnd.getrandbits(8) for _ in range(n)), compact=compact,
                                      detach=detach, out=out))
    # every plaintext size, with and without compression in the protected header
    for z in (False, True):
        for n in sizes + big:
            pt = bytes(rnd.getrandbits(8) for _ in range(n)) if n < 65536 else bytes(n)
            for compact in (0, 1):
                specs.append(dict(keys=["a128"], tmpl=T("A128KW", "A128GCM", z, None), pt=pt, compact=compact, detach=0, out="file"))
            specs.append(dict(keys=["a256"], tmpl=T("dir", "A256CBC-HS512" if False else "A128CBC-HS256", z, None), pt=pt, compact=0, detach=0, out="stdout"))
    # -r recipient templates
    specs.append(dict(keys=["a128"], tmpl={"protected": {"enc": "A128GCM"}}, rcps=[{"header": {"alg": "A128KW", "kid": "r"}}],
                      pt=b"recipient template", compact=0, detach=0, out="stdout"))
    specs.append(dict(keys=["a128", "ecpub"], tmpl=None, rcps=[{"header": {"kid": "one"}}], pt=b"two", compact=0, detach=0, out="stdout"))
    # refusals: key cannot be used with the algorithm asked for; key may not wrap
    for keys, tmpl in [(["a128"], T("RSA-OAEP", "A128GCM", False, None)), (["ecpub"], T("A128KW", "A128GCM", False, None)),
                       (["siguse"], None), (["a128"], {"protected": {"alg": "A128KW", "enc": "nope"}}),
                       (["a128"], {"protected": {"alg": "A128KW", "enc": "A128GCM", "zip": "nope"}}), (["nok"], None),
                       (["a256"], T("dir", "A128GCM", False, None)), (["hs256", "nok"], None)]:
        for compact in (0, 1):
            specs.append(dict(keys=keys, tmpl=tmpl, pt=b"refused", compact=compact, detach=0, out="stdout"))
    # refused by the option validation
    specs.append(dict(keys=["a128"], tmpl=None, pt=None, compact=0, detach=0, out="stdout"))
    specs.append(dict(keys=[], tmpl=None, pt=b"x", compact=0, detach=0, out="stdout"))
    specs.append(dict(keys=["a128"], tmpl=None, rcps=[{}, {}], pt=b"x", compact=0, detach=0, out="stdout"))
    return [make_enc(env, s) for s in specs]


# ------------------------------------------------------------------ jose jws fmt / jose jwe fmt

def flat_view(kind, o):
    """flatten a general object with exactly one entry; otherwise as is"""
    if not isinstance(o, dict):
        return o
    pl = "signatures" if kind == "jws" else "recipients"
    l = o.get(pl)
    if isinstance(l, list) and len(l) == 1 and isinstance(l[0], dict):
        r = {k: v for k, v in o.items() if k != pl}
        r.update(l[0])
        return r
    return o


def make_fmt(env, spec):
    kind, tn, form, via = spec["kind"], spec["tn"], spec["form"], spec["via"]
    tok = (env.T if kind == "jws" else env.E)[tn]
    pl = "signatures" if kind == "jws" else "recipients"
    body = "payload" if kind == "jws" else "ciphertext"
    multi = pl in tok
    forms = {"general": dumps(tok)} if multi else (jws_forms(tok) if kind == "jws" else jwe_forms(tok))
    if form not in forms:
        form = "general" if multi else "flat"
    text = forms[form]
    eff = json.loads(forms["general" if multi else "flat"])
    files, args = {}, []
    if spec["detached"]:
        raw = unb64(eff[body])
        if form == "compact":
            p = text.split(".")
            p[1 if kind == "jws" else 3] = ""
            text = ".".join(p)
        else:
            o = json.loads(text)
            o.pop(body, None)
            text = dumps(o)
        files["body.bin"] = raw
    a, f, stdin = via_args("-i", text, via, "in.tok")
    args += a
    files.update(f)
    if spec["detached"]:
        args += ["-I", ("F", "body.bin")]
    if spec["compact"]:
        args.append("-c")
    if spec["out"] == "file":
        args += ["-o", ("O", "out.tok")]
    if spec["detach"]:
        args += ["-O", ("O", "body.out")]
    model = None
    if not spec["detached"] and not spec["detach"]:
        model = "c18fmt\t%s\t%d\t%s\t%s" % (kind, spec["compact"], hx(args_text(a, files).encode()),
                                            "N" if via == "inline" else hx(text.encode()))
    protected_only = "header" not in tok and "unprotected" not in tok and "aad" not in tok and not multi
    if multi and all("header" not in e for e in tok[pl]) and "unprotected" not in tok:
        protected_only = True
    sp = dict(spec, form=form, multi=multi, eff=eff, protected_only=protected_only)
    return Case(kind + " fmt", [kind, "fmt"], args, files, stdin, sp, [], model)


def fmt_opts(sp):
    o = []
    if sp["compact"]:
        o.append("-c")
    if sp["detached"]:
        o.append("-I")
    if sp["detach"]:
        o.append("-O")
    return "+".join(o) or "json"


def oracle_fmt(c):
    r, sp = c.res, c.spec
    kind = sp["kind"]
    g = kind + " fmt"
    body = "payload" if kind == "jws" else "ciphertext"
    if r["crash"]:
        return (g + ":crash:" + r["crash"][:60], "crash or sanitizer report: " + r["crash"])
    o = fmt_opts(sp)
    product = r["files"].get("out.tok", b"") if sp["out"] == "file" else r["out"]
    tok, dups, complete = token_of_output(kind, product, sp["compact"])
    if sp["multi"] and sp["compact"]:
        if r["rc"] == 0:
            return ("%s:-c:multi-%s:exit-0" % (g, "signature" if kind == "jws" else "recipient"),
                    "asked for the compact form of an object with two %s: status 0, printed %r -- the other one is silently dropped"
                    % ("signatures" if kind == "jws" else "recipients", product[:60]))
        if complete:
            return ("%s:-c:multi:product-on-failure" % g, "a complete compact token is printed although the command fails")
        return None
    if sp["compact"] and not sp["protected_only"]:
        # unprotected header parameters cannot be carried by the compact form: either outcome is accepted
        return None
    if r["rc"] != 0:
        return ("%s:%s:exit-%s" % (g, o, r["rc"]), "conversion of a well-formed %s (%s, %s) fails: %s" % (kind.upper(), sp["form"], sp["via"], r["err"][-100:]))
    if not complete:
        return ("%s:%s:no-token" % (g, o), "status 0 but the output is not a complete token: %r" % product[:80])
    if dups:
        return ("%s:%s:duplicate-member" % (g, "json" + ("+-I" if sp["detached"] else "") + ("+-O" if sp["detach"] else "")),
                "the JSON text printed has the member %s twice (once streamed, once from the input object)" % dups)
    got = dict(tok)
    if sp["detach"]:
        raw = r["files"].get("body.out")
        if raw is None:
            return ("%s:%s:no-detached-file" % (g, o), "-O file not written")
        if got.get(body):
            return ("%s:%s:detached-but-still-embedded" % (g, o), "-O was given but the JSON still carries the %s member" % body)
        got[body] = b64(raw)
    want = sp["eff"]
    if sp["compact"]:
        want = flat_view(kind, want)
        names = ["protected", "payload", "signature"] if kind == "jws" else ["protected", "encrypted_key", "iv", "ciphertext", "tag"]
        want = {k: want.get(k, "") for k in names}
    if flat_view(kind, got) != flat_view(kind, want):
        return ("%s:%s:members-changed" % (g, o), "the converted token does not have the members of the input")
    return None


def round2_fmt(env, c):
    """the converted token must still verify / decrypt"""
    r, sp = c.res, c.spec
    if r["rc"] != 0 or (sp["compact"] and (sp["multi"] or not sp["protected_only"])):
        return None
    kind = sp["kind"]
    product = r["files"].get("out.tok", b"") if sp["out"] == "file" else r["out"]
    tok, dups, complete = token_of_output(kind, product, sp["compact"])
    if not complete:
        return None
    files = {"tok": product}
    args = ["-i", ("F", "tok")]
    body = "payload" if kind == "jws" else "ciphertext"
    eff = dict(tok)
    if sp["detach"]:
        files["body.bin"] = r["files"].get("body.out", b"")
        args += ["-I", ("F", "body.bin")]
        eff[body] = b64(files["body.bin"])
    if kind == "jws":
        k = pubonly(env.K["hs256" if sp["tn"] == "two" else env.tok_key[sp["tn"]]])
        want = env.tok_pay[sp["tn"]] if sp["tn"] in env.tok_pay else env.payload
        lib = ["jwsver\t%s\t-\t%s\t0" % (dumps(eff), dumps(k))]
        args += ["-O", "-"]
    else:
        k = env.K[env.jwe_key[sp["tn"]]]
        want = env.jwe_pt[sp["tn"]]
        lib = ["jwedec\t%s\t-\t%s" % (dumps(eff), dumps(k))]
    files["k.jwk"] = dumps(k).encode()
    args += ["-k", ("F", "k.jwk")]
    return Case(kind + " fmt>check", [kind, "ver" if kind == "jws" else "dec"], args, files, None,
                dict(origin=c, opts=fmt_opts(sp), want=want, kind=kind), lib, None)


def oracle_round2_fmt(c):
    r, sp = c.res, c.spec
    org = sp["origin"]
    g = sp["kind"] + " fmt"
    if r["crash"]:
        return (g + ">check:crash:" + r["crash"][:60], "crash: " + r["crash"])
    lib = c.libres[0]
    libok = lib == "T" or lib.startswith("OK")
    if r["rc"] != 0 or not libok:
        return ("%s:%s:converted-token-rejected" % (g, sp["opts"]),
                "the output of `jose %s` no longer verifies/decrypts (binary status %s, library %s)" % (" ".join(org.argv_display())[:200], r["rc"], lib[:10]))
    if r["out"] != sp["want"]:
        return ("%s:%s:content-changed" % (g, sp["opts"]), "the converted token yields another payload/plaintext")
    return None


def gen_fmt(env, rnd, tier):
    specs = []
    forms = ["compact", "flat", "general"]
    for kind, toks in (("jws", ["hs", "es", "hdr", "empty", "two"]), ("jwe", ["kw", "dir", "ec", "split", "zip", "two", "twop"])):
        have = env.T if kind == "jws" else env.E
        for tn in toks:
            if tn not in have:
                continue
            for form in forms:
                for via in ("inline", "file", "stdin"):
                    for compact in (0, 1):
                        specs.append(dict(kind=kind, tn=tn, form=form, via=via, compact=compact, out="stdout", detach=0, detached=0))
            for form in forms:
                for compact in (0, 1):
                    for detach in (0, 1):
                        for detached in (0, 1):
                            if detach or detached:
                                specs.append(dict(kind=kind, tn=tn, form=form, via="file", compact=compact,
                                                  out=rnd.choice(["stdout", "file"]), detach=detach, detached=detached))
    seen, out = set(), []
    for s in specs:
        c = make_fmt(env, s)
        k = dumps({k: v for k, v in c.spec.items() if k not in ("eff",)})
        if k not in seen:
            seen.add(k)
            out.append(c)
    return out


# ------------------------------------------------------------------ jose jwk thp / pub / use / eql / exc / gen

HASHES = {"S1": 20, "S224": 28, "S256": 32, "S384": 48, "S512": 64}


def keyfile_args(opt, vals, files, prefix):
    args = []
    for i, v in enumerate(vals):
        n = "%s%d.jwk" % (prefix, i)
        files[n] = dumps(v).encode()
        args += [opt, ("F", n)]
    return args


def thp_inputs(env):
    K = env.K
    good = [K["hs256"], K["ec"], K["ecpub"], K["rsapub"], dict(K["a128"], kid="x", use="enc")]
    bad = [K["nok"], {"kty": "EC", "crv": "P-256"}, {"kty": "RSA", "e": "AQAB"}, {"kty": "nope", "k": "AA"}, {"k": "AA"}, "a password",
           {"kty": "EC", "crv": "P-256", "x": K["ec"]["x"]}]
    return good, bad


def make_thp(env, spec):
    files = {}
    vals = spec["files"]
    args = keyfile_args("-i", vals, files, "k")
    if spec["hash"]:
        args += ["-a", spec["hash"]]
    if spec.get("find") is not None:
        args += ["-f", spec["find"]]
    if spec["out"] == "file":
        args += ["-o", ("O", "thp.out")]
    keys = jwks_extend(vals)
    h = spec["hash"] or "S256"
    lib = []
    if keys:
        # without -f: the thumbprint under the hash asked for; with -f: under every registered hash
        hs = list(HASHES) if spec.get("find") is not None else [h]
        for k in keys:
            for hh in hs:
                lib.append("thp\t%s\t%s" % (dumps(k), hh))
    model = None
    if keys and h in HASHES:
        model = "c18thp\t%s\t%s\t%s" % (dumps(keys), h, spec["find"] if spec.get("find") is not None else "-")
    return Case("jwk thp", ["jwk", "thp"], args, files, None, dict(spec, keys=keys, h=h), lib, model)


def oracle_thp(c):
    r, sp = c.res, c.spec
    if r["crash"]:
        return ("jwk thp:crash:" + r["crash"][:60], "crash or sanitizer report: " + r["crash"])
    keys = sp["keys"]
    got = r["files"].get("thp.out", b"") if sp["out"] == "file" else r["out"]
    if not keys or sp["h"] not in HASHES:
        if r["rc"] == 0:
            return ("jwk thp:usage-accepted", "unusable input accepted")
        return None
    n = len(keys)
    res = [json.loads(x) if x != "ERR" else None for x in c.libres]
    if sp.get("find") is None:
        thps = res[:n]
        refusing = [i for i, t in enumerate(thps) if t is None]
        if refusing:
            if r["rc"] == 0:
                return ("jwk thp:refused-key:exit-0-garbage-thumbprint",
                        "jose_jwk_thp() refuses key #%d (%s) but `jose jwk thp` exits 0 and prints %r for it"
                        % (refusing[0], dumps(keys[refusing[0]])[:60], got[:90]))
            want_prefix = "".join(t + "\n" for t in thps[:refusing[0]]).encode()
            if got != want_prefix:
                return ("jwk thp:refused-key:output", "output for a refused key: %r" % got[:80])
            return None
        if r["rc"] != 0:
            return ("jwk thp:exit-%s-library-accepts" % r["rc"], "fails although every key has a thumbprint")
        want = ("\n".join(thps) + "\n" if n > 1 else thps[0]).encode()
        if got != want:
            return ("jwk thp:output-differs", "thumbprints printed differ from jose_jwk_thp(): %r vs %r" % (got[:60], want[:60]))
        return None
    # -f: the key whose thumbprint under ANY registered hash is the one given
    nh = len(HASHES)
    per_key = [res[i * nh:(i + 1) * nh] for i in range(n)]
    find = sp["find"]
    hit = None
    for i, ts in enumerate(per_key):
        if any(t is None for t in ts):
            # a key without thumbprint stops the search with a failure
            if r["rc"] == 0:
                return ("jwk thp:-f:refused-key:exit-0", "status 0 although a key before any match has no thumbprint")
            return None
        if find in ts:
            hit = i
            break
    if hit is not None:
        if r["rc"] != 0:
            return ("jwk thp:-f:exit-%s-key-present" % r["rc"],
                    "the key with the given thumbprint (hash %s) is in the input but the search fails" % list(HASHES)[per_key[hit].index(find)])
        try:
            if json.loads(got) != keys[hit]:
                return ("jwk thp:-f:wrong-key", "another key is printed")
        except ValueError:
            return ("jwk thp:-f:output", "output is not the key")
        return None
    if r["rc"] == 0:
        return ("jwk thp:-f:exit-0-no-match", "status 0 although no key has the thumbprint")
    if got:
        return ("jwk thp:-f:product-on-failure", "output although no key matches")
    return None


def gen_thp(env, rnd, tier):
    good, bad = thp_inputs(env)
    specs = []
    for k in good + bad:
        for h in (None, "S1", "S512"):
            specs.append(dict(files=[k], hash=h, out=rnd.choice(["stdout", "file"])))
    for h in HASHES:
        specs.append(dict(files=[good[1]], hash=h, out="stdout"))
        specs.append(dict(files=[{"keys": good[:3]}], hash=h, out="stdout"))
    for b in bad:
        specs.append(dict(files=[{"keys": [good[0], b, good[1]]}], hash=None, out="stdout"))
        specs.append(dict(files=[good[0], b], hash="S1", out="file"))
    specs.append(dict(files=[{"keys": []}], hash=None, out="stdout"))
    specs.append(dict(files=[good[0]], hash="S999", out="stdout"))
    # -f
    ths = env.h(["thp\t%s\t%s" % (dumps(k), h) for k in good[:3] for h in ("S256", "S1")])
    t = {}
    i = 0
    for ki in range(3):
        for h in ("S256", "S1"):
            t[(ki, h)] = json.loads(ths[i]) if ths[i] != "ERR" else None
            i += 1
    for ki in range(3):
        if t[(ki, "S256")] is None:
            continue
        specs.append(dict(files=[{"keys": good[:3]}], hash=None, find=t[(ki, "S256")], out="stdout"))
        specs.append(dict(files=[{"keys": good[:3]}], hash="S1", find=t[(ki, "S1")], out="file"))
        specs.append(dict(files=[{"keys": good[:3]}], hash=None, find=t[(ki, "S1")], find_hash="S1", out="stdout"))
        specs.append(dict(files=[good[ki]], hash=None, find=t[(ki, "S256")], out="stdout"))
    specs.append(dict(files=[{"keys": good[:3]}], hash=None, find="A" * 43, out="stdout"))
    specs.append(dict(files=[{"keys": good[:3]}], hash=None, find="short", out="stdout"))
    return [make_thp(env, s) for s in specs]


# pub / use / eql / exc / gen share one generator; spec["sub"] names the subcommand

def make_jwk(env, spec):
    sub = spec["sub"]
    files, args, lib, model = {}, [], [], None
    if sub == "pub":
        args = keyfile_args("-i", spec["files"], files, "k")
        keys = jwks_extend(spec["files"])
        if spec["set"]:
            args.append("-s")
        if spec["out"] == "file":
            args += ["-o", ("O", "out.jwk")]
        lib = ["pub\t%s" % dumps(k) for k in (keys or [])]
        if keys:
            model = "c18pub\t%s\t%d" % (dumps(keys), spec["set"])
        sp = dict(spec, keys=keys)
    elif sub == "use":
        args = keyfile_args("-i", spec["files"], files, "k")
        keys = jwks_extend(spec["files"])
        for u in spec["uses"]:
            args += ["-u", u]
        if spec["all"]:
            args.append("-a")
        if spec["req"]:
            args.append("-r")
        if spec["out"] == "file":
            args += ["-o", ("O", "out.jwk")]
        elif spec["out"] == "-":
            args += ["-o", "-"]
        if spec["set"]:
            args.append("-s")
        lib = ["prm\t%s\t%d\t%s" % (dumps(k), spec["req"], u) for k in (keys or []) for u in spec["uses"]]
        if keys and spec["uses"]:
            model = "c18use\t%s\t%s\t%d\t%d\t%d\t%d" % (dumps(keys), dumps(spec["uses"]), spec["all"], spec["req"],
                                                    spec["out"] != "none", spec["set"])
        sp = dict(spec, keys=keys)
    elif sub == "eql":
        args = keyfile_args("-i", spec["files"], files, "k")
        keys = jwks_extend(spec["files"])
        lib = ["eql\t%s\t%s" % (dumps(a), dumps(b)) for a, b in zip(keys or [], (keys or [])[1:])]
        if keys and len(keys) >= 1:
            model = "c18eql\t%s" % dumps(keys)
        sp = dict(spec, keys=keys)
    elif sub == "exc":
        if spec.get("tmpl") is not None:
            args += ["-i", dumps(spec["tmpl"])]
        args += keyfile_args("-l", spec["lcl"], files, "l")
        args += keyfile_args("-r", spec["rem"], files, "r")
        if spec["out"] == "file":
            args += ["-o", ("O", "out.jwk")]
        if len(spec["lcl"]) == 1 and len(spec["rem"]) == 1:
            lib = ["exc\t%s\t%s" % (dumps(spec["lcl"][0]), dumps(spec["rem"][0]))]
        sp = dict(spec)
    else:  # gen
        for t in spec["tmpls"]:
            args += ["-i", dumps(t) if not spec.get("byfile") else ("F", "t%d.json" % len(files))]
            if spec.get("byfile"):
                files["t%d.json" % len(files)] = dumps(t).encode()
        if spec["set"]:
            args.append("-s")
        if spec["out"] == "file":
            args += ["-o", ("O", "out.jwk")]
        lib = ["gen\t%s" % dumps(t) for t in spec["tmpls"]]
        sp = dict(spec)
    return Case("jwk " + sub, ["jwk", sub], args, files, None, sp, lib, model)


def jwk_product(c):
    sp, r = c.spec, c.res
    return r["files"].get("out.jwk", b"") if sp.get("out") == "file" else r["out"]


def expect_set(keys, set_):
    return keys[0] if (len(keys) == 1 and not set_) else {"keys": keys}


def oracle_jwk(c):
    r, sp = c.res, c.spec
    sub = sp["sub"]
    g = "jwk " + sub
    if r["crash"]:
        return (g + ":crash:" + r["crash"][:60], "crash or sanitizer report: " + r["crash"])
    got = jwk_product(c)
    if any(x.startswith("CRASH") for x in c.libres):
        return None

    def parsed():
        try:
            return json.loads(got)
        except ValueError:
            return None
    if sub == "pub":
        keys = sp["keys"]
        if not keys:
            return (g + ":usage-accepted", "no usable input but status 0") if r["rc"] == 0 else None
        res = [json.loads(x) if x != "ERR" else None for x in c.libres]
        if any(x is None for x in res):
            if r["rc"] == 0:
                return (g + ":exit-0-library-refuses", "jose_jwk_pub() refuses a key but the command exits 0")
            if got:
                return (g + ":product-on-failure", "output although the library refused: %r" % got[:60])
            return None
        if r["rc"] != 0:
            return (g + ":exit-%s-library-accepts" % r["rc"], "fails although jose_jwk_pub() succeeds on every key")
        if parsed() != expect_set(res, sp["set"]):
            return (g + ":output-differs", "output is not the library's result")
        return None
    if sub == "use":
        keys, uses = sp["keys"], sp["uses"]
        if not keys or not uses:
            return (g + ":usage-accepted", "status 0 without keys or uses") if r["rc"] == 0 else None
        it = iter(c.libres)
        status = []
        for k in keys:
            v = [next(it) == "T" for _ in uses]
            status.append(all(v) if sp["all"] else any(v))
        o = "+".join(x for x, f in (("-a", sp["all"]), ("-r", sp["req"]), ("-o", sp["out"] != "none")) if f) or "plain"
        if sp["out"] == "none":
            want_ok = all(status)
            if (r["rc"] == 0) != want_ok:
                return ("%s:%s:exit-%s-library-says-%s" % (g, o, r["rc"], want_ok), "exit status does not follow jose_jwk_prm()")
            if got:
                return ("%s:%s:unexpected-output" % (g, o), "output without -o")
            return None
        allowed = [k for k, s in zip(keys, status) if s]
        if (r["rc"] == 0) != bool(allowed):
            return ("%s:%s:exit-%s-allowed-%d" % (g, o, r["rc"], len(allowed)), "exit status does not follow jose_jwk_prm()")
        if allowed and parsed() != expect_set(allowed, sp["set"]):
            return ("%s:%s:output-differs" % (g, o), "the filtered output is not the set of allowed keys")
        if not allowed and got:
            return ("%s:%s:product-on-failure" % (g, o), "output although no key is allowed")
        return None
    if sub == "eql":
        keys = sp["keys"]
        if not keys or len(keys) < 2:
            return (g + ":usage-accepted", "status 0 with fewer than two keys") if r["rc"] == 0 else None
        want_ok = all(x == "T" for x in c.libres)
        if (r["rc"] == 0) != want_ok:
            return ("%s:exit-%s-library-says-%s" % (g, r["rc"], want_ok), "exit status does not follow jose_jwk_eql()")
        return None
    if sub == "exc":
        if not c.lib:
            return (g + ":usage-accepted", "status 0 without exactly one local and one remote key") if r["rc"] == 0 else None
        lib = c.libres[0].replace("MUTATED ", "")
        if lib == "ERR":
            if r["rc"] == 0:
                return (g + ":exit-0-library-refuses", "jose_jwk_exc() refuses but the command exits 0")
            if got:
                return (g + ":product-on-failure", "output although the library refused")
            return None
        tmpl = sp.get("tmpl")
        if tmpl is not None and not isinstance(tmpl, dict):
            return (g + ":template-not-object", "status 0 with a non-object template") if r["rc"] == 0 else None
        if r["rc"] != 0:
            return (g + ":exit-%s-library-accepts" % r["rc"], "fails although jose_jwk_exc() succeeds")
        want = dict(tmpl or {})
        want.update(json.loads(lib))
        if parsed() != want:
            return (g + ":output-differs", "output is not template + library result")
        return None
    # gen: keys are random -> checked, not compared
    res = c.libres
    tm = sp["tmpls"]
    usable = [t for t in tm if isinstance(t, (dict, str))]
    if len(usable) != len(tm) or not tm:
        return (g + ":usage-accepted", "status 0 with an unusable template") if r["rc"] == 0 else None
    libok = all(x != "ERR" for x in res)
    if r["rc"] == 0 and not libok:
        return (g + ":exit-0-library-refuses", "jose_jwk_gen() refuses a template but the command exits 0")
    if r["rc"] != 0 and libok:
        return (g + ":exit-%s-library-accepts" % r["rc"], "fails although jose_jwk_gen() succeeds on every template")
    if r["rc"] != 0:
        if got:
            return (g + ":product-on-failure", "output although the library refused: %r" % got[:60])
        return None
    p = parsed()
    ks = p.get("keys") if isinstance(p, dict) and (len(tm) > 1 or sp["set"]) else [p]
    if not isinstance(ks, list) or len(ks) != len(tm):
        return (g + ":output-shape", "wrong number of keys in the output")
    for t, k, l in zip(tm, ks, res):
        lk = json.loads(l)
        if not isinstance(k, dict) or set(k) != set(lk) or k.get("kty") != lk.get("kty") or k.get("alg") != lk.get("alg") \
                or k.get("key_ops") != lk.get("key_ops") or k.get("crv") != lk.get("crv"):
            return (g + ":output-differs", "the generated key does not have the shape of the library's: %s vs %s" % (sorted(k) if isinstance(k, dict) else k, sorted(lk)))
        for m in ("k", "d", "x", "n"):
            if m in lk and len(k[m]) != len(lk[m]):
                return (g + ":key-size", "member %s has another size than the library's" % m)
    return None


def gen_jwk(env, rnd, tier):
    K = env.K
    specs = []
    good = [K["hs256"], K["ec"], K["rsa"], K["ecpub"], dict(K["ec"], key_ops=["sign", "verify"]), dict(K["a128"], use="enc", alg="A128KW")]
    bad = [{"kty": "nope"}, {"k": "x"}, "password", {"kty": 5}]
    # pub
    for k in good + bad:
        for set_ in (0, 1):
            specs.append(dict(sub="pub", files=[k], set=set_, out=rnd.choice(["stdout", "file"])))
    specs.append(dict(sub="pub", files=[{"keys": good[:3]}], set=0, out="stdout"))
    specs.append(dict(sub="pub", files=[good[0], good[1]], set=1, out="file"))
    for b in bad:
        specs.append(dict(sub="pub", files=[{"keys": [good[1], b]}], set=0, out="stdout"))
    specs.append(dict(sub="pub", files=[{"keys": []}], set=0, out="stdout"))
    # use
    ukeys = [K["hs256"], K["siguse"], K["encuse"], dict(K["ec"], key_ops=["sign"]), dict(K["ecpub"], key_ops=["verify", "deriveKey"]),
             dict(K["a128"], use="enc", key_ops=["sign"]), {"kty": "oct", "use": 5}]
    ops = ["sign", "verify", "encrypt", "decrypt", "wrapKey", "unwrapKey", "deriveKey", "deriveBits", "bogus"]
    for k in ukeys:
        for u in (["sign"], ["verify"], ["wrapKey"], ["sign", "verify"], ["encrypt", "bogus"], ["deriveKey"]):
            for all_ in (0, 1):
                for req in (0, 1):
                    specs.append(dict(sub="use", files=[k], uses=u, all=all_, req=req, out="none", set=0))
    for _ in range(60 if tier == "quick" else 600):
        specs.append(dict(sub="use", files=[{"keys": rnd.sample(ukeys, rnd.randint(1, 4))}], uses=rnd.sample(ops, rnd.randint(1, 3)),
                          all=rnd.randrange(2), req=rnd.randrange(2), out=rnd.choice(["none", "-", "file"]), set=rnd.randrange(2)))
    specs.append(dict(sub="use", files=[ukeys[0]], uses=[], all=0, req=0, out="none", set=0))
    # eql
    pairs = [(K["hs256"], K["hs256"]), (K["hs256"], K["hs256b"]), (K["ec"], K["ecpub"]), (K["ec"], K["ec2"]), (K["ec"], K["hs256"]),
             (K["rsa"], K["rsapub"]), (K["nok"], K["nok"]), (dict(K["a128"], kid="1"), dict(K["a128"], kid="2")), ({"kty": "nope"}, {"kty": "nope"})]
    for a, b in pairs:
        specs.append(dict(sub="eql", files=[a, b]))
        specs.append(dict(sub="eql", files=[{"keys": [a, b]}]))
        specs.append(dict(sub="eql", files=[a, a, b]))
        specs.append(dict(sub="eql", files=[a, b, b]))
    specs.append(dict(sub="eql", files=[K["ec"]]))
    # exc
    for l, rm in [(K["ec"], G.pub_of(K["ec2"])), (K["ec2"], K["ecpub"]), (K["ec"], G.pub_of(K["ec384"])), (K["ecpub"], G.pub_of(K["ec2"])),
                  (K["hs256"], K["hs256b"]), (K["ec"], K["rsapub"]), (dict(K["ec"], alg="ECDH"), dict(G.pub_of(K["ec2"]), alg="ECMR")),
                  (dict(K["ec"], key_ops=["sign"]), G.pub_of(K["ec2"]))]:
        for tmpl in (None, {"kid": "derived", "use": "enc"}):
            specs.append(dict(sub="exc", lcl=[l], rem=[rm], tmpl=tmpl, out=rnd.choice(["stdout", "file"])))
    specs.append(dict(sub="exc", lcl=[K["ec"], K["ec2"]], rem=[K["ecpub"]], tmpl=None, out="stdout"))
    specs.append(dict(sub="exc", lcl=[K["ec"]], rem=[], tmpl=None, out="stdout"))
    # gen
    gt = [{"alg": "HS256"}, {"alg": "ES256"}, {"alg": "A128KW"}, {"alg": "A256GCM"}, {"kty": "oct", "bytes": 16}, {"kty": "EC", "crv": "P-384"},
          {"alg": "ECDH-ES"}, {"alg": "HS512", "kid": "mine", "use": "sig"}]
    gb = [{"alg": "nope"}, {"kty": "oct"}, {"kty": "EC", "crv": "P-999"}, {"kty": "RSA", "bits": 16}, {}, {"kty": "oct", "bytes": 16, "k": "AA"}]
    for t in gt + gb:
        for set_ in (0, 1):
            specs.append(dict(sub="gen", tmpls=[t], set=set_, out=rnd.choice(["stdout", "file"]), byfile=rnd.randrange(2)))
    specs.append(dict(sub="gen", tmpls=[gt[0], gt[1]], set=0, out="stdout"))
    specs.append(dict(sub="gen", tmpls=[gt[0], gb[0]], set=0, out="stdout"))
    specs.append(dict(sub="gen", tmpls=[gb[1], gt[0]], set=1, out="file"))
    return [make_jwk(env, s) for s in specs]


# ------------------------------------------------------------------ jose b64 enc / dec

def make_b64(env, spec):
    files, args, stdin = {}, [], None
    data = spec["data"]
    opt = "-I" if spec["sub"] == "enc" else "-i"
    if spec["via"] == "file":
        files["in.bin"] = data
        args += [opt, ("F", "in.bin")]
    elif spec["via"] == "stdin":
        args += [opt, "-"]
        stdin = data
    if spec["out"] == "file":
        args += ["-o" if spec["sub"] == "enc" else "-O", ("O", "out.bin")]
    elif spec["out"] == "-":
        args += ["-o" if spec["sub"] == "enc" else "-O", "-"]
    lib = ["b64enc\t%s" % hx(data)] if spec["sub"] == "enc" else []
    model = None
    if spec["via"] != "none":
        model = "c18b64%s\t%s" % (spec["sub"], hx(data))
    return Case("b64 " + spec["sub"], ["b64", spec["sub"]], args, files, stdin, spec, lib, model)


def oracle_b64(c):
    r, sp = c.res, c.spec
    g = "b64 " + sp["sub"]
    if r["crash"]:
        return (g + ":crash:" + r["crash"][:60], "crash or sanitizer report: " + r["crash"])
    got = r["files"].get("out.bin", b"") if sp["out"] == "file" else r["out"]
    if sp["via"] == "none":
        return (g + ":usage-accepted", "status 0 without input") if r["rc"] == 0 else None
    data = sp["data"]
    if sp["sub"] == "enc":
        want = b64(data).encode()
        if r["rc"] != 0:
            return (g + ":exit-%s" % r["rc"], "encoding fails")
        if got != want or json.loads(c.libres[0]) != want.decode():
            return (g + ":output-differs", "output is not the base64url encoding")
        return None
    text = bytes(b for b in data if b not in b" \t\n\r\v\f")
    try:
        s = text.decode("ascii")
        valid = canon_b64(s)
    except UnicodeDecodeError:
        valid = False
    if valid:
        if r["rc"] != 0:
            return (g + ":exit-%s-valid-input" % r["rc"], "canonical base64url text is refused")
        if got != unb64(text.decode()):
            return (g + ":output-differs", "decoded output differs")
        return None
    if r["rc"] == 0:
        return (g + ":exit-0-invalid-input", "text that jose_b64_dec refuses (%r) is accepted" % text[:40])
    return None


def gen_b64(env, rnd, tier):
    specs = []
    for n in (0, 1, 2, 3, 4, 47, 48, 49, 63, 64, 65, 1000, 4097):
        d = bytes(rnd.getrandbits(8) for _ in range(n))
        for via in ("file", "stdin"):
            for out in ("none", "-", "file"):
                specs.append(dict(sub="enc", data=d, via=via, out=out))
        t = b64(d).encode()
        for via in ("file", "stdin"):
            specs.append(dict(sub="dec", data=t, via=via, out=rnd.choice(["none", "-", "file"])))
        specs.append(dict(sub="dec", data=t + b"\n", via="file", out="none"))
        if n:
            specs.append(dict(sub="dec", data=t[: len(t) // 2] + b" \r\n\t" + t[len(t) // 2:], via="stdin", out="file"))
            specs.append(dict(sub="dec", data=t + b"=", via="file", out="none"))
            specs.append(dict(sub="dec", data=t[:-1] + b"*", via="file", out="none"))
            specs.append(dict(sub="dec", data=b"+" + t[1:], via="stdin", out="-"))
            specs.append(dict(sub="dec", data=t + b"A", via="file", out="none"))
    for bad in (b"A", b"AB", b"AAB", b"QUJD.", b"\xff\xfe", b"QQ==", b"Q Q"):
        specs.append(dict(sub="dec", data=bad, via="file", out="none"))
    specs.append(dict(sub="enc", data=b"", via="none", out="none"))
    specs.append(dict(sub="dec", data=b"", via="none", out="none"))
    return [make_b64(env, s) for s in specs]


# ------------------------------------------------------------------ usage errors (kept apart: never a library refusal)

def gen_usage(env):
    K = env.K
    kf = {"k.jwk": dumps(K["hs256"]).encode()}
    tok = dumps(env.T["hs"]) if "hs" in env.T else "{}"
    raw = [
        (["jws", "ver"], ["-i", tok], {}),                                      # no key
        (["jws", "ver"], ["-k", ("F", "k.jwk")], kf),                            # no input
        (["jws", "ver"], ["-i", tok, "-k", ("F", "missing.jwk")], {}),           # unreadable key file
        (["jws", "ver"], ["-i", "not json, not compact", "-k", ("F", "k.jwk")], kf),
        (["jws", "ver"], ["-i", "[1,2]", "-k", ("F", "k.jwk")], kf),
        (["jws", "ver"], ["-i", tok, "-k", ("F", "k.jwk"), "-Z"], kf),           # unknown option
        (["jws", "ver"], ["-i", tok, "-k", dumps(K["hs256"])], {}),              # -k takes files only
        (["jws", "sig"], ["-I", ("F", "k.jwk")], kf),                            # no key
        (["jws", "sig"], ["-k", ("F", "k.jwk"), "-s", "not json"], kf),
        (["jwe", "dec"], ["-i", "{}"], {}),
        (["jwe", "dec"], ["-k", ("F", "k.jwk")], kf),
        (["jwe", "enc"], ["-k", ("F", "k.jwk")], kf),                            # no -I
        (["jwe", "enc"], ["-I", ("F", "k.jwk")], kf),                            # no key
        (["jwk", "thp"], [], {}),
        (["jwk", "thp"], ["-i", dumps(K["hs256"])], {}),                         # the manual says JSON is accepted; the code reads files only
        (["jwk", "thp"], ["-i", ("F", "k.jwk"), "-a", "nope"], kf),
        (["jwk", "pub"], [], {}),
        (["jwk", "pub"], ["-i", ("F", "missing.jwk")], {}),
        (["jwk", "use"], ["-i", ("F", "k.jwk")], kf),
        (["jwk", "eql"], ["-i", ("F", "k.jwk")], kf),
        (["jwk", "exc"], [], {}),
        (["jwk", "gen"], [], {}),
        (["jwk", "gen"], ["-i", "5"], {}),
        (["b64", "enc"], [], {}),
        (["b64", "dec"], ["-i", ("F", "missing")], {}),
        (["nonsense"], [], {}),
        ([], [], {}),
    ]
    return [Case("usage", cmd, args, files, None, {}, [], None) for cmd, args, files in raw]


def oracle_usage(c):
    r = c.res
    if r["crash"]:
        return ("usage:crash:" + " ".join(c.cmd) + ":" + r["crash"][:50], "crash on a usage error: " + r["crash"])
    if r["rc"] == 0:
        return ("usage:accepted:" + " ".join(c.argv_display())[:60], "a command line that must be refused exits 0")
    if r["out"]:
        return ("usage:stdout:" + " ".join(c.cmd), "a refused command line writes to standard output")
    return None


# ------------------------------------------------------------------ putting it together

ORACLES = {
    "jws ver": oracle_ver, "jwe dec": oracle_dec, "jws sig": oracle_sig, "jwe enc": oracle_enc,
    "jws fmt": oracle_fmt, "jwe fmt": oracle_fmt, "jwk thp": oracle_thp,
    "jwk pub": oracle_jwk, "jwk use": oracle_jwk, "jwk eql": oracle_jwk, "jwk exc": oracle_jwk, "jwk gen": oracle_jwk,
    "b64 enc": oracle_b64, "b64 dec": oracle_b64, "usage": oracle_usage,
    "jws sig>ver": oracle_round2_sig, "jwe enc>dec": oracle_round2_enc, "jws fmt>check": oracle_round2_fmt, "jwe fmt>check": oracle_round2_fmt,
}


def bin_line(c):
    """the binary's result in the model's vocabulary: '<status> <stdout hex>'"""
    r = c.res
    if r["crash"]:
        return "CRASH " + r["crash"]
    return "%s %s" % (r["rc"], hx(r["out"]))


def model_agrees(c):
    """compare the model's prediction with the binary.  -> (agree, what was compared)"""
    m, r = c.modres, c.res
    if m is None:
        return True, None
    if r["crash"]:
        return False, "crash"
    if m.startswith("MODEL-") or m.startswith("CRASH"):
        return False, "model failure"
    g = c.group
    line = c.model if isinstance(c.model, str) else c._mline
    cmd = line.split("\t")[0]
    if m == "USAGE":
        return r["rc"] != 0 and not r["out"], "usage"
    if cmd in ("c18verg", "c18decg", "c18eql"):
        return str(r["rc"]) == m, "exit status"
    st, out = m.split(" ")
    if str(r["rc"]) != st:
        return False, "exit status"
    if r["rc"] != 0:
        return True, "exit status"        # what a failing run had streamed is not part of the model
    sp = c.spec
    if sp.get("out") == "file":
        # the product went to a file: compare that
        name = {"jws ver": "pay.out", "jwe dec": "pt.out", "jws sig": "out.jws", "jwe enc": "out.jwe", "jws fmt": "out.tok",
                "jwe fmt": "out.tok", "jwk thp": "thp.out", "b64 enc": "out.bin", "b64 dec": "out.bin"}.get(g, "out.jwk")
        got = r["files"].get(name, b"")
    else:
        got = r["out"]
    return hx(got) == out, "exit status + output"


def shrink_spec(env, bin_, maker, oracle, spec, sig, simpl):
    """try simpler option combinations while the same kind of violation persists"""
    cur = dict(spec)
    for key, val in simpl:
        if cur.get(key) == val:
            continue
        cand = dict(cur)
        cand[key] = val
        try:
            c = maker(env, cand)
        except Exception:
            continue
        bin_.run_all([c])
        run_lib(env.bdir, [c])
        v = oracle(c)
        if v and v[0].split(":")[-1] == sig.split(":")[-1]:
            cur = {k: cand[k] for k in cand}
    c = maker(env, cur)
    bin_.run_all([c])
    run_lib(env.bdir, [c])
    return c, oracle(c)


SIMPL = {
    "jws ver": (make_ver, [("via", "inline"), ("form", "flat"), ("det", "none"), ("out", "-"), ("tn", "hs"), ("ks", "unusable"), ("all", 0), ("out", "none")]),
    "jwe dec": (make_dec, [("via", "inline"), ("form", "flat"), ("det", "none"), ("out", "none"), ("en", "kw"), ("ks", "right")]),
}


def correspond(ctx):
    rep = ctx["rep"]
    rnd = random.Random(ctx["seed"])
    tier = ctx["tier"]
    bdir = ctx["bdir"]
    env = Env(bdir, rnd)
    for r_, o in env.bad:
        rep.violation("setup:token-production", "the library could not produce an input token: %s -> %s" % (r_[:200], o), {"case": r_[:2000]})
    bin_ = Bin(bdir)
    try:
        cases = (gen_ver(env, rnd, tier) + gen_dec(env, rnd, tier) + gen_sig(env, rnd, tier) + gen_enc(env, rnd, tier)
                 + gen_fmt(env, rnd, tier) + gen_thp(env, rnd, tier) + gen_jwk(env, rnd, tier) + gen_b64(env, rnd, tier)
                 + gen_usage(env))
        bin_.run_all(cases)
        run_lib(bdir, cases)
        # round 2: what sig / enc / fmt printed goes back into ver / dec
        r2 = []
        for c in cases:
            if c.group == "jws sig":
                x = round2_sig(env, c)
                if x:
                    r2.append(x)
            elif c.group == "jwe enc":
                r2.extend(round2_enc(env, c))
            elif c.group in ("jws fmt", "jwe fmt"):
                x = round2_fmt(env, c)
                if x:
                    r2.append(x)
        bin_.run_all(r2)
        run_lib(bdir, r2)
        allc = cases + r2
        # the model
        for c in allc:
            if callable(c.model):
                c._mline = c.model(c.libres)
            else:
                c._mline = c.model
        saved = [c.model for c in allc]
        for c in allc:
            c.model = c._mline
        run_model(ctx.get("driver"), allc)
        groups = collections.Counter()
        outcomes = collections.Counter()
        compared = collections.Counter()
        nontrivial = set()
        dis, first = 0, []
        found = {}
        for c in allc:
            groups[c.group] += 1
            r = c.res
            outcomes["%s: %s" % (c.group, "crash" if r["crash"] else "exit 0" if r["rc"] == 0 else "exit != 0")] += 1
            if c.group != "usage" and not r.get("usage"):
                nontrivial.add((c.group, tuple(str(a) for a in c.args), c.stdin))
            v = ORACLES[c.group](c)
            if v and v[0] not in found:
                found[v[0]] = (v, c)
            if ctx.get("driver") and c.model:
                ok, what = model_agrees(c)
                compared[what or "-"] += 1
                if not ok:
                    dis += 1
                    if len(first) < 10:
                        first.append({"argv": " ".join(c.argv_display())[:400], "binary": bin_line(c)[:300], "model": (c.modres or "")[:300],
                                      "model_case": (c.model or "")[:300]})
        # one root cause shows under many option combinations: keep, per (subcommand, kind), the
        # combinations that are minimal under set inclusion
        def split_sig(sig):
            p = sig.split(":")
            if len(p) < 3:
                return None
            opts = frozenset(x for x in p[1].split("+") if x not in ("plain", "json"))
            return (p[0], tuple(p[2:])), opts
        keep = {}
        for sig in sorted(found, key=lambda s: (len(split_sig(s)[1]) if split_sig(s) else 0, s)):
            ss = split_sig(sig)
            if ss is None:
                keep[sig] = found[sig]
                continue
            key, opts = ss
            if any(split_sig(k) and split_sig(k)[0] == key and split_sig(k)[1] <= opts for k in keep):
                continue
            keep[sig] = found[sig]
        # report, after shrinking where a generator for simpler variants exists
        for sig, (v, c) in keep.items():
            cc, vv = c, v
            if c.group in SIMPL:
                mk, simpl = SIMPL[c.group]
                raw = {k: c.spec[k] for k in c.spec if k not in ("payload", "keys", "plain")}
                try:
                    c2, v2 = shrink_spec(env, bin_, mk, ORACLES[c.group], raw, sig, simpl)
                    if v2 and v2[0].split(":")[-1] == sig.split(":")[-1]:
                        cc, vv = c2, v2
                except Exception as e:        # shrinking is best effort
                    rep.notes.append("shrink failed for %s: %s" % (sig, e))
            org = cc.spec.get("origin")
            rep.violation(vv[0], vv[1], {
                "argv": ["jose"] + cc.argv_display(),
                "files": {n: (d.decode("latin1") if len(d) < 3000 else "<%d bytes>" % len(d)) for n, d in cc.files.items()},
                "stdin": cc.stdin.decode("latin1") if cc.stdin else None,
                "binary": {"exit": cc.res["rc"], "stdout": cc.res["out"][:600].decode("latin1"), "stderr": cc.res["err"][-200:]},
                "library": [(l[:300], o[:300]) for l, o in zip(cc.lib, cc.libres or [])],
                "model": cc.modres,
                "replay_cmd": "cd $(mktemp -d); export ASAN_OPTIONS=detect_leaks=0 PATH=/verif/_work/build-san:$PATH; " + cc.shell(),
                "produced_by": (["jose"] + org.argv_display()) if org else None,
                "produced_by_replay": org.shell() if org else None,
            })
        for c, m in zip(allc, saved):
            c.model = m
        samples = []
        for i in sorted(rnd.sample(range(len(allc)), min(6, len(allc)))):
            c = allc[i]
            samples.append({"argv": " ".join(c.argv_display())[:300], "binary": bin_line(c)[:200], "library": (c.libres or [None])[0],
                            "model": c.modres})
        return {
            "evaluations": len(allc),
            "distinct_nontrivial": len(nontrivial),
            "rule": "command lines of every jose subcommand (except alg, fmt) run on the built binary; the equivalent library call run through "
                    "the harness; exit status 0 <=> library success, output on success = library result (random products checked by "
                    "feeding them back to `jws ver` / `jwe dec`); the extracted glue model predicts exit status (+ output where deterministic) "
                    "and is compared; non-trivial = the command line passed option parsing (no usage error), counted distinct",
            "dist": {"groups": dict(groups), "outcomes": dict(outcomes), "model compared on": dict(compared),
                     "oracle signatures": sorted(found)},
            "samples": samples,
            "disagreements": dis,
            "first_disagreements": first,
            "exhaustive_subspaces": [
                "jws ver: {-a} x {-O none,-,file} x {-I none,same} x 10 key sets x 3 serializations (HS256 token, input by file)",
                "jwe dec: {-O none,-,file} x {-I none,same,other} x 8 key sets x 3 serializations (A128KW/A128GCM token, input by file)",
                "jws fmt / jwe fmt: every token x 3 serializations x {inline,file,stdin} x {-c, JSON}",
            ],
            "exhaustive": False,
            "refuted": [],
        }
    finally:
        bin_.close()
