"""C20 a failed memory allocation makes the operation fail, never lie or crash.

Implementation side = FAULT ENUMERATION on the `hook` build variant: harness command
`fail <scenario> <k>` (harness/h_alloc.c) runs one public-operation scenario in a forked child with
the k-th allocation (library code through harness/allochook.h + jansson through
json_set_alloc_funcs) returning NULL.  For every scenario the number N of allocations of the
fault-free run is asked first (k = -1), then EVERY k in 0..N-1 is enumerated.

Oracle (independent of the model): a run that reports success must carry a fully correct product:
 * checked inside the harness with FAULT-FREE calls after the faulted call returned (produced JWS
   verifies, produced JWE decrypts to the plaintext, exported / exchanged / unwrapped key equals the
   fault-free one, a forged token is never accepted), field `check=`;
 * checked here without the library: HS256 signatures with python hmac, thumbprints with hashlib
   (RFC 7638), base64url with python base64, exported keys carry no private member;
 * the canonical product (random material replaced by its length) equals the fault-free product;
and in every run: no crash / sanitizer report, no counted block still allocated after everything
was released (`live=`, decided with __sanitizer_get_ownership), LeakSanitizer silent (`lsan=`),
const inputs unchanged and reference counts of caller objects unchanged (`rel=`).
Leaks that the FAULT-FREE run of the same scenario shows already (same allocation site) belong to
C09 and are not reported here."""
import base64
import collections
import hashlib
import hmac
import json
import os
import re
import subprocess

import runner
import vlib

PID = "C20"
PROP_FILE = "Props/Properties_C20.v"
VARIANT = "hook"
LEVEL = "fault_enumeration"
ASSUMPTIONS = [
    "C20: the Coq theorems are about the IO-chain model (Io/Chain.v + Fault/Alloc.v): every chain of malloc/buffer sinks, "
    "stages with a genuine boolean verdict and any/all multiplexers; the glue code of jws.c/jwe.c/jwk.c and the algorithm "
    "back ends are covered by the fault enumeration only",
    "C20: a single allocation fails per run (the theorems also cover any set of failing allocations); the failing request "
    "returns NULL and has no other effect (realloc leaves the old block intact)",
    "C20: allocations made inside OpenSSL and zlib are out of scope (not redirected); jansson's are redirected with "
    "json_set_alloc_funcs, the library's own with harness/allochook.h at compile time",
    "C20: 'fully correct product' for randomised operations (ECDSA/RSA-PSS signatures, JWE with random CEK/IV, generated "
    "keys) means: accepted by the fault-free inverse operation and equal to the fault-free product after replacing random "
    "material by its length",
    "C20: leak detection = counted blocks still owned by the sanitizer allocator after release + LeakSanitizer in the child "
    "process; LeakSanitizer is conservative (a stale pointer on the stack hides a leak), the block table is exact for "
    "counted blocks only",
]

ENV = {"ASAN_OPTIONS": "detect_leaks=1:abort_on_error=0:exitcode=97:allocator_may_return_null=1"}
NOSCOPE = ()

CHAINS_QUICK = [
    ("b64enc(malloc)", None, None),
    ("hash:S256(buffer:32)", None, None),
    ("hash:S256(b64enc(malloc))", None, None),
    ("plexany(b64enc(malloc),hash:S256(buffer:32))", None, None),
    ("plexall(b64enc(malloc),hash:S256(buffer:32))", None, None),
    ("plexany(malloc,malloc)", None, None),
    ("plexall(malloc,b64enc(malloc),malloc)", None, None),
    ("b64enc(b64dec(plexany(malloc,b64enc(malloc))))", None, None),
    ("plexany(plexall(malloc,malloc),b64enc(plexany(malloc,hash:S1(malloc))))", None, None),
    ("b64enc(buffer:100)", None, None),           # fault-free failure (too small): must stay a failure
    ("plexany(b64enc(buffer:100),malloc)", None, None),
    ("b64enc(malloc)", "0,5,0,43,48,49,0", "%s" % bytes(range(145)).hex()),
    ("plexall(malloc,malloc)", "1,0,2", "0a0b0c"),
    ("malloc", "-", "-"),
]

SPEC = "spec\tverdict in {ok with the fault-free product, fail}; no crash; leaks 0; caller objects intact"


def b64u(b):
    return base64.urlsafe_b64encode(b).rstrip(b"=").decode()


def unb64u(s):
    return base64.urlsafe_b64decode(s + "=" * (-len(s) % 4))


class Ctx20:
    """what the oracle needs: fault-free results, keys, a symbolizer"""

    def __init__(self, h):
        self.h = h
        self.base = {}      # scenario id -> parsed fault-free line
        self.keys = None
        self.pt = None
        self.symcache = {}

    def sym(self, off):
        """offset in the harness binary -> function name (file:line)"""
        if off in ("0", "", None):
            return "?"
        if off not in self.symcache:
            try:
                r = subprocess.run(["llvm-symbolizer", "--obj=" + self.h, "-f", "-C", "0x" + off], stdout=subprocess.PIPE,
                                   stderr=subprocess.DEVNULL, text=True, timeout=30)
                ls = r.stdout.strip().split("\n")
                fn = ls[0].strip() if ls and ls[0].strip() else "?"
                loc = ls[1].strip() if len(ls) > 1 else ""
                if "/harness/" in loc:
                    # the library function was called by the scenario itself: harness function names are not part of a signature
                    fn, loc = "caller", "harness/" + loc.split("/harness/")[1]
                loc = re.sub(r"^.*?/(lib/)", r"\1", loc)
                loc = re.sub(r":\d+$", "", loc)
                self.symcache[off] = (fn, loc)
            except Exception:
                self.symcache[off] = ("?", "")
        return self.symcache[off]

    def fn2(self, site):
        """'kind@off1/off2' or 'off1/off2' -> 'fn1<-fn2' (+ locations)"""
        site = site.split("@")[-1]
        a, _, b = site.partition("/")
        fa, la = self.sym(a) if a else ("?", "")
        fb, lb = self.sym(b) if b and b != "0" else ("?", "")
        return "%s<-%s" % (fa, fb), "%s (%s) called from %s (%s)" % (fa, la, fb, lb)


def parse(line):
    f = line.split("\t")
    d = {"verdict": f[0]}
    for x in f[1:]:
        if "=" in x:
            k, v = x.split("=", 1)
            d[k] = v
    return d


def scen_of(case):
    f = case.split("\t")
    sid = f[1]
    if len(f) > 5:
        sid += "|" + f[4] + "|" + f[5]
    return sid, int(f[2])


def live_sites(d):
    """set of allocation sites (off1/off2) of the counted blocks still allocated"""
    v = d.get("live", "0")
    if ":" not in v:
        return set()
    return set(x.split("@", 1)[1] for x in v.split(":", 1)[1].split(",") if "@" in x)


def py_check(c20, name, prod):
    """independent recomputation of deterministic products; returns None or a message"""
    keys = c20.keys
    try:
        if name in ("sig-hs256", "sigio-hs256"):
            j = json.loads(prod)
            k = unb64u(keys["oct"]["k"])
            want = b64u(hmac.new(k, (j["protected"] + "." + j["payload"]).encode(), hashlib.sha256).digest())
            if json.loads(unb64u(j["protected"])) != {"alg": "HS256"}:
                return "protected header is not {alg:HS256}"
            if j["payload"] != b64u(c20.pt.encode()):
                return "payload differs"
            if j["signature"] != want:
                return "HMAC-SHA256 recomputed with python differs from the signature"
        elif name in ("thp-ec", "thp-rsa", "thp-oct", "thpbuf"):
            kn, hn, members = {"thp-ec": ("ec", "sha256", ("crv", "kty", "x", "y")),
                               "thpbuf": ("ec", "sha256", ("crv", "kty", "x", "y")),
                               "thp-rsa": ("rsa", "sha1", ("e", "kty", "n")),
                               "thp-oct": ("oct", "sha512", ("k", "kty"))}[name]
            txt = json.dumps({m: keys[kn][m] for m in members}, separators=(",", ":"), sort_keys=True)
            dg = hashlib.new(hn, txt.encode()).digest()
            got = bytes.fromhex(prod) if name == "thpbuf" else unb64u(json.loads(prod))
            if got != dg:
                return "RFC 7638 thumbprint recomputed with hashlib differs"
        elif name == "b64-enc":
            if json.loads(prod) != b64u(c20.pt.encode()):
                return "base64url recomputed with python differs"
        elif name == "b64-dump":
            v = {"alg": "ES256", "list": [1, 2, {"x": None}], "epk": {"crv": "P-256"}}
            if json.loads(prod) != b64u(json.dumps(v, separators=(",", ":"), sort_keys=True).encode()):
                return "base64url of the sorted compact dump recomputed with python differs"
        elif name == "b64-load":
            if json.loads(prod) != {"alg": "ES256", "list": [1, 2, {"x": None}], "epk": {"crv": "P-256"}}:
                return "decoded value differs"
        elif name.startswith("pub-"):
            j = json.loads(prod)
            if any(m in j for m in ("d", "p", "q", "dp", "dq", "qi", "k", "oth")):
                return "exported key still carries private members"
    except Exception as e:   # unparsable product of a run that reported success
        return "product not parsable (%s)" % type(e).__name__
    return None


def analyze(c20, case, line):
    """None if the run satisfies the property, else (signature, description)"""
    sid, k = scen_of(case)
    name = sid.split("|")[0]
    replay = "fail %s %d" % (name, k) + (" - %s %s" % tuple(sid.split("|")[1:]) if "|" in sid else "")
    if line.startswith("CRASH") or line == "MISSING" or line.startswith("HARNESS-ERROR"):
        m = re.search(r"at=(\S+)", line)
        at = m.group(1) if m else "-"
        kind = "timeout" if "signal 14" in line else "crash"
        ms = re.search(r"(AddressSanitizer|UndefinedBehaviorSanitizer|LeakSanitizer): ([\w-]+)", line)
        what = ms.group(2) if ms else (re.search(r"signal \d+", line).group(0) if "signal" in line else "exit")
        msite = re.search(r"site=(\S+)", line)
        site = msite.group(1) if msite else "?"
        mp = re.search(r"phase=(\w+)", line)
        atfn, atdesc = c20.fn2(at) if at != "-" else ("?", "?")
        # the signature names only the failing request: how the damage surfaces (SEGV at once, heap corruption noticed
        # later, abort) can vary from run to run for the same defect
        return ("%s:after-failed-alloc-in:%s" % (kind, atfn),
                "%s (%s in %s, phase %s) when the allocation requested by %s fails; replay: %s  | %s"
                % (kind, what, site, mp.group(1) if mp else "?", atdesc, replay, line[:300]))
    d = parse(line)
    if d["verdict"] not in ("ok", "fail") or "n" not in d:
        return ("protocol:" + name, "unexpected harness line for %s: %s" % (replay, line[:200]))
    base = c20.base.get(sid)
    at = d.get("at", "-")
    atfn, atdesc = c20.fn2(at) if at != "-" else ("-", "no allocation failed")
    is_chain = name.startswith("chain:")
    prodkey = "sinks" if is_chain else "prod"
    if k < 0:
        if base is None:
            return None
        # the fault-free run itself is the reference: the product checks must hold there
        if d.get("check") != "good":
            return ("scenario-broken:%s" % name, "fault-free run of %s does not pass its own check: %s" % (name, d.get("check")))
    if d["verdict"] == "ok":
        if d.get("check") != "good":
            msg = d.get("check", "?")[4:]
            return ("wrong-product:%s:after-failed-alloc-in:%s" % (re.sub(r"\s*\(\d+ bytes\)", "", msg), atfn),
                    "success reported with a wrong product (%s) when the allocation requested by %s fails; replay: %s"
                    % (msg, atdesc, replay))
        if base is not None and base["verdict"] == "ok" and not is_chain and d.get(prodkey) != base.get(prodkey):
            return ("wrong-product:differs-from-fault-free:after-failed-alloc-in:%s" % atfn,
                    "success reported but the canonical product differs from the fault-free one when the allocation requested "
                    "by %s fails; replay: %s; got %s" % (atdesc, replay, d.get(prodkey, "")[:200]))
        if base is not None and base["verdict"] != "ok":
            return ("wrong-verdict:%s:after-failed-alloc-in:%s" % (name, atfn),
                    "the fault-free run fails but the run with a failed allocation (%s) reports success; replay: %s" % (atdesc, replay))
        if is_chain and base is not None and base["verdict"] == "ok":
            # sinks of a run that reports success: exactly the fault-free bytes; a sink under an any-multiplexer may
            # belong to a dropped branch and then holds a prefix of them
            got, want = d.get("sinks", "").split(" "), base.get("sinks", "").split(" ")
            strict = "plexany" not in name
            okk = len(got) == len(want) and all(
                (g == w) or (not strict and (g == "-" or w.startswith(g))) for g, w in zip(got, want))
            if okk and not strict and not any(g == w for g, w in zip(got, want)):
                okk = False
            if not okk:
                return ("wrong-product:chain-sinks:%s:after-failed-alloc-in:%s" % (name[6:], atfn),
                        "an IO chain reports success but its sinks do not hold the fault-free bytes when the allocation "
                        "requested by %s fails; replay: %s; sinks %s" % (atdesc, replay, d.get("sinks", "")[:200]))
        if not is_chain:
            m = py_check(c20, name, d.get("prod", ""))
            if m:
                return ("wrong-product:python:%s:after-failed-alloc-in:%s" % (name, atfn),
                        "success reported with a wrong product (%s) when the allocation requested by %s fails; replay: %s"
                        % (m, atdesc, replay))
    # leaks: sites that the fault-free run does not leak already
    new = live_sites(d) - (live_sites(base) if base else set())
    if k >= 0 and new:
        s = sorted(new)[0]
        lfn, ldesc = c20.fn2(s)
        return ("leak:block-from:%s" % lfn,
                "a block requested by %s is still allocated after everything was released, when the allocation requested by %s "
                "fails (%s); replay: %s" % (ldesc, atdesc, d["verdict"], replay))
    if k >= 0 and d.get("lsan") == "1" and not (base and base.get("lsan") == "1"):
        return ("leak:lsan:after-failed-alloc-in:%s" % atfn,
                "LeakSanitizer reports unreachable blocks (%s) after everything was released, when the allocation requested by "
                "%s fails (%s); replay: %s" % (d.get("lsanat", "?")[:80], atdesc, d["verdict"], replay))
    if d.get("rel", "ok") != "ok":
        return ("caller-object:%s:after-failed-alloc-in:%s" % (re.sub(r"\d+->\d+", "", d["rel"]), atfn),
                "caller-owned object damaged (%s) when the allocation requested by %s fails; replay: %s" % (d["rel"], atdesc, replay))
    return None


def make_normalize(c20):
    def normalize(case, line):
        if line.startswith("spec\t") or line.startswith("chain\t") or line.startswith("MODEL"):
            return line
        if analyze(c20, case, line) is not None:
            return line
        sid, k = scen_of(case)
        if sid.startswith("chain:"):
            d = parse(line)
            return "chain\t%s\tn=%s\t%s" % (d["verdict"], d["n"], d.get("sinks", "?") if d["verdict"] == "ok" else "*")
        return SPEC
    return normalize


def correspond(ctx):
    tier = ctx["tier"]
    rep = ctx["rep"]
    # the hook variant of tools/vlib.py keeps use-after-scope instrumentation on; the C09 finding in
    # jose_jwe_enc_cek would end every JWE encryption scenario before any allocation fault is reached
    try:
        ctx["bdir"] = vlib.build(VARIANT, extra_defs=NOSCOPE)
    except vlib.BuildError as e:
        rep.violation("build-hook", "hook variant does not build: %s" % e, {"broken": "build"}, found=False)
        return {"evaluations": 0, "disagreements": 0}
    h = os.path.join(ctx["bdir"], "h")
    c20 = Ctx20(h)
    first = vlib.run_cases(h, ["fail\tkeys\t-1", "fail\tscenarios\t-1"], env_extra=ENV)
    kj = json.loads(first[0])
    c20.keys, c20.pt = kj["keys"], kj["pt"]
    names = first[1].split()
    nfixed = len(names)
    chains = list(CHAINS_QUICK)
    if tier != "quick":
        # every registered algorithm: sign / verify / verify a forged token; every wrap with A128GCM; every enc with A128KW
        algs = json.loads(vlib.run_cases(h, ["fail\talgs\t-1"], env_extra=ENV)[0])
        for a in sorted(algs["sign"]):
            names += ["sigalg:" + a, "veralg:" + a, "veralg-bad:" + a]
        for a in sorted(algs["wrap"]):
            names += ["encalg:%s:A128GCM" % a, "decalg:%s:A128GCM" % a]
        for e in sorted(algs["encr"]):
            names += ["encalg:A128KW:" + e, "decalg:A128KW:" + e, "decalg-bad:A128KW:" + e]
        datas = [bytes((i * 11 + 5) & 255 for i in range(n)) for n in (1, 47, 48, 49, 96, 300)]
        for shape in ("b64enc(malloc)", "plexany(b64enc(malloc),malloc)", "plexall(hash:S512(malloc),b64enc(b64dec(malloc)))",
                      "b64enc(b64enc(b64enc(malloc)))", "plexany(plexany(malloc,malloc),plexall(malloc,malloc))"):
            for dt in datas:
                for sizes in ("%d" % len(dt), "1,%d" % (len(dt) - 1), "%d,0,%d" % (len(dt) // 2, len(dt) - len(dt) // 2)):
                    chains.append((shape, sizes, dt.hex()))
    scen = [("fail\t%s\t%%d" % n) for n in names]
    for shape, sizes, data in chains:
        if sizes is None:
            scen.append("fail\tchain:%s\t%%d" % shape)
        else:
            scen.append("fail\tchain:%s\t%%d\t-\t%s\t%s" % (shape, sizes, data))
    basecases = [s % -1 for s in scen]
    baseout = vlib.run_cases(h, basecases, env_extra=ENV)
    N = {}
    for c, o in zip(basecases, baseout):
        sid, _ = scen_of(c)
        if o.startswith("CRASH") or "\tn=" not in o:
            rep.violation("scenario-broken:" + sid.split("|")[0], "fault-free run of the scenario does not complete: " + o[:300],
                          {"case": c, "implementation": o[:2000]})
            N[c] = 0
            continue
        d = parse(o)
        c20.base[sid] = d
        N[c] = int(d["n"])
    # every k of every scenario, in both tiers.  The runs after an RSA key generation take 0.1-1 s each (gen-rsa, and the
    # RSA wraps of the thorough tier): cases are ordered by k, round-robin over the scenarios, so that the slow ones spread
    # over the 16 shards and the first run reported for a signature is the one with the smallest k
    cases = list(basecases)
    dist = collections.Counter()
    sub = []
    for s, b in zip(scen, basecases):
        kind = re.split(r"[-:]", s.split("\t")[1])[0]
        dist[kind] += 1 + N[b]
    for k in range(max(N.values()) if N else 0):
        for s, b in zip(scen, basecases):
            if k < N[b]:
                cases.append(s % k)
    normalize = make_normalize(c20)

    def oracle(case, io):
        if io == SPEC or io.startswith("chain\t"):
            return None
        return analyze(c20, case, io)

    def nontrivial(case, io):
        _, k = scen_of(case)
        return k >= 0 and not io.startswith("CRASH")

    def on_disagree(case, io, mo):
        # the Gallina fault model and the implementation differ on an IO chain (verdict, sink contents or the number of
        # allocation requests): by C20_propagates the model never says ok with wrong bytes, so this is a failing input
        if mo.startswith("chain\t") and not io.startswith("CRASH"):
            sid, k = scen_of(case)
            return ("chain-differs-from-fault-model:%s" % sid.split("|")[0][6:],
                    "IO chain %s with allocation %d failing: implementation '%s' vs Gallina fault model '%s'"
                    % (sid, k, io[:160], mo[:160]))
        return None

    st = runner.standard(
        ctx, cases, oracle, nontrivial, on_disagree=on_disagree,
        rule="for each of %d scenarios (%d fixed + per registered algorithm in the thorough tier: generate, export, thumbprint, compare, exchange, sign, verify incl. forged tokens, "
             "wrap, unwrap, encrypt/decrypt with A128KW/A128GCMKW/dir/PBES2/ECDH-ES/RSA-OAEP x GCM/CBC-HS/zip, base64url, "
             "streaming sign/verify/encrypt/decrypt fed in 3 chunks, %d IO chains from the public constructors): ask the "
             "number N of allocations (k=-1), then fail allocation k for EVERY k in 0..N-1%s; each run in a forked child; "
             "non-trivial = an allocation was actually made to fail" % (len(names), nfixed, len(chains), ("; subsampled: " + ", ".join(sub)) if sub else ""),
        dist=dict(dist), normalize=normalize, env_extra=ENV,
        exhaustive_subspaces=["every allocation index k in 0..N-1 of every scenario" + (" except " + ", ".join(sub) if sub else "")])
    st["N_per_scenario"] = {scen_of(b)[0][:60]: N[b] for b in basecases}
    rep.notes.append("allocations per scenario: " + ", ".join("%s=%d" % (scen_of(b)[0].split("|")[0], N[b]) for b in basecases))
    return st
