"""C19 'jose fmt' executes its option string as the documented stack machine.

The reference interpreter (coq/Cli/Fmt.v, written from doc/man/jose-fmt.1.adoc) gives for every
program the SET of (exit status, stdout, files) the manual allows; the built `jose` binary is run on
the same program and its result must be a member of that set.  A disagreement with the manual IS
the violation; it is shrunk to a minimal program and reported with the option at fault."""
import collections
import concurrent.futures as cf
import os
import random
import re
import shutil
import subprocess
import tempfile

import vlib

PID = "C19"
PROP_FILE = "Props/Properties_C19.v"
LEVEL = "proof"
ASSUMPTIONS = [
    "C19: the reference interpreter coq/Cli/Fmt.v is a reading of doc/man/jose-fmt.1.adoc; where the manual is silent it allows several outcomes (list in coq/Cli/C19_NOTES.md): -X not followed by an assertion, inverted assertion on a missing TOP, -M beyond the bottom, -Q element order, -u line terminator, -Y on a scalar, -d of a missing name, -t longer than the array / discarding more than there are, -i with a negative position, non-canonical base64url for -y, partial effect of a failing -o/-f/-u on its target file",
    "C19: values are references (store of nodes), as the manual's own examples require; serialization is jansson's compact form with sorted keys (coq/Base/JsonDump.v); object iteration order for -f is insertion order",
    "C19: exit statuses are 8 bit: programs are kept to at most 255 options (premise of C19_exit_index); stdout is a pipe, tty newline behaviour is not modelled; -j FILE and -j - (standard input) are exercised with documents of every JSON type; malformed option arguments (not JSON / not a number) are usage errors (exit 255 before anything runs) and kept apart",
    "C19: programs are separate argv words (-g a), getopt bundling (-Og) is not exercised",
]

JVALS = ['null', 'true', 'false', '0', '1', '1.5', '"a"', '""', '[]', '[1,2,3]', '{"a":1}', '{"a":[1],"b":"x"}']
JFILE_TEXT = '{"f":[1,2],"g":{"h":null}}'

# one option instance = tuple of argv words; "@F" = an output file chosen per case, "@J" = the input file
ALPHABET = (
    [("-" + c,) for c in "OASIRNTFB0E"] + [("-X",)]
    + [("-Q",), ("-U",), ("-c",), ("-l",), ("-e",), ("-a",), ("-x",), ("-y",), ("-Y",)]
    + [("-M", "0"), ("-M", "1"), ("-M", "2")]
    + [("-j", v) for v in JVALS]
    + [("-q", "a"), ("-q", "eyJhIjoxfQ"), ("-q", "MQ")]
    + [("-o", "-"), ("-o", "@F"), ("-f", "-"), ("-f", "@F"), ("-u", "-"), ("-u", "@F")]
    + [("-t", "0"), ("-t", "2"), ("-t", "5"), ("-t", "-1"), ("-t", "-5")]
    + [("-i", "0"), ("-i", "1"), ("-i", "5")]
    + [("-d", "a"), ("-d", "zz"), ("-d", "0"), ("-d", "-1"), ("-d", "5")]
    + [("-g", "a"), ("-g", "b"), ("-g", "0"), ("-g", "-1"), ("-g", "3"), ("-g", "-4")]
    + [("-s", "a"), ("-s", "c"), ("-s", "0"), ("-s", "-1"), ("-s", "3")]
)
# used by the random programs in addition
EXTRA = [("-j", "@J"), ("-j", '[[1],{"k":[]}]'), ("-j", '{"x":{"y":[1,2]},"z":[]}'), ("-q", "W10"), ("-q", "MR"),
         ("-q", "a=b"), ("-t", "1"), ("-t", "-2"), ("-t", "3"), ("-i", "2"), ("-i", "3"), ("-i", "-1"), ("-M", "3"),
         ("-g", "1"), ("-g", "-2"), ("-g", "x"), ("-g", "f"), ("-s", "1"), ("-s", "-2"), ("-s", "x"),
         ("-d", "1"), ("-d", "-2"), ("-d", "b"), ("-d", "-4"), ("-j", '"MQ"'), ("-j", "-7"), ("-j", '[null,true,1.5,"s"]')]

PREFIXES = [
    [("-j", '{"a":[1],"b":"x"}'), ("-j", "[1,2,3]")],      # PREV obj, TOP arr
    [("-j", "[1,2,3]"), ("-j", '{"a":1}')],                # PREV arr, TOP obj
    [("-j", '{"a":1}'), ("-j", '{"a":2,"c":3}')],          # obj, obj
    [("-j", "[1,2,3]"), ("-j", "[4,5]")],                  # arr, arr
    [("-j", '{"a":[1],"b":"x"}'), ("-g", "a")],            # TOP is a member of PREV (shared)
    [("-j", "[1,2,3]"), ("-q", "MQ")],                     # arr, string
]
SMALL = [("-O",), ("-A",), ("-X",), ("-E",), ("-Q",), ("-U",), ("-c",), ("-l",), ("-e",), ("-a",), ("-x",), ("-Y",),
         ("-M", "1"), ("-j", "1"), ("-j", "[1,2,3]"), ("-j", '{"a":1}'), ("-q", "MQ"), ("-y",), ("-o", "-"), ("-f", "-"),
         ("-u", "-"), ("-t", "1"), ("-t", "-1"), ("-i", "1"), ("-d", "a"), ("-d", "-1"), ("-g", "a"), ("-g", "-1"),
         ("-s", "a"), ("-s", "0")]
OBSERVER = [("-Q",), ("-o", "-")]                          # prints the whole stack
USAGE = [[("-j", "bad")], [("-j", "1"), ("-o", "-"), ("-M", "x")], [("-j", "[1]"), ("-t", "x")],
         [("-j", "[]"), ("-j", "1"), ("-i", "x")], [("-j", "{")], [("-o", "-"), ("-j", "[1,")]]


def flat(prog):
    out = []
    for o in prog:
        out.extend(o)
    return out


def gen(tier, seed):
    rnd = random.Random(seed)
    progs = []
    tags = []

    def add(p, tag):
        progs.append(tuple(p))
        tags.append(tag)

    alpha = ALPHABET
    for pre in PREFIXES:
        add(pre + OBSERVER, "exhaustive len<=2")
        for a in alpha:
            add(pre + [a] + OBSERVER, "exhaustive len<=2")
            for b in alpha:
                add(pre + [a, b] + OBSERVER, "exhaustive len<=2")
    # programs from the empty stack (missing TOP / PREV), every pair, no observer prefix
    add([], "empty-stack len<=2")
    for a in alpha:
        add([a], "empty-stack len<=2")
        add([a] + OBSERVER, "empty-stack len<=2")
        for b in alpha:
            add([a, b], "empty-stack len<=2")
    if tier == "thorough":
        for pre in PREFIXES:
            for a in SMALL:
                for b in SMALL:
                    for c in SMALL:
                        add(pre + [a, b, c] + OBSERVER, "exhaustive len 3 (30-instance alphabet)")
    # values that contain themselves (-a after -M): serialization / copy / comparison of a cycle
    cyc = [("-j", "[]"), ("-j", "[]"), ("-a",), ("-M", "1"), ("-a",)]
    for tail in ([], [("-o", "-")], [("-c",)], [("-Q",)], [("-Y",)], [("-f", "-")], [("-l",), ("-o", "-")],
                 [("-E",)], [("-U",), ("-c",), ("-M", "1"), ("-E",)], [("-g", "0"), ("-g", "0"), ("-A",)],
                 [("-e",), ("-Q",), ("-o", "-")], [("-o", "@F")]):
        add(cyc + tail, "cyclic values")
    # every option that stores a reference, asked to close a cycle (directly, through a member, through an object);
    # then the stack is printed: the refused option must have changed nothing
    closers = [
        [("-j", "{}"), ("-j", "{}"), ("-s", "a"), ("-M", "1"), ("-s", "b")],
        [("-j", "[[]]"), ("-g", "0"), ("-M", "1"), ("-a",)],
        [("-j", "[[]]"), ("-g", "0"), ("-M", "1"), ("-i", "0")],
        [("-j", "[[7]]"), ("-g", "0"), ("-M", "1"), ("-s", "0")],
        [("-j", "[[]]"), ("-g", "0"), ("-M", "1"), ("-j", "[]"), ("-M", "1"), ("-a",), ("-U",), ("-x",)],
        [("-j", '{"k":{}}'), ("-g", "k"), ("-M", "1"), ("-j", "{}"), ("-M", "1"), ("-s", "m"), ("-U",), ("-x",)],
        [("-j", '{"k":{}}'), ("-g", "k"), ("-M", "1"), ("-j", "{}"), ("-M", "1"), ("-s", "m"), ("-U",), ("-a",)],
        [("-j", '{"k":{"m":1}}'), ("-g", "k"), ("-M", "1"), ("-j", "{}"), ("-M", "1"), ("-s", "m"), ("-U",), ("-a",)],   # member exists: nothing is added, no cycle
        [("-j", "[[1]]"), ("-g", "0"), ("-g", "0"), ("-U",), ("-M", "1"), ("-U",), ("-x",)],
        [("-j", '{"a":[]}'), ("-g", "a"), ("-M", "1"), ("-g", "a"), ("-M", "1"), ("-U",), ("-x",)],      # TOP and PREV the same array: no cycle
        [("-j", '{"a":{"z":1}}'), ("-g", "a"), ("-M", "1"), ("-g", "a"), ("-M", "1"), ("-U",), ("-a",)],
    ]
    for c_ in closers:
        for tail in ([], [("-o", "-")], [("-U",), ("-o", "-")], [("-Q",), ("-o", "-")], [("-E",)]):
            add(c_ + tail, "options asked to close a reference cycle")
    # -c is a DEEP copy: an in-place edit reached through the copy (-g into it, then -e -t -d -s -a -i -x) must not show in
    # the original, and the other way round; the whole stack is printed afterwards
    nested = [('{"a":[1,2],"b":{"c":[3]}}', ["a", "b"]), ('[[1,2],{"k":[3]}]', ["0", "1"])]
    edits = [[("-e",)], [("-t", "1")], [("-d", "0")], [("-d", "c")], [("-d", "k")], [("-j", "9"), ("-s", "0")], [("-j", "9"), ("-s", "z")],
             [("-j", "9"), ("-a",)], [("-j", "9"), ("-i", "0")], [("-j", "[9]"), ("-x",)], [("-j", '{"n":9}'), ("-x",)]]
    for v, ks in nested:
        for k_ in ks:
            for ed in edits:
                add([("-j", v), ("-c",), ("-g", k_)] + ed + OBSERVER, "copy independence")
                add([("-j", v), ("-c",), ("-M", "1"), ("-g", k_)] + ed + OBSERVER, "copy independence")
    # -j FILE and -j - (standard input) push ANY JSON value, exactly as the inline constant does: scalars of every type,
    # containers, several documents read from one stream by successive options
    docs = ["7", '"foo"', "true", "false", "null", "2.5", "-3", '""', "[1,2]", '{"a":1}', "[]", "{}"]
    for dtxt in docs:
        for src in ("@J:", "@-:"):
            add([("-j", src + dtxt), ("-o", "-")], "-j from a file / standard input")
            add([("-j", '{"kty":"oct"}'), ("-j", src + dtxt), ("-s", "alg"), ("-U",), ("-o", "-")], "-j from a file / standard input")
            add([("-j", src + dtxt), ("-S",), ("-I",), ("-o", "-")], "-j from a file / standard input")
    add([("-j", "@-:1"), ("-j", "@-:[2]"), ("-Q",), ("-o", "-")], "-j from a file / standard input")
    add([("-j", '@-:"a"'), ("-j", "@-:true"), ("-j", '@-:{"b":null}'), ("-Q",), ("-o", "-")], "-j from a file / standard input")
    for u in USAGE:
        add(u, "usage errors")
    # the manual's own examples (with constants for $jwe etc.)
    add([("-j", '{"protected":"eyJhbGciOiJBMTI4S1cifQ"}'), ("-O",), ("-g", "protected"), ("-y",), ("-O",), ("-g", "alg"),
         ("-S",), ("-u", "-")], "manual examples")
    add([("-j", '{"keys":[{"kty":"oct"},{"kty":"EC"}]}'), ("-O",), ("-g", "keys"), ("-A",), ("-f", "-")], "manual examples")
    add([("-j", '{"kty":"oct"}'), ("-j", '"A128GCM"'), ("-s", "alg"), ("-U",), ("-o", "-")], "manual examples")
    add([("-j", "{}"), ("-c",), ("-s", "unprotected"), ("-q", "A128KW"), ("-s", "alg"), ("-U",), ("-U",), ("-o", "-")],
        "manual examples")
    # seeded random programs
    nr = 5000 if tier == "quick" else 100000
    pool = list(ALPHABET) + EXTRA
    weights = []
    for a in pool:
        w = 1.0
        if a[0] == "-j":
            w = 1.6 if a[1][0] in "[{@" else 0.5
        elif a[0] in ("-g", "-s", "-a", "-x", "-M", "-U", "-c"):
            w = 2.0
        elif a[0] in "-O-A-S-I-R-N-T-F-B-0":
            w = 0.4
        elif a[0] in ("-o", "-f", "-u"):
            w = 0.8
        weights.append(w)
    for _ in range(nr):
        n = rnd.randint(3, 12)
        if tier == "thorough" and rnd.random() < 0.02:
            n = rnd.choice([40, 100, 254, 255])
        p = [rnd.choice([("-j", '{"a":[1],"b":"x"}'), ("-j", "[1,2,3]"), ("-j", '[[1],{"k":[]}]'),
                         ("-j", '{"x":{"y":[1,2]},"z":[]}'), ("-j", "@J"), ("-j", "[]"), ("-j", "{}")])]
        if n >= 40:
            # long programs: mostly harmless options, so that a late option index is reached
            body = rnd.choices([("-c",), ("-U",), ("-O",), ("-X",), ("-j", "1"), ("-l",), ("-A",), ("-M", "1"), ("-g", "0")],
                               k=n - 1)
            p += body
        else:
            p += rnd.choices(pool, weights=weights, k=n - 1)
        if rnd.random() < 0.7 and n < 200:
            p = p + OBSERVER
        add(p, "random len 3-12" if n < 40 else "random long")
    return progs, tags


# ------------------------------------------------------------------ running both sides

ENV_BIN = None


def _env():
    global ENV_BIN
    if ENV_BIN is None:
        e = dict(os.environ)
        e["ASAN_OPTIONS"] = "detect_leaks=0"
        e.pop("UBSAN_OPTIONS", None)
        ENV_BIN = e
    return ENV_BIN


def hx(b):
    return b.hex() if b else "-"


class Bin:
    def __init__(self, bdir):
        self.exe = os.path.join(bdir, "jose")
        self.tmp = tempfile.mkdtemp(prefix="c19-")
        self.jfile = os.path.join(self.tmp, "in.json")
        with open(self.jfile, "w") as f:
            f.write(JFILE_TEXT)
        self.n = 0

    def close(self):
        shutil.rmtree(self.tmp, ignore_errors=True)

    def run(self, idx, prog):
        """-> canonical result 'status:stdouthex[:@F=hex]' or 'CRASH ...'"""
        fpath = os.path.join(self.tmp, "o%d" % idx)
        argv, stdin_text, extra_files = [], None, []
        for w in flat(prog):
            if w == "@F":
                argv.append(fpath)
            elif w == "@J":
                argv.append(self.jfile)
            elif w.startswith("@J:"):          # -j FILE with this content
                fp = os.path.join(self.tmp, "j%d_%d" % (idx, len(extra_files)))
                with open(fp, "w") as f:
                    f.write(w[3:])
                extra_files.append(fp)
                argv.append(fp)
            elif w.startswith("@-:"):          # -j - : the document comes from standard input (several: one after the other)
                stdin_text = (stdin_text + "\n" if stdin_text else "") + w[3:]
                argv.append("-")
            else:
                argv.append(w)
        try:
            p = subprocess.run([self.exe, "fmt"] + argv, stdout=subprocess.PIPE, stderr=subprocess.PIPE, timeout=10, env=_env(),
                               **({"stdin": subprocess.DEVNULL} if stdin_text is None else {"input": stdin_text.encode()}))
            for fp in extra_files:
                self._rm(fp)
        except subprocess.TimeoutExpired:
            self._rm(fpath)
            return "CRASH TIMEOUT"
        err = p.stderr.decode(errors="replace")
        if p.returncode < 0 or "AddressSanitizer" in err or "runtime error:" in err or "LeakSanitizer" in err:
            self._rm(fpath)
            return "CRASH " + vlib.crash_summary(p.returncode, err)
        res = "%d:%s" % (p.returncode, hx(p.stdout))
        if os.path.exists(fpath):
            with open(fpath, "rb") as f:
                res += ":@F=" + hx(f.read())
            self._rm(fpath)
        return res

    @staticmethod
    def _rm(p):
        try:
            os.unlink(p)
        except OSError:
            pass

    def run_all(self, progs):
        with cf.ThreadPoolExecutor(16) as ex:
            return list(ex.map(lambda ip: self.run(ip[0], ip[1]), enumerate(progs)))


def model_line(prog):
    return "fmt\t" + "\t".join(JFILE_TEXT if w == "@J" else w[3:] if w.startswith(("@J:", "@-:")) else w for w in flat(prog)) if prog else "fmt"


def model_all(driver, progs):
    return vlib.run_cases(driver, [model_line(p) for p in progs])


def agrees(b, m):
    if m == "USAGE":
        return b == "255:-"
    return b in m.split("|")


# ------------------------------------------------------------------ diagnosis of a disagreement

NICE = {
    ("-t", "output-differs", "neg"): "fmt:-t:negative-count-ignored",
    ("-t", "failure-ignored", "neg"): "fmt:-t:non-array-accepted",
    ("-t", "failure-ignored", "nonneg"): "fmt:-t:non-array-accepted",
}


def argclass(o):
    if len(o) < 2:
        return "noarg"
    a = o[1]
    if a == "-":
        return "stdout"
    if a in ("@F",):
        return "file"
    if re.fullmatch(r"-[0-9]+", a):
        return "neg"
    if re.fullmatch(r"[0-9]+", a):
        return "nonneg"
    if o[0] == "-j":
        return "json"
    return "name"


def statuses(m):
    return sorted({int(r.split(":")[0]) for r in m.split("|")}) if m != "USAGE" else [255]


def diagnose(prog, b, m, both):
    """-> (signature, text, kind, option at fault).  `both(prog)` runs a program on both sides.
    The option at fault is the last one of the shortest prefix after which the two sides can be
    told apart (exit status, or the stack printed by the observer -Q -o-)."""
    n = len(prog)
    if m == "USAGE":
        return ("fmt:usage", "malformed argument: expected a usage error (255, nothing printed), got %s" % b,
                "usage", ())
    k, kb, km = n, b, m
    for j in range(1, n + 1):
        pre = list(prog[:j])
        if j == n:
            bb, mm = b, m
        elif pre[-1][0] in ("-o", "-f", "-u"):
            bb, mm = both(pre)
        else:
            bb, mm = both(pre + OBSERVER)
        if not agrees(bb, mm):
            k, kb, km = j, bb, mm
            break
    o = prog[k - 1]
    ac = argclass(o)
    if kb.startswith("CRASH"):
        kind = "crash"
        mm = re.search(r"stack-overflow|heap-buffer-overflow|stack-buffer-overflow|heap-use-after-free|double-free|"
                       r"SEGV|UBSan|TIMEOUT|SIGNAL \d+", kb)
        what = mm.group(0).replace(" ", "") if mm else re.sub(r"[^A-Za-z0-9-]+", "-", kb[6:40]).strip("-")
        return ("fmt:%s:crash:%s" % (o[0], what), "option %d (%s) crashes the program: %s" % (k, " ".join(o), kb),
                kind, tuple(o))
    bs = int(kb.split(":")[0])
    ms = statuses(km)
    if bs in ms and bs == k:
        kind = "partial-output-before-failure"
        text = ("option %d (%s) fails, as it may, but has already written bytes (stdout or its file) before failing; "
                "the manual allows nothing to be printed by a failing option" % (k, " ".join(o)))
    elif bs in ms:
        kind = "output-differs"
        text = "after option %d (%s) the values on the stack / the bytes written differ from what the manual defines" % (k, " ".join(o))
    elif bs == k and all(x == 0 or x > k for x in ms):
        kind = "unexpected-failure"
        text = "option %d (%s) fails although the manual defines it to succeed here" % (k, " ".join(o))
    elif ms == [k] or (all(x != 0 for x in ms) and max(ms) <= k and (bs == 0 or bs > k)):
        kind = "failure-ignored"
        text = ("option %d (%s) must fail according to the manual (wrong type / missing operand / out of range) "
                "but the program went on (exit status %d)" % (k, " ".join(o), bs))
    else:
        kind = "wrong-exit-status"
        text = "at option %d (%s): exit status %d is not one of the allowed %s" % (k, " ".join(o), bs, ms)
    sig = NICE.get((o[0], kind, ac), "fmt:%s:%s:%s" % (o[0], kind, ac))
    return sig, text, kind, tuple(o)


def status_kind(prog, b, m):
    """classification from the exit statuses alone: (kind, option at fault) or None when the status is allowed"""
    bs = int(b.split(":")[0])
    ms = statuses(m)
    n = len(prog)
    if bs in ms:
        return None
    if bs != 0 and bs <= n and all(x == 0 or x > bs for x in ms):
        return "unexpected-failure", bs
    if all(x != 0 and (bs == 0 or x < bs) for x in ms):
        return "failure-ignored", ms[0]
    k = bs if 0 < bs <= n else (ms[0] if ms[0] else n)
    return "wrong-exit-status", max(1, min(k, n))


def quick_kind(prog, b, m):
    if b.startswith("CRASH"):
        return "crash", None
    if m == "USAGE":
        return "usage", ()
    sk = status_kind(prog, b, m)
    if sk is None:
        return "output-differs", None
    return sk[0], tuple(prog[sk[1] - 1]) if prog else ()


def subseq(q, p):
    it = iter(p)
    return all(any(x == y for y in it) for x in q)


def shrink(prog, both, want):
    """drop options while a disagreement of the same kind (and the same option at fault) persists"""
    prog = list(prog)
    changed = True
    while changed and len(prog) > 1:
        changed = False
        for i in range(len(prog)):
            cand = prog[:i] + prog[i + 1:]
            b, m = both(cand)
            if not agrees(b, m) and quick_kind(cand, b, m) == want:
                prog = cand
                changed = True
                break
    return prog


def correspond(ctx):
    rep = ctx["rep"]
    progs, tags = gen(ctx["tier"], ctx["seed"])
    binr = Bin(ctx["bdir"])
    try:
        impl = binr.run_all(progs)
        drv = ctx.get("driver")
        model = model_all(drv, progs) if drv else None
        counter = [10 ** 7]

        def both(p):
            counter[0] += 1
            b = binr.run(counter[0], p)
            m = vlib.run_cases(drv, [model_line(p)])[0]
            return b, m

        letters = collections.Counter()
        kinds = collections.Counter()
        tagc = collections.Counter(tags)
        nontrivial = set()
        dis = []
        for i, p in enumerate(progs):
            for o in p:
                letters[o[0]] += 1
            b = impl[i]
            if b.startswith("CRASH"):
                kinds["crash"] += 1
            else:
                s = int(b.split(":")[0])
                kinds["exit 0" if s == 0 else "usage (255)" if s == 255 and (model is None or model[i] == "USAGE") else "exit = failing index"] += 1
                if len(p) >= 1 and not (s == 255 and model is not None and model[i] == "USAGE"):
                    nontrivial.add(p)
            if model is not None:
                if "|" in model[i]:
                    kinds["model allows several outcomes"] += 1
                if model[i].startswith("MODEL-") or model[i].startswith("CRASH"):
                    dis.append((i, "model"))
                elif not agrees(b, model[i]):
                    dis.append((i, "diff"))
            elif b.startswith("CRASH"):
                dis.append((i, "crash"))
        first = []
        seen_min = {}           # minimal program -> (signature, kind, culprit option)
        budget = 120            # shrink at most this many disagreeing programs (they collapse to few signatures)
        unexplained = 0         # disagreements that did not end in (or collapse into) a concrete reported violation
        dis.sort(key=lambda iw: (len(progs[iw[0]]), iw[0]))
        for i, why in dis:
            p = progs[i]
            if model is None:
                rep.violation("fmt:crash:" + impl[i][:60], "crash or sanitizer report: " + impl[i],
                              {"argv": ["fmt"] + flat(p), "binary": impl[i]}, found=True)
                continue
            if len(first) < 10:
                first.append({"argv": flat(p), "binary": impl[i][:300], "model": model[i][:300]})
            if why == "model":
                unexplained += 1
                continue
            # already explained by a minimal program found before?
            qk, qo = quick_kind(p, impl[i], model[i])
            if any(k == qk and o == qo for (_, k, o) in seen_min.values()):
                continue
            if any(k == "output-differs" and o in p for (_, k, o) in seen_min.values()):
                continue        # contains an option instance already known to leave a wrong value behind
            if budget <= 0:
                unexplained += 1
                continue
            budget -= 1
            mp = tuple(shrink(p, both, (qk, qo)))
            if mp in seen_min:
                continue
            b, m = both(list(mp))
            sig, text, kind, culprit = diagnose(list(mp), b, m, both)
            seen_min[mp] = (sig, kind, culprit)
            rep.violation(sig, "jose fmt disagrees with its manual: " + text,
                          {"argv": ["fmt"] + flat(mp), "binary": b[:2000], "manual_allows": m[:2000],
                           "original_argv": ["fmt"] + flat(p), "tag": tags[i],
                           "replay_cmd": "ASAN_OPTIONS=detect_leaks=0 _work/build-san/jose fmt " +
                                         " ".join("'%s'" % w for w in flat(mp)) + " </dev/null | xxd; echo status=$?"},
                          found=True)
        rnd = random.Random(ctx["seed"])
        samples = []
        for i in sorted(rnd.sample(range(len(progs)), min(6, len(progs)))):
            samples.append({"argv": " ".join(flat(progs[i]))[:300], "binary": impl[i][:200],
                            "model": model[i][:300] if model else None})
        na = len(ALPHABET)
        return {
            "evaluations": len(progs),
            "distinct_nontrivial": len(nontrivial),
            "rule": "programs of `jose fmt` as separate argv words; result of the binary (exit status, stdout bytes, "
                    "contents of the output file) must be a member of the set computed by the extracted reference "
                    "interpreter; non-trivial = at least one option was executed (not a usage error), counted distinct",
            "dist": {"option letters": dict(letters), "outcomes": dict(kinds), "groups": dict(tagc),
                     "minimal disagreeing programs": {" ".join(flat(k)): v[0] for k, v in list(seen_min.items())[:60]}},
            "samples": samples,
            "disagreements": len(dis),
            "unexplained_disagreements": unexplained,
            "first_disagreements": first[:10],
            "exhaustive_subspaces": [
                "all programs of length <= 2 over the %d-instance option alphabet (every option letter of the manual) after each of %d two-value prefixes, observed with -Q -o-" % (na, len(PREFIXES)),
                "all programs of length <= 2 over the same alphabet from the empty stack"]
            + (["all programs of length 3 over a %d-instance alphabet after each of the %d prefixes" % (len(SMALL), len(PREFIXES))]
               if ctx["tier"] == "thorough" else []),
            "exhaustive": False,
        }
    finally:
        binr.close()
