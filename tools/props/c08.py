"""C08 base64url: canonical bijection, output bounds."""
import base64
import collections
import itertools
import random

import runner

PID = "C08"
PROP_FILE = "Props/Properties_C08.v"
LEVEL = "proof"
ASSUMPTIONS = [
    "C08: no hypotheses; the only gap between theorem and code is the C compiler/ABI, covered by the correspondence",
    "C08: output size SIZE_MAX (ol = 2^64-1) is not modelled (the decoder's length guard compares against it)",
]

ALPHA = "ABCDEFGHIJKLMNOPQRSTUVWXYZabcdefghijklmnopqrstuvwxyz0123456789-_"


def py_enc(b):
    return base64.urlsafe_b64encode(b).rstrip(b"=")


def py_dec(t):
    """canonical unpadded base64url decoder written independently of jose (None = reject)"""
    if len(t) % 4 == 1:
        return None
    vals = []
    for c in t:
        i = ALPHA.find(chr(c)) if c < 128 else -1
        if i < 0 or c == 0:
            return None
        vals.append(i)
    out = bytearray()
    acc = 0
    bits = 0
    for v in vals:
        acc = (acc << 6) | v
        bits += 6
        if bits >= 8:
            bits -= 8
            out.append((acc >> bits) & 255)
    if acc & ((1 << bits) - 1):
        return None
    return bytes(out)


def hx(b):
    return b.hex() if b else "-"


def unhx(s):
    return b"" if s == "-" else bytes.fromhex(s)


def elen(n):
    return n // 3 * 4 + (0, 2, 3)[n % 3]


def dlen(n):
    return None if n % 4 == 1 else n // 4 * 3 + (0, 0, 1, 2)[n % 4]


def gen(tier, seed):
    rnd = random.Random(seed)
    cases = []
    dist = collections.Counter()
    # --- encoder: every byte string of length <= 2 (thorough: <= 3 over a 64-value byte set + all of length 2)
    for n in (0, 1, 2):
        for t in itertools.product(range(256), repeat=n):
            cases.append("b64encbuf\t%s\t%d" % (hx(bytes(t)), elen(n)))
            dist["enc exhaustive len<=2"] += 1
    sub = [0, 1, 2, 3, 15, 16, 63, 64, 127, 128, 191, 192, 252, 253, 254, 255]
    for t in itertools.product(sub, repeat=3):
        cases.append("b64encbuf\t%s\t%d" % (hx(bytes(t)), 4))
        dist["enc len3 over 16 boundary bytes"] += 1
    # --- decoder: every text of length <= 4 over 12 alphabet symbols + 8 foreign bytes
    syms = [ord(c) for c in "AQgwBZ0_-f9k"] + [ord("="), ord("+"), ord("/"), 32, 10, 0, 0x80, 0xFF]
    for n in range(0, 5):
        for t in itertools.product(syms, repeat=n):
            tb = bytes(t)
            d = dlen(n)
            cases.append("b64decbuf\t%s\t%d" % (hx(tb), d if d is not None else 3))
            dist["dec exhaustive len<=4 over 20 symbols"] += 1
    # all final characters x all lengths 2,3 mod 4 (non-zero trailing bits)
    for c0 in ALPHA:
        for c1 in ALPHA:
            cases.append("b64decbuf\t%s\t1" % hx(("A" + c1).encode()))
            cases.append("b64decbuf\t%s\t2" % hx((c0 + "B" + c1).encode()))
            dist["dec trailing-bit sweep"] += 2
    # every single byte value at every position of a 4/6/7 character text
    for base in (b"TWFu", b"TWFuTQ", b"TWFuTWE"):
        for pos in range(len(base)):
            for v in range(256):
                t = bytearray(base)
                t[pos] = v
                cases.append("b64decbuf\t%s\t%d" % (hx(bytes(t)), dlen(len(base))))
                dist["dec every byte value at every position"] += 1
    # --- output sizes 0..needed+1 and the size query
    for n in range(0, 14):
        data = bytes(rnd.randrange(256) for _ in range(n))
        for ol in list(range(0, elen(n) + 2)) + ["NULL"]:
            cases.append("b64encbuf\t%s\t%s" % (hx(data), ol))
            dist["enc ol sweep"] += 1
        text = py_enc(data)
        for ol in list(range(0, n + 2)) + ["NULL"]:
            cases.append("b64decbuf\t%s\t%s" % (hx(text), ol))
            dist["dec ol sweep"] += 1
        # rejected half way with a buffer that is large enough: partial writes stay in bounds
        if n >= 4:
            bad = bytearray(text)
            bad[len(bad) - 1] = ord("=")
            for ol in (n, n + 1, n + 7):
                cases.append("b64decbuf\t%s\t%d" % (hx(bytes(bad)), ol))
                dist["dec rejected late"] += 1
    # --- random, biased to the internal boundaries
    nrand = 3000 if tier == "quick" else 40000
    classes = [0, 1, 2, 3, 4, 5, 47, 48, 49, 63, 64, 65, 95, 96, 97, 191, 192, 193, 1023, 1024, 1025, 4095, 4096, 4097]
    big = [65535, 65536, 65537]
    for i in range(nrand):
        r = rnd.random()
        if r < 0.55:
            n = rnd.randrange(0, 80)
        elif r < 0.97:
            n = rnd.choice(classes)
        else:
            n = rnd.choice(big) if i % 7 == 0 else rnd.choice(classes)
        data = bytes(rnd.getrandbits(8) for _ in range(n))
        dist["random len class %s" % ("<80" if n < 80 else "<=4097" if n < 5000 else "64KiB")] += 1
        cases.append("b64encbuf\t%s\t%d" % (hx(data), elen(n) + rnd.choice((0, 0, 1, 5))))
        text = bytearray(py_enc(data))
        m = rnd.random()
        if m < 0.5 or not text:
            pass
        elif m < 0.65:
            text[rnd.randrange(len(text))] = rnd.choice([61, 43, 47, 32, 0, 10, 13, 9, 0x80, 0xC3, 255, 46, 44])
        elif m < 0.8:
            text[-1] = ord(rnd.choice(ALPHA))      # maybe non-canonical tail
        elif m < 0.9:
            text.append(ord(rnd.choice(ALPHA)))    # maybe 1 mod 4 / non-canonical
        else:
            del text[rnd.randrange(len(text))]
        d = dlen(len(text))
        ol = (d if d is not None else len(text)) + rnd.choice((0, 0, 0, 1, 3))
        if rnd.random() < 0.05 and d:
            ol = d - 1
        cases.append("b64decbuf\t%s\t%s" % (hx(bytes(text)), ol))
    # ---- the streaming forms must agree with the one-shot form for every split into feeds: all two-feed splits of
    #      texts longer than the stages' internal blocks (a carry of 1..3 characters followed by a long feed)
    for n in (100, 150) if tier == "quick" else (100, 150, 1000):
        data = bytes(rnd.getrandbits(8) for _ in range(n))
        text = py_enc(data)
        for cut in range(0, len(text) + 1):
            cases.append("chain\tb64dec(malloc)\t%s\t%s" % (",".join(str(x) for x in (cut, len(text) - cut)), hx(text)))
            dist["streaming decode: two-feed splits"] += 1
        for cut in range(0, n + 1):
            cases.append("chain\tb64enc(malloc)\t%s\t%s" % (",".join(str(x) for x in (cut, n - cut)), hx(data)))
            dist["streaming encode: two-feed splits"] += 1
    # ---- ... also for texts the one-shot decoder REFUSES: a length of 1 mod 4, a character outside the alphabet at any
    #      position (the last one included), non-zero trailing bits -- whatever the split, the stream must not end in success
    bad_texts = []
    for n in (0, 1, 2, 3, 6, 47, 48, 49, 64, 65, 96, 100):
        good = py_enc(bytes(rnd.getrandbits(8) for _ in range(n)))
        for extra in (b"A", b"=", b"+", b"/", b"\n", b"\x00", b"Z"):
            bad_texts.append(good + extra if (len(good) + 1) % 4 == 1 or extra not in (b"A", b"Z") else good[:-1] + b"=")
        if len(good) >= 2:
            pos = rnd.randrange(len(good))
            bad_texts.append(good[:pos] + b"*" + good[pos + 1:])
            if len(good) % 4 == 2:
                bad_texts.append(good[:-1] + bytes([ALPHA.encode()[(ALPHA.encode().index(good[-1]) | 1) % 64]]))
    for text in bad_texts:
        if py_dec(text) is not None:
            continue
        L = len(text)
        for ch in {str(L), ",".join(["1"] * L) if L <= 70 else "%d,%d" % (L - 1, 1), "%d,%d" % (L - 1, 1), "%d,%d" % (1, L - 1) if L > 1 else str(L), "%d,%d" % (L // 2, L - L // 2)}:
            cases.append("chain\tb64dec(malloc)\t%s\t%s" % (ch, hx(text)))
            dist["streaming decode of texts the one-shot decoder refuses"] += 1
    # ---- the JSON-string, JSON-load and JSON-dump forms must agree with the raw-buffer form
    def jstr(b):
        # JSON text of a string holding exactly these bytes (all < 0x80 here; NUL and controls escaped)
        return '"' + "".join(("\\u%04x" % c) if (c < 32 or c in (34, 92) or c == 127) else chr(c) for c in b) + '"'
    jt = [b"", b"Zg", b"Zm8", b"Zm9v", b"Zm9vYg", b"Zm9vYmE", b"Zm9vYmFy", b"Zh", b"Zm9", b"Z", b"Zm9vY", b"Zm9v=", b"Zm+v", b"Zm/v", b"Zm 9v"]
    # embedded NUL: a valid prefix followed by NUL and more text (valid or not), NUL alone, NUL first
    for pre in (b"Zm9v", b"Zg", b"MTIz", b""):
        for suf in (b"", b"!!", b"Zm9v", b" trailing junk +/=", b"A"):
            jt.append(pre + b"\x00" + suf)
    for _ in range(40 if tier == "quick" else 400):
        n = rnd.randrange(0, 40)
        t = bytearray(ord(rnd.choice(ALPHA)) for _ in range(n))
        if t and rnd.random() < 0.4:
            t[rnd.randrange(len(t))] = rnd.choice([0, 0, 1, 10, 32, 43, 47, 61, 126])
        jt.append(bytes(t))
    for t in jt:
        need = dlen(len(t))
        for ol in ("NULL", 0, (need or 0), (need or 0) + 2, max(0, (need or 0) - 1)):
            cases.append("b64dec\t%s\t%s" % (jstr(t), ol))
            dist["JSON-string form"] += 1
        cases.append("b64load\t%s" % jstr(t))
        dist["JSON-load form"] += 1
    for v in ('5', 'null', 'true', '[]', '{}', '["Zm9v"]', '{"a":"Zm9v"}', '1.5'):
        cases.append("b64dec\t%s\tNULL" % v)
        cases.append("b64dec\t%s\t8" % v)
        cases.append("b64load\t%s" % v)
        dist["JSON forms: non-string value"] += 3
    # load: encodings of JSON texts (valid, invalid, with trailing garbage, with an embedded NUL)
    for txt in (b'{"a":1}', b'[1,2,3]', b'"s"', b'5', b'{"a":1} ', b'{"a":1}x', b'{"a":1}\x00', b'\x00{"a":1}', b'{"a":"\\u0000"}', b'', b'nul', b'{"a":1,"a":2}', b'{"k":"' + b"v" * 100 + b'"}'):
        cases.append("b64load\t%s" % jstr(py_enc(txt)))
        dist["JSON-load form"] += 1
    for _ in range(30 if tier == "quick" else 300):
        data = bytes(rnd.getrandbits(8) for _ in range(rnd.randrange(0, 70)))
        cases.append("b64enc\t%s" % (hx(data) if data else "-"))
        dist["JSON-encode form"] += 1
    for n in (400, 500, 505, 510, 511, 512, 513, 520, 600, 1023, 1024, 1025, 4096, 5000) + ((70000,) if tier != "quick" else ()):
        # documents around and beyond every plausible internal buffer size: {"kid":"xxxx..."} of exactly n octets when dumped
        doc = '{"kid":"%s"}' % ("x" * (n - 10))
        cases.append("b64dump\t%s" % doc)
        cases.append("b64load\t%s" % jstr(py_enc(doc.encode())))
        dist["JSON-dump / load form: large documents"] += 2
    for v in ('{"b":1,"a":[true,null,"x"]}', '[]', '{}', '"str"', '5', '{"k":"\\u0000"}'):
        cases.append("b64dump\t%s" % v)
        dist["JSON-dump form"] += 1
    return cases, dict(dist)


def parse_out(o):
    f = o.split(" ")
    return f


def json_oracle(case, out):
    import json as _json
    f = case.split("\t")
    cmd = f[0]
    if cmd == "b64enc":
        data = unhx(f[1]) if f[1] != "-" else b""
        if out != _json.dumps(py_enc(data).decode()):
            return ("enc-json-wrong", "jose_b64_enc differs from the raw-buffer encoding")
        return None
    if cmd == "b64dump":
        v = _json.loads(f[1])
        if not isinstance(v, (dict, list)):
            return None       # scalars: json_dumps without JSON_ENCODE_ANY refuses them
        want = _json.dumps(py_enc(_json.dumps(v, separators=(",", ":"), sort_keys=True).encode()).decode())
        if out != want:
            return ("dump-json-wrong", "jose_b64_enc_dump is not the encoding of the compact sorted dump")
        return None
    try:
        v = _json.loads(f[1])
    except Exception:
        return None
    if not isinstance(v, str):
        if cmd == "b64dec" and not out.startswith("MAX"):
            return ("dec-json-nonstring", "jose_b64_dec accepts a JSON value that is not a string")
        if cmd == "b64load" and out != "ERR":
            return ("load-json-nonstring", "jose_b64_dec_load accepts a JSON value that is not a string")
        return None
    text = v.encode()      # the exact bytes of the JSON string, embedded NUL included
    want = py_dec(text)
    if cmd == "b64dec":
        need = dlen(len(text))
        o = out.split(" ")
        if f[2] == "NULL":
            exp = "MAX" if need is None else str(need)
            if o[0] != exp:
                return ("dec-json-query", "JSON-string form: size query %s, the raw-buffer form says %s for this text (%d characters)" % (o[0], exp, len(text)))
            return None
        ol = int(f[2])
        if len(o) < 3 or o[2] != "canary-ok":
            return ("dec-json-canary", "JSON-string form writes beyond the stated output size")
        buf = unhx(o[1])
        if need is None or ol < need or want is None:
            if o[0] != "MAX":
                return ("dec-json-accepts", "JSON-string form accepts a text the raw-buffer form rejects (not a canonical encoding / output too small)")
        elif o[0] != str(len(want)) or buf[:len(want)] != want:
            return ("dec-json-wrong", "JSON-string form decodes differently from the raw-buffer form")
        return None
    if cmd == "b64load":
        if want is None and out != "ERR":
            return ("load-json-accepts", "jose_b64_dec_load accepts a text the raw-buffer form rejects")
        if want is not None and out != "ERR":
            try:
                ok = _json.loads(want.decode("utf-8")) if b"\x00" not in want else None
            except Exception:
                ok = None
            if ok is None and want.strip() not in (b"null",):
                return ("load-json-invalid", "jose_b64_dec_load returns a value for bytes that are not a JSON text")
        return None
    return None


def oracle(case, out):
    f = case.split("\t")
    if out.startswith("CRASH"):
        return ("crash:" + out[:80], "implementation crashed or sanitizer report: " + out)
    if f[0] in ("b64dec", "b64load", "b64enc", "b64dump"):
        return json_oracle(case, out)
    if f[0] == "chain":
        data = unhx(f[3])
        want = py_dec(data) if f[1].startswith("b64dec") else py_enc(data)
        o = out.split(" ")
        if want is None:
            if len(o) >= 2 and o[1] == "T":
                return ("stream-accepts-what-oneshot-refuses", "the streaming decoder fed as %s ends in success for a text the one-shot decoder refuses (it delivered %s)" % (f[2], o[2] if len(o) > 2 else ""))
            return None
        if len(o) < 3 or o[1] != "T" or unhx(o[2]) != want:
            return ("stream-differs-from-oneshot:" + f[1].split("(")[0], "the streaming %s fed as %s delivers something else than the one-shot codec" % (f[1].split("(")[0], f[2]))
        return None
    cmd, data, ol = f[0], unhx(f[1]), f[2]
    o = out.split(" ")
    if cmd == "b64encbuf":
        want = py_enc(data)
        if ol == "NULL":
            if o[0] != str(len(want)):
                return ("enc-query", "size query %s but a real call writes %d" % (o[0], len(want)))
            return None
        ol = int(ol)
        if len(o) < 3 or o[2] != "canary-ok":
            return ("enc-canary", "write beyond the stated output size")
        buf = unhx(o[1])
        if ol < len(want):
            if o[0] != "MAX" or buf != b"\xa5" * ol:
                return ("enc-small", "output too small not reported cleanly")
        else:
            if o[0] != str(len(want)) or buf[:len(want)] != want or buf[len(want):] != b"\xa5" * (ol - len(want)):
                return ("enc-wrong", "encoding differs from RFC 4648 base64url")
    elif cmd == "b64decbuf":
        want = py_dec(data)
        need = dlen(len(data))
        if ol == "NULL":
            exp = "MAX" if need is None else str(need)
            if o[0] != exp:
                return ("dec-query", "size query %s, expected %s" % (o[0], exp))
            return None
        ol = int(ol)
        if len(o) < 3 or o[2] != "canary-ok":
            return ("dec-canary", "write beyond the stated output size")
        buf = unhx(o[1])
        if need is None or ol < need:
            if o[0] != "MAX" or buf != b"\xa5" * ol:
                return ("dec-small", "impossible length / output too small not reported cleanly")
        elif want is None:
            if o[0] != "MAX":
                return ("dec-accepts", "decoder accepts text that is not a canonical encoding")
        else:
            if o[0] != str(len(want)) or buf[:len(want)] != want or buf[len(want):] != b"\xa5" * (ol - len(want)):
                return ("dec-wrong", "decoding differs from RFC 4648 base64url")
            if py_enc(want) != data:
                return ("dec-noncanonical", "accepted text does not re-encode to itself")
    return None


def nontrivial(case, out):
    f = case.split("\t")
    return f[1] not in ("-", '""') and not out.startswith("CRASH")


def correspond(ctx):
    cases, dist = gen(ctx["tier"], ctx["seed"])
    st = runner.standard(
        ctx, cases, oracle, nontrivial,
        rule="enumerated + seeded random b64encbuf/b64decbuf calls on canaried buffers, and the JSON-string / JSON-load / JSON-encode / JSON-dump forms on the same kind of texts (including JSON strings with embedded NUL, non-string values, encodings of invalid JSON); a case is non-trivial when its input is non-empty; distinct = distinct case lines",
        dist=dist,
        exhaustive_subspaces=["encode: all byte strings of length <= 2", "decode: all texts of length <= 4 over 12 alphabet symbols + 8 foreign bytes",
                              "decode: every byte value at every position of 3 base texts", "output sizes 0..needed+1 for lengths 0..13"])
    return st
