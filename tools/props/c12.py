"""C12 thumbprints (RFC 7638) and key equality."""
import base64
import collections
import hashlib
import itertools
import json
import os
import random

import runner
import vlib

PID = "C12"
PROP_FILE = "Props/Properties_C12.v"
LEVEL = "proof"
ASSUMPTIONS = [
    "C12: 'equality coincides with equality of thumbprints' is proved as: equality is decided by the thumbprint input's members (C12_eql_spec, C12_input) and is an equivalence; that equal inputs dump to equal text and that distinct inputs hash differently (dump injectivity, SHA collision-freeness) are NOT proved -- the correspondence compares thumbprints of equal/unequal pairs",
    "C12: SHA-1/2 are the Gallina implementations of coq/Crypto/Sha.v (validated on FIPS vectors and by this correspondence against OpenSSL)",
    "C12: the jose/openssl.h conversions are modelled in coq/Jwk/Conv.v with the OpenSSL key object abstracted to a record of numbers; the OpenSSL / libc / jansson behaviours the model ASSUMES are listed as (O1)-(O9), (J1) at the top of that file (BN_bin2bn / BN_bn2bin conventions, RSA_set0_* requiring complete groups, EVP_PKEY set1/get0 handing back the same object, EC_POINT_set_affine_coordinates reducing mod p, raw HMAC key retrieval); EC_KEY_check_key is a Section variable about which nothing is assumed (the extracted driver uses the check that accepts everything: the correspondence offers keys OpenSSL accepts, or keys refused before that check); agreement is checked on every osslrt line of the run",
]

REQ = {"oct": ["k"], "RSA": ["e", "n"], "EC": ["crv", "x", "y"]}
HASHES = {"S1": "sha1", "S224": "sha224", "S256": "sha256", "S384": "sha384", "S512": "sha512"}


def dumps(v):
    return json.dumps(v, separators=(",", ":"), sort_keys=True, ensure_ascii=False)


def gen_keys(rnd, n):
    vals = ["AQAB", "", "x", "0vx7agoebGcQSuuPiLJXZptN9nndrQmbXEps2aiAFbWhM78LhWx4", "P-256", "é", "a\"b\\c", "line\nbreak", "\u0001", "日本", "tab\t",
            5, None, True, [1], {"a": 1}, 1.5, "sp ace", "/slash", "\u007f"]
    keys = []
    for _ in range(n):
        kty = rnd.choice(["oct", "RSA", "EC", "EC", "RSA", "rsa", "Ec", "OCT", "unknown", 5, None])
        j = {}
        if kty is not None:
            j["kty"] = kty
        base = REQ.get(str(kty).upper() if str(kty).upper() in ("RSA", "EC") else str(kty).lower(), ["k"])
        for m in base:
            r = rnd.random()
            if r < 0.8:
                j[m] = rnd.choice(vals[:11]) if rnd.random() < 0.85 else rnd.choice(vals)
        for m in rnd.sample(["d", "p", "q", "kid", "alg", "use", "key_ops", "x5t", "zz", "dp"], rnd.randint(0, 4)):
            j[m] = rnd.choice(vals)
        keys.append(j)
    # type names that are NOT registered but lie next to a registered one (prefix, suffix, one character more or less),
    # carrying every required member of that neighbour: unknown type -- no thumbprint, equal to nothing
    near = {"oct": ["octet", "oct ", " oct", "oc", "octt", "o", "oct-", "0ct"], "RSA": ["RSA-PSS", "RSAx", "RS", "xRSA", "RSA ", "R"],
            "EC": ["EC2", "ECC", "E", "xEC", "EC ", "ECDH", "OKP"]}
    for t, names in near.items():
        for nm in names:
            j = {"kty": nm}
            for m in REQ[t]:
                if m != "kty":
                    j[m] = "P-256" if m == "crv" else rnd.choice(["AQAB", "0vx7agoebGcQSuuPiLJXZptN9nndrQmbXEps2aiAFbWhM78LhWx4"])
            keys.append(j)
    return keys


def shuffled(rnd, d):
    items = list(d.items())
    rnd.shuffle(items)
    return dict(items)


def gen(tier, seed):
    rnd = random.Random(seed)
    cases = []
    dist = collections.Counter()
    keys = gen_keys(rnd, 250 if tier == "quick" else 3000)
    # RFC 7638 example
    rfc = {"kty": "RSA", "n": "0vx7agoebGcQSuuPiLJXZptN9nndrQmbXEps2aiAFbWhM78LhWx4cbbfAAtVT86zwu1RK7aPFFxuhDR1L6tSoc_BJECPebWKRXjBZCiFV4n3oknjhMstn64tZ_2W-5JsGY4Hc5n9yBXArwl93lqt7_RN5w6Cf0h4QyQ5v-65YGjQR0_FDW2QvzqY368QQMicAtaSqzs8KJZgnYb9c7d0zgdAZHzu6qMQvRL5hajrn1n91CbOpbISD08qNLyrdkt-bFTWhAI4vMQFh6WeZu0fM4lFd2NcRwr3XPksINHaQ-G_xBniIqbw0Ls1jF44-csFCur-kEgU8awapJzKnqDKgw", "e": "AQAB", "alg": "RS256", "kid": "2011-04-29"}
    keys.insert(0, rfc)
    for j in keys:
        for h in list(HASHES) + (["S2", ""] if rnd.random() < 0.1 else []):
            if rnd.random() < 0.4 or j is rfc:
                cases.append("thp\t%s\t%s" % (dumps(j), h))
                cases.append("thp\t%s\t%s" % (dumps(shuffled(rnd, j)), h))
                dist["thp string form"] += 2
        h = rnd.choice(list(HASHES))
        hl = hashlib.new(HASHES[h]).digest_size
        for ln in ["NULL", 0, 1, hl - 1, hl, hl + 1, 65]:
            if rnd.random() < 0.5 or j is rfc:
                cases.append("thpbuf\t%s\t%s\t%s" % (dumps(j), h, ln))
                dist["thp buffer form (sizes 0..65, query)"] += 1
    # equality: pairs and triples (variants of the same key + unrelated keys)
    def variant(j):
        v = dict(j)
        r = rnd.random()
        if r < 0.12 and isinstance(v.get("kty"), str):
            # same members, kty spelled in another letter case: same registered type, DIFFERENT thumbprint input
            k = v["kty"]
            v["kty"] = rnd.choice([k.upper(), k.lower(), k.swapcase(), k.capitalize()])
        elif r < 0.3:
            v = shuffled(rnd, v)
        elif r < 0.5:
            v["extra%d" % rnd.randint(0, 9)] = rnd.choice([1, "x", None])
        elif r < 0.65:
            for m in ("d", "p", "q", "kid"):
                v.pop(m, None)
        elif r < 0.8 and v:
            m = rnd.choice(list(v))
            v[m] = "changed"
        elif r < 0.9 and v:
            v.pop(rnd.choice(list(v)))
        return v
    for _ in range(600 if tier == "quick" else 8000):
        a = rnd.choice(keys)
        b = variant(a) if rnd.random() < 0.7 else rnd.choice(keys)
        c = variant(b) if rnd.random() < 0.7 else rnd.choice(keys)
        for x, y in ((a, b), (b, a), (b, c), (a, c), (a, a)):
            cases.append("eql\t%s\t%s" % (dumps(x), dumps(y)))
            dist["eql pairs/triples"] += 1
    # member values that agree up to an embedded NUL (a JSON string may hold one) and differ behind it, in content or length:
    # different thumbprint inputs, hence unequal keys -- and equal when the whole strings are equal
    nulk = [({"kty": "oct", "k": "AAEC\u0000Aw"}, "k"), ({"kty": "RSA", "e": "AQAB", "n": "0vx7\u0000agoeb"}, "n"), ({"kty": "RSA", "e": "AQ\u0000AB", "n": "0vx7agoeb"}, "e"),
            ({"kty": "EC", "crv": "P-256", "x": "MKBC\u0000TNIc", "y": "4Etl6SRW"}, "x"), ({"kty": "EC", "crv": "P-256\u0000", "x": "MKBCTNIc", "y": "4Etl6SRW"}, "crv")]
    for j, m in nulk:
        head = j[m].split("\u0000")[0]
        for other in (head + "\u0000different", head + "\u0000", head, j[m] + "x", j[m]):
            j2 = dict(j, **{m: other})
            for x, y in ((j, j2), (j2, j)):
                cases.append("eql\t%s\t%s" % (dumps(x), dumps(y)))
                dist["eql: values with an embedded NUL"] += 1
        cases.append("thp\t%s\tS256" % dumps(j))
    for x in ([], "s", 5, None, {}):
        cases.append("eql\t%s\t%s" % (dumps(x), dumps(rfc)))
        cases.append("eql\t%s\t%s" % (dumps(rfc), dumps(x)))
        cases.append("thp\t%s\tS256" % dumps(x))
        dist["non-keys"] += 3
    return cases, dict(dist)


def simple(v):
    return isinstance(v, str) and all(32 <= ord(c) < 127 and c not in '"\\' for c in v)


def py_thp_input(j):
    if not isinstance(j, dict) or not isinstance(j.get("kty"), str):
        return None
    t = {"oct": "oct", "rsa": "RSA", "ec": "EC"}.get(j["kty"].lower())
    if t is None:
        return None
    o = {"kty": j["kty"]}
    for m in REQ[t]:
        if m not in j:
            return None
        o[m] = j[m]
    if not all(simple(v) for v in o.values()):
        return "SKIP"
    return dumps(o).encode()


class Oracle:
    def __init__(self):
        self.eql = {}

    def __call__(self, case, out):
        if out.startswith("CRASH"):
            return ("crash:" + out[:80], "crash or sanitizer report: " + out)
        f = case.split("\t")
        if f[0] == "thp":
            j = json.loads(f[1])
            inp = py_thp_input(j)
            if inp == "SKIP":
                return None
            if f[2] not in HASHES or inp is None:
                if out != "ERR":
                    return ("thp-unexpected", "thumbprint produced for a key without required members / unknown type / unknown hash")
                return None
            want = base64.urlsafe_b64encode(hashlib.new(HASHES[f[2]], inp).digest()).rstrip(b"=").decode()
            if out != '"%s"' % want:
                return ("thp-wrong:" + f[2], "thumbprint differs from RFC 7638 (%s)" % f[2])
        elif f[0] == "thpbuf":
            j = json.loads(f[1])
            inp = py_thp_input(j)
            hl = hashlib.new(HASHES[f[2]]).digest_size
            o = out.split(" ")
            if "CANARY-BROKEN" in out:
                return ("thpbuf-overflow", "thumbprint written beyond the stated buffer size")
            if f[3] in ("NULL", "0"):
                if o[0] != str(hl):
                    return ("thpbuf-query", "size query does not return the digest length")
                return None
            ln = int(f[3])
            if inp == "SKIP":
                return None
            if inp is None or ln < hl:
                if o[0] != "MAX":
                    return ("thpbuf-small", "too small buffer / key without thumbprint not reported (returned %s)" % o[0])
                return None
            d = hashlib.new(HASHES[f[2]], inp).digest()
            if o[0] != str(hl) or bytes.fromhex(o[1])[:hl] != d:
                return ("thpbuf-wrong", "buffer form differs from RFC 7638")
        elif f[0] == "eql":
            a, b = json.loads(f[1]), json.loads(f[2])
            got = out == "T"
            self.eql[(f[1], f[2])] = got
            ia, ib = py_thp_input(a), py_thp_input(b)
            if ia is None or ib is None:
                if got:
                    return ("eql-no-thp", "a key without thumbprint compares equal to something")
                return None
            if ia == "SKIP" or ib == "SKIP":
                return None
            if got != (ia == ib):
                return ("eql-vs-thp", "equality (%s) disagrees with equality of thumbprint inputs" % got)
            rev = self.eql.get((f[2], f[1]))
            if rev is not None and rev != got:
                return ("eql-asym", "equality is not symmetric")
        return None


def nontrivial(case, out):
    return out not in ("ERR", "F") and not out.startswith("MAX")


def openssl_roundtrip(ctx, dist):
    """JWK -> OpenSSL key object -> JWK keeps every key member, hence thumbprint and equality (implementation only).
    EC keys are built by independent python arithmetic so that coordinates / private values with a leading zero
    octet (one key in 128; every second one on P-521) are certainly among them."""
    import jwsgen as G
    import pyec
    rep = ctx["rep"]
    bdir = ctx["bdir"]
    rnd = random.Random(ctx["seed"] + 12)
    J = G.dumps
    keys = []
    for crv, c in pyec.CURVES.items():
        want = {"x0": None, "y0": None, "d0": None, "plain": None}
        tries = 0
        while any(v is None for v in want.values()) and tries < 3000:
            tries += 1
            d = rnd.randrange(1, c["n"]) if want["d0"] is not None or tries % 3 else rnd.randrange(1, c["n"] >> 8)
            x, y = pyec.mul(c, d, pyec.base(c))
            sz = c["size"]
            xb, yb, db = x.to_bytes(sz, "big"), y.to_bytes(sz, "big"), d.to_bytes(sz, "big")
            k = {"kty": "EC", "crv": crv, "x": G.b64(xb), "y": G.b64(yb), "d": G.b64(db)}
            if xb[0] == 0 and want["x0"] is None:
                want["x0"] = k
            elif yb[0] == 0 and want["y0"] is None:
                want["y0"] = k
            elif db[0] == 0 and want["d0"] is None:
                want["d0"] = k
            elif xb[0] and yb[0] and db[0] and want["plain"] is None:
                want["plain"] = k
        for tag, k in want.items():
            if k is not None:
                keys.append(("EC %s %s" % (crv, tag), k))
                keys.append(("EC %s %s public" % (crv, tag), G.pub_of(k)))
    try:
        rsa = json.load(open(os.path.join(os.path.dirname(__file__), "..", "data", "rsa_small.json")))
        for b in ("2048", "2049", "1024"):
            keys.append(("RSA %s" % b, rsa[b]))
            keys.append(("RSA %s public" % b, G.pub_of(rsa[b])))
    except Exception:
        pass
    # symmetric keys go through EVP_PKEY (an HMAC key) as well: every octet string comes back, leading zero octets included
    rnd_o = random.Random(ctx["seed"] + 5)
    for n in (1, 2, 16, 20, 32, 48, 64, 65, 255, 1024):
        for lead in (False, True):
            kb = bytes(rnd_o.getrandbits(8) for _ in range(n))
            if lead:
                kb = b"\x00" + kb[1:]
            keys.append(("oct %d octets%s" % (n, " leading zero" if lead else ""), {"kty": "oct", "k": G.b64(kb)}))
    keys.append(("oct with metadata", {"kty": "oct", "k": G.b64(b"sixteen byte key"), "alg": "HS256"}))
    # RSA: every subset of the factor / CRT members (an incomplete p,q pair or dp,dq,qi triple must be REFUSED, never
    # converted with members dropped), members with a leading zero octet (value kept, text renormalised), short EC
    # coordinates (padded), other type spellings, non-key members, "oth"
    edge = []
    try:
        rk = rsa[sorted(rsa)[0]]
        base = {m: rk[m] for m in ("kty", "n", "e", "d")}
        grp = ["p", "q", "dp", "dq", "qi"]
        for bits in range(32):
            sub = [g for i, g in enumerate(grp) if bits >> i & 1]
            edge.append(("RSA subset " + "+".join(sub), dict(base, **{g: rk[g] for g in sub})))
        edge.append(("RSA n with a leading zero octet", dict(G.pub_of(rk), n=G.b64(b"\x00" + G.unb64(rk["n"])))))
        edge.append(("RSA e with a leading zero octet", dict(G.pub_of(rk), e=G.b64(b"\x00" + G.unb64(rk["e"])))))
        edge.append(("RSA with oth", dict(rk, oth=[])))
        edge.append(("RSA with metadata", dict(rk, alg="RS256", kid="k", use="sig")))
        edge.append(("rsa lower case", dict(G.pub_of(rk), kty="rsa")))
        edge.append(("RSA e zero", dict(G.pub_of(rk), e="AA")))
        edge.append(("RSA without e", {"kty": "RSA", "n": rk["n"]}))
    except Exception:
        pass
    for tag, k in list(keys):
        if tag.startswith("P-256") and tag.endswith("x0 public"):
            xb = G.unb64(k["x"])
            edge.append(("EC short x", dict(k, x=G.b64(xb.lstrip(b"\x00")))))
    edge.append(("oct empty", {"kty": "oct", "k": ""}))
    edge.append(("OCT upper case", {"kty": "OCT", "k": "AAEC"}))
    edge.append(("unknown type", {"kty": "OKP", "crv": "Ed25519", "x": "AAEC"}))
    ecases = ["osslrt\t%s" % J(k) for _, k in edge]
    eouts = G.harness(bdir, ecases)
    for (tag, k), c, o in zip(edge, ecases, eouts):
        if o.startswith("CRASH"):
            rep.violation("ossl-roundtrip:crash", "crash: " + o[:200], {"case": c})
            continue
        for route, txt in zip(("EVP_PKEY", "EC_KEY/RSA"), o.split("\t")):
            if txt in ("-", "ERR"):
                continue
            back = json.loads(txt)
            lost = [m for m in k if m in ("n", "e", "d", "p", "q", "dp", "dq", "qi", "oth", "crv", "x", "y", "k") and m not in back]
            if lost:
                rep.violation("ossl-roundtrip:member-dropped:%s:%s" % (k.get("kty"), ",".join(lost)),
                              "%s: JWK -> %s -> JWK succeeds but the key member(s) %s present in the input are missing from the result" % (tag, route, ",".join(lost)),
                              {"case": c, "implementation": txt[:600]})
    dist["OpenSSL round trips: RSA member subsets, leading zeros, spellings, oth"] = len(ecases)
    cases = ["osslrt\t%s" % J(k) for _, k in keys]
    outs = G.harness(bdir, cases)
    # the same lines on the Gallina model of the conversions (coq/Jwk/Conv.v), with the point check that accepts all
    if ctx.get("driver"):
        mo = vlib.run_cases(ctx["driver"], cases + ecases)
        for c, oi, om in zip(cases + ecases, outs + eouts, mo):
            if oi != om and not oi.startswith("CRASH"):
                ctx.setdefault("conv_disagreements", []).append({"case": c[:1500], "implementation": oi[:600], "model": om[:600]})
        dist["OpenSSL round trips also run on the conversion model"] = len(mo)
    thp = G.harness(bdir, ["thp\t%s\tS256" % J(k) for _, k in keys])
    recheck = []
    for (tag, k), c, o in zip(keys, cases, outs):
        if o.startswith("CRASH"):
            rep.violation("ossl-roundtrip:crash", "crash: " + o[:200], {"case": c})
            continue
        for route, txt in zip(("EVP_PKEY", "EC_KEY/RSA"), o.split("\t")):
            if txt == "-":
                continue
            if txt == "ERR":
                rep.violation("ossl-roundtrip:failed:%s:%s" % (route, tag.split(" ")[0]), "%s: conversion through %s failed for a valid key" % (tag, route), {"case": c})
                continue
            back = json.loads(txt)
            diff = [m for m in k if m != "alg" and back.get(m) != k[m]]
            if diff:
                rep.violation("ossl-roundtrip:member-changed:%s:%s" % (route, tag.split(" ")[0]),
                              "%s: after JWK -> %s -> JWK the member(s) %s differ (e.g. %s: %s -> %s): thumbprint and equality are not preserved" %
                              (tag, route, ",".join(diff), diff[0], str(k[diff[0]])[:30], str(back.get(diff[0]))[:30]), {"case": c, "implementation": txt[:600]})
            recheck.append((tag, k, back))
    eq = G.harness(bdir, ["eql\t%s\t%s" % (J(k), J(b)) for _, k, b in recheck])
    for (tag, k, b), o in zip(recheck, eq):
        if o != "T":
            rep.violation("ossl-roundtrip:not-equal:" + tag.split(" ")[0], "%s: the key that comes back from OpenSSL is not jose_jwk_eql to the original" % tag, {"key": J(k), "back": J(b)})
    dist["OpenSSL round trips (EC keys with leading-zero x / y / d on four curves, RSA, oct keys of 1..1024 octets)"] = len(cases)
    return len(cases) + len(recheck)


def correspond(ctx):
    cases, dist = gen(ctx["tier"], ctx["seed"])
    nrt = openssl_roundtrip(ctx, dist)
    st = standard_part(ctx, cases, dist)
    for d_ in ctx.get("conv_disagreements", []):
        st["disagreements"] += 1
        st["first_disagreements"].append(d_)
        ctx["rep"].violation("ossl-roundtrip:model-differs", "JWK -> OpenSSL -> JWK: the implementation and the conversion model (coq/Jwk/Conv.v) give different results",
                             dict(d_))
    st["evaluations"] += nrt
    return st


def on_disagree(case, impl, model):
    f = case.split("\t")
    if f[0] == "eql" and impl == "T" and model == "F":
        return ("eql-accepts-different-keys", "jose_jwk_eql reports two keys equal whose required members differ (the thumbprint inputs of the model differ)")
    if f[0] == "eql" and impl == "F" and model == "T":
        return ("eql-rejects-equal-keys", "jose_jwk_eql reports two keys different whose required members are equal")
    if f[0] in ("thp", "thpbuf") and impl != model:
        return ("thp-differs-from-rfc7638", "the thumbprint differs from the digest of the RFC 7638 input computed by the model")
    return None


def standard_part(ctx, cases, dist):
    return runner.standard(
        ctx, cases, Oracle(), nontrivial, on_disagree=on_disagree,
        rule="JWK -> OpenSSL -> JWK round trips (both routes) of EC keys with leading-zero coordinates and RSA keys: members, thumbprint and equality preserved; jose_jwk_thp / _thp_buf / _eql on generated keys (all types, kty spellings (incl. pairs that differ ONLY in the letter case of kty), missing/extra members, member orders, non-ASCII and escape-needing values, non-string values), all five hash names + unknown ones, buffer sizes around the digest length, pairs and triples for the relation laws; non-trivial = a thumbprint was produced / keys compared equal",
        dist=dist)
