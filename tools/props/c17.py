"""C17 no hidden state: configuration contexts are isolated (A), read-only calls leave their JSON
arguments untouched (B), calls are re-entrant (C)."""
import base64
import collections
import copy
import itertools
import json
import os
import random
import re
import subprocess

import runner
import vlib

PID = "C17"
PROP_FILE = "Props/Properties_C17.v"
LEVEL = "proof"
ASSUMPTIONS = [
    "C17 (contexts): proved on the state machine of Cfg/Cfg.v for ALL operation histories; the machine is tied to lib/cfg.c by the correspondence (exhaustive short histories + random long ones). Use of a freed context (undefined behaviour) is not modelled: the harness never does it, the model skips such operations. Allocation failure in jose_cfg() and wrap-around of the size_t reference count are not modelled",
    "C17 (contexts): Cfg.v carries two flags for the places where the code departs from its header (jose_cfg_get_err_misc returns the handler / misc; jose_cfg_decref and jose_cfg_auto dereference / tolerate NULL). Each run probes the implementation (histories c0;s0,1,1;g0 and dN;aN) and runs the model with the flags the code exhibits; all other theorems hold for every flag setting, C17_get_misc_fixed_model needs get_returns_misc = true, C17_get_misc_refuted is about the code as it is",
    "C17 (contexts): the text printed by the default handler is compared through a 4-class model of getname(); strerror() texts are libc's (table in ocaml/d_cfg.ml for the errno values the generator uses)",
    "C17 (read-only calls): argument preservation is CHECKED DYNAMICALLY, not proved: the Gallina models of the read-only entry points work on immutable trees, where it holds by construction (C17_args_preserved_model says only that). The `pure` harness command deep-copies every argument, calls the C function and compares value (json_equal and sorted compact dump) and the reference count of every node of every argument; the model side is the specification 'one = per argument'. Only the prologues of jose_jws_hdr/jose_jwe_hdr have an ownership model (Cfg/Pure.v)",
    "C17 (read-only calls): inputs are objects produced by the library itself (HS256, RS256, A128KW, dir, ECDH-ES, multi-signature, multi-recipient) and structural mutations of them; other algorithms' unwrap/verify paths (PBES2, RSA-OAEP, AES-GCMKW, ES*, PS*) are exercised only through key mismatch",
    "C17 (threads) PARTIAL: C17_schedule_free is proved for abstract threads under a footprint premise (each thread writes only its own component; its step depends only on that component and a read-only shared one). That the C code satisfies the premise is NOT proved (no concurrent C semantics): it is checked dynamically by comparing the results of 2..16 threads with the same operation sequences run one after another, and, in the thorough tier, by ThreadSanitizer on the library's own code (OpenSSL, jansson and libc are not instrumented)",
    "C17 (threads): 'the registries of lib/hooks.c are written only by load-time constructors' and 'there is no other mutable object with static storage in lib/' are re-read from the source text on every run by a regular-expression scan of static declarations (not a clang AST scan): a new non-const static outside a constructor is reported as hidden-state (without a failing input); TSan would report a later write in the thorough tier",
]

SUBST = [None, True, 7, 1.5, "x", [1, {"a": 2}], {"a": [1]}]


def dumps(v):
    return json.dumps(v, separators=(",", ":"), sort_keys=True)


def b64(b):
    return base64.urlsafe_b64encode(b).rstrip(b"=").decode()


# ------------------------------------------------------------------------------------ part A: cfg

WITNESS = "c0;s0,1,1;g0"        # the history of C17_get_misc_refuted
CRASH_OPS = {"dN": "jose_cfg_decref", "aN": "jose_cfg_auto", "sN": "jose_cfg_set_err_func", "gN": "jose_cfg_get_err_misc"}
SMALL = ["c0", "c1", "d0", "d1", "i0", "i1", "g0", "g1", "e0,101", "e1,102", "eN,103"] + \
        ["s%d,%d,%d" % (c, h, m) for c in (0, 1) for h in (0, 1, 2) for m in (1, 2)]


SMALLER = ["c0", "c1", "d0", "d1", "g0", "g1", "e0,101", "e1,102", "eN,103", "s0,1,1", "s0,0,2", "s1,2,2", "s1,1,1"]


def cfg_gen(tier, rnd):
    dist = collections.Counter()
    hist = [WITNESS]
    for n in range(1, 5):
        for combo in itertools.product(SMALL, repeat=n):
            hist.append(";".join(combo))
    dist["cfg: all histories of length <= 4 over %d operations (2 contexts x {NULL,2 handlers} x 2 user pointers)" % len(SMALL)] = len(hist) - 1
    if tier != "quick":
        n0 = len(hist)
        for combo in itertools.product(SMALLER, repeat=5):
            hist.append(";".join(combo))
        dist["cfg: all histories of length 5 over %d operations" % len(SMALLER)] = len(hist) - n0
    # both contexts alive and registered (every handler / pointer combination), then every short continuation
    n0 = len(hist)
    for h0, m0, h1, m1 in itertools.product((0, 1, 2), (1, 2), (0, 1, 2), (1, 2)):
        pre = "c0;c1;s0,%d,%d;s1,%d,%d" % (h0, m0, h1, m1)
        for n in range(1, 3):
            for combo in itertools.product(SMALL, repeat=n):
                hist.append(pre + ";" + ";".join(combo))
    dist["cfg: two live registered contexts (36 registrations) followed by all continuations of length <= 2"] = len(hist) - n0
    codes = [0, 1, 2, 12, 13, 22, 100, 101, 102, 103, 104, 105, 106, 107, 163]
    for _ in range(1500 if tier == "quick" else 30000):
        n = rnd.randint(5, 30)
        ops = []
        live = set()
        for _ in range(n):
            k = rnd.randrange(4)
            r = rnd.random()
            if r < 0.12 or (not live and r < 0.5):
                ops.append("c%d" % k)
                live.add(k)
            elif r < 0.20:
                ops.append("i%d" % k)
            elif r < 0.30:
                ops.append(rnd.choice("da") + "%d" % k)
            elif r < 0.55:
                ops.append("s%d,%d,%d" % (k, rnd.randrange(4), rnd.randrange(6)))
            elif r < 0.70:
                ops.append("g%d" % k)
            elif r < 0.95:
                ops.append("e%d,%d" % (k, rnd.choice(codes)))
            elif r < 0.98:
                ops.append("eN,%d" % rnd.choice(codes))
            else:
                ops.append("iN")
        hist.append(";".join(ops))
        dist["cfg: random histories of length 5..30 (4 contexts, 3 handlers, 6 user pointers, 15 codes)"] += 1
    for op in ("dN", "aN", "sN,1,1", "gN"):
        hist.append(op)
        hist.append("c0;s0,1,1;e0,101;" + op + ";e0,102")
        hist.append(op + ";eN,101;c1;e1,102;g1")      # whatever NULL does, the default context must not change
        dist["cfg: NULL context handed to a function that dereferences it"] += 3
    return ["cfg\t" + h for h in hist], dist


def cfg_crash_op(h):
    for o in h.split(";"):
        if o[:2] in CRASH_OPS:
            return o[:2]
    return None


def cfg_oracle(case, out):
    """The property itself, computed without the model: who must receive each report, what
    get_err_misc must return."""
    h = case.split("\t")[1]
    if out.startswith("CRASH"):
        co = cfg_crash_op(h)
        if co == "aN":
            return ("cfg-null:jose_cfg_auto",
                    "jose_cfg_auto(&p) with p == NULL dereferences NULL (history %s): a jose_cfg_auto_t variable that was never assigned, or whose jose_cfg() failed, crashes at end of scope; every other *_auto cleanup of the library accepts NULL" % h)
        if co:
            return None     # documented to take a context; recorded in the notes, not a violation of the property
        return ("cfg-crash:" + out[:80], "crash or sanitizer report in history %s: %s" % (h, out))
    toks = out.split(" ")
    ops = h.split(";")
    if len(toks) != len(ops):
        return ("cfg-protocol", "history %s: %d operations, %d results" % (h, len(ops), len(toks)))
    held = {}
    reg = {}
    for i, (o, t) in enumerate(zip(ops, toks)):
        pre = ";".join(ops[:i + 1])
        k = o[1]
        args = o[2:].split(",")[1:] if "," in o else []
        live = held.get(k, 0) > 0
        if o[0] == "c":
            if live != (t == "!"):
                return ("cfg-protocol", "history %s: create answered %s" % (pre, t))
            if not live:
                held[k] = 1
                reg[k] = (0, 0)
            continue
        if k != "N" and not live:
            if t != "!":
                return ("cfg-protocol", "history %s: operation on a dead slot answered %s" % (pre, t))
            continue
        if o[0] == "i":
            if k != "N":
                held[k] += 1
        elif o[0] in "da":
            if k != "N":
                held[k] -= 1
        elif o[0] == "s":
            reg[k] = (int(args[0]), int(args[1]))
        elif o[0] == "g":
            want = str(reg[k][1])
            if t != want:
                got = {"?": "a pointer that is neither a registered user pointer nor a handler (the default handler's address)"}.get(t, "handler %s's address" % t[1:] if t.startswith("H") else t)
                return ("cfg-get-misc:jose_cfg_get_err_misc",
                        "jose_cfg_get_err_misc does not return the registered user pointer: after history %s it returned %s instead of the pointer %s" % (pre, got, want))
        elif o[0] == "e":
            code = args[0]
            hh, m = reg[k] if k != "N" else (0, 0)
            if hh:
                want = "h%d(%d,%s,m7)" % (hh, m, code)
                if t != want:
                    return ("cfg-err-delivery:jose_cfg_err",
                            "history %s: the report on context %s was delivered as %s, expected %s (own handler, own user pointer)" % (pre, k, t, want))
            else:
                if not (t.startswith("default(") and t.endswith("m7)")):
                    return ("cfg-err-default:jose_cfg_err",
                            "history %s: the report on context %s should have gone to the default handler, got %s" % (pre, k, t))
    return None


def cfg_normalize(case, out):
    if out.startswith("CRASH") and cfg_crash_op(case.split("\t")[1]):
        return "CRASH"
    return out


# ------------------------------------------------------------------------------------ part B: pure

PURE_ARGS = {"ver": [2, 3, 4], "dec": [2, 3, 4], "dec_jwk": [2, 3, 4], "jwe_hdr": [2, 3], "dec_cek": [2, 3], "eql": [2, 3],
             "exc": [2, 3], "jws_hdr": [2], "thp": [2], "thp_buf": [2], "prm": [2], "b64_dec": [2], "b64_dec_load": [2],
             "b64_enc_dump": [2], "sig_tmpl": [3, 4], "encjwk_tmpl": [3, 4]}
PURE_CALL = {"ver": "jose_jws_ver", "dec": "jose_jwe_dec", "dec_jwk": "jose_jwe_dec_jwk", "jwe_hdr": "jose_jwe_hdr",
             "dec_cek": "jose_jwe_dec_cek", "eql": "jose_jwk_eql", "exc": "jose_jwk_exc", "jws_hdr": "jose_jws_hdr",
             "thp": "jose_jwk_thp", "thp_buf": "jose_jwk_thp_buf", "prm": "jose_jwk_prm", "b64_dec": "jose_b64_dec",
             "b64_dec_load": "jose_b64_dec_load", "b64_enc_dump": "jose_b64_enc_dump",
             "sig_tmpl": "jose_jws_sig (key array, one template)", "encjwk_tmpl": "jose_jwe_enc_jwk (key array, one template)"}


def materials(bdir):
    r = subprocess.run([os.path.join(bdir, "h"), "c17mk"], stdout=subprocess.PIPE, stderr=subprocess.PIPE, text=True,
                       env=dict(os.environ, **vlib.SAN_ENV), timeout=120)
    if r.returncode != 0:
        raise RuntimeError("c17mk failed: " + r.stderr[-300:])
    mat = json.loads(r.stdout)
    failed = list(mat.get("failed", []))
    J, E = mat["jws"], mat["jwe"]
    # a multi-key production that failed: fall back to a general-form object assembled by hand
    if J.get("multi") is None and J.get("HS256") and J.get("RS256"):
        J["multi"] = {"payload": J["HS256"]["payload"],
                      "signatures": [{k: v for k, v in J[a].items() if k != "payload"} for a in ("HS256", "RS256")]}
    if E.get("multi") is None and E.get("A128KW"):
        e = dict(E["A128KW"])
        ek = e.pop("encrypted_key", None)
        e["recipients"] = [{"header": {"x": "shared"}, "encrypted_key": ek}, {"header": {"alg": "ECDH-ES+A128KW"}, "encrypted_key": ek}]
        E["multi"] = e
    missing = [k for grp in ("jws", "jwe", "cek") for k, v in mat[grp].items() if v is None]
    return mat, failed, missing


def paths(v, depth=3, pre=()):
    """paths to members / elements, down to `depth` levels"""
    out = []
    if depth == 0:
        return out
    if isinstance(v, dict):
        for k in sorted(v):
            out.append(pre + (k,))
            out += paths(v[k], depth - 1, pre + (k,))
    elif isinstance(v, list):
        for i in range(len(v)):
            out.append(pre + (i,))
            out += paths(v[i], depth - 1, pre + (i,))
    return out


def getp(v, p):
    for k in p:
        v = v[k]
    return v


def setp(v, p, x, delete=False):
    v = copy.deepcopy(v)
    if not p:
        return x
    t = v
    for k in p[:-1]:
        t = t[k]
    if delete:
        del t[p[-1]]
    else:
        t[p[-1]] = x
    return v


def mutants(v, rnd, budget):
    """(label, mutated value): deletions, type substitutions, truncated / corrupted base64, re-encoded headers"""
    out = []
    for s in SUBST:
        out.append(("whole=" + type(s).__name__, s))
    ps = paths(v)
    for p in ps:
        cur = getp(v, p)
        out.append(("del " + "/".join(map(str, p)), setp(v, p, None, delete=True)))
        for s in SUBST:
            out.append(("sub %s=%s" % ("/".join(map(str, p)), type(s).__name__), setp(v, p, s)))
        if isinstance(cur, str) and cur:
            out.append(("trunc " + "/".join(map(str, p)), setp(v, p, cur[:-1])))
            out.append(("badchar " + "/".join(map(str, p)), setp(v, p, cur[:len(cur) // 2] + "*" + cur[len(cur) // 2:])))
            out.append(("empty " + "/".join(map(str, p)), setp(v, p, "")))
            if p[-1] == "protected":
                try:
                    hdr = json.loads(base64.urlsafe_b64decode(cur + "=" * (-len(cur) % 4)))
                except Exception:
                    hdr = None
                if isinstance(hdr, dict):
                    for lab, h2 in (("alg", dict(hdr, alg="none")), ("alg-int", dict(hdr, alg=5)), ("zip", dict(hdr, zip="DEF")),
                                    ("enc", dict(hdr, enc="A256GCM")), ("nonobj", [hdr]), ("scalar", 5)):
                        out.append(("prot-%s %s" % (lab, "/".join(map(str, p))), setp(v, p, b64(dumps(h2).encode()))))
                    out.append(("prot-object " + "/".join(map(str, p)), setp(v, p, hdr)))
                    out.append(("prot-notjson " + "/".join(map(str, p)), setp(v, p, b64(b"{not json"))))
    if len(out) > budget:
        keep = out[:len(SUBST)]
        rest = out[len(SUBST):]
        rnd.shuffle(rest)
        out = keep + rest[:budget - len(keep)]
    return out


def pure_gen(tier, rnd, mat):
    K, JWS, JWE, CEK = mat["keys"], mat["jws"], mat["jwe"], mat["cek"]
    dist = collections.Counter()
    cases = []
    budget = 60 if tier == "quick" else 400

    def noalg(k):
        k = dict(k)
        k.pop("alg", None)
        k.pop("key_ops", None)
        return k

    base = []   # (fn, [fields after fn])   JSON fields as python values wrapped in J()
    class J:
        def __init__(self, v):
            self.v = v
    NUL = "-"
    multi_sig = JWS["multi"]["signatures"]
    multi_rcp = JWE["multi"]["recipients"]
    base += [
        ("ver", [J(JWS["HS256"]), NUL, J(K["hs"]), "0"]),
        ("ver", [J(JWS["HS256"]), J(JWS["HS256"]), J(noalg(K["hs"])), "1"]),
        ("ver", [J(JWS["RS256"]), NUL, J(K["rsapub"]), "0"]),
        ("ver", [J(JWS["RS256"]), NUL, J(K["rsa"]), "1"]),
        ("ver", [J(JWS["multi"]), NUL, J([K["hs"], K["rsapub"]]), "1"]),
        ("ver", [J(JWS["multi"]), NUL, J({"keys": [K["rsapub"], K["hs"]]}), "0"]),
        ("ver", [J(JWS["multi"]), J(multi_sig), J([K["hs"], K["rsapub"]]), "1"]),
        ("ver", [J(JWS["multi"]), J(multi_sig[1]), J(K["rsapub"]), "0"]),
        ("ver", [J(JWS["multi"]), NUL, J(K["hs"]), "0"]),
        ("ver", [J(JWS["HS256"]), NUL, J(K["kw"]), "0"]),
        ("jws_hdr", [J(JWS["HS256"])]),
        ("jws_hdr", [J(multi_sig[0])]),
        ("jws_hdr", [J({"protected": {"alg": "HS256", "b": [1, 2]}, "header": {"kid": "k", "alg": "x"}})]),
        ("jwe_hdr", [J(JWE["A128KW"]), NUL]),
        ("jwe_hdr", [J(JWE["multi"]), J(multi_rcp[1])]),
        ("jwe_hdr", [J({"protected": {"enc": "A128GCM"}, "unprotected": {"zip": "DEF", "enc": "x"}}), J({"header": {"alg": "dir", "enc": "y"}})]),
        ("dec", [J(JWE["A128KW"]), NUL, J(K["kw"])]),
        ("dec", [J(JWE["dir"]), NUL, J(K["dir"])]),
        ("dec", [J(JWE["ECDH-ES"]), NUL, J(K["ec"])]),
        ("dec", [J(JWE["multi"]), NUL, J(K["ec"])]),
        ("dec", [J(JWE["multi"]), NUL, J([K["hs"], K["kw"]])]),
        ("dec", [J(JWE["multi"]), J(multi_rcp[0]), J({"keys": [K["kw"]]})]),
        ("dec", [J(JWE["A128KW"]), NUL, J(K["hs"])]),
        ("dec_jwk", [J(JWE["A128KW"]), NUL, J(K["kw"])]),
        ("dec_jwk", [J(JWE["dir"]), NUL, J(K["dir"])]),
        ("dec_jwk", [J(JWE["ECDH-ES"]), NUL, J(K["ec"])]),
    ]
    # the same ECDH-ES object with an ephemeral key that carries MORE than a public key needs (usage members, an
    # unknown member): whatever the unwrap does with the peer's key, it must not touch the caller's object
    def epk_variant(extra, where="header"):
        j = json.loads(json.dumps(JWE["ECDH-ES"]))
        hd = j.get("header") or {}
        if "epk" not in hd:
            return None
        epk = dict(hd["epk"], **extra)
        if where == "header":
            j["header"] = dict(hd, epk=epk)
        else:
            j["header"] = {m: v for m, v in hd.items() if m != "epk"}
            j["unprotected"] = dict(j.get("unprotected") or {}, epk=epk)
        return j
    for extra in ({"key_ops": ["deriveKey", "sign"]}, {"key_ops": ["deriveKey", "decrypt", "unwrapKey"]}, {"use": "enc"}, {"kid": "e", "zz": [1]}):
        for where in ("header", "unprotected"):
            v = epk_variant(extra, where)
            if v is not None:
                base.append(("dec", [J(v), NUL, J(K["ec"])]))
                base.append(("dec_jwk", [J(v), NUL, J(K["ec"])]))
    base += [
        ("dec_jwk", [J(JWE["ECDH-ES"]), J(JWE["ECDH-ES"]), J(K["ec2"])]),
        ("dec_jwk", [J(JWE["multi"]), J(multi_rcp[1]), J(K["ec"])]),
        ("dec_jwk", [J(JWE["multi"]), NUL, J([K["rsa"], K["ec"]])]),
        ("dec_cek", [J(JWE["A128KW"]), J(CEK["A128KW"])]),
        ("dec_cek", [J(JWE["dir"]), J(CEK["dir"])]),
        ("dec_cek", [J(JWE["dir"]), J(CEK["A128KW"])]),
        ("eql", [J(K["ec"]), J(K["ecpub"])]),
        ("eql", [J(K["rsa"]), J(K["rsapub"])]),
        ("eql", [J(K["hs"]), J(K["kw"])]),
        ("exc", [J(K["ec"]), J(K["ec2pub"])]),
        ("exc", [J(K["ec2"]), J(K["ecpub"])]),
        ("exc", [J(dict(K["ec"], alg="ECMR")), J(K["ec2pub"])]),
        ("exc", [J(K["ec"]), J(K["rsapub"])]),
        ("b64_dec", [J("cGF5bG9hZA")]),
        ("b64_dec_load", [J(JWS["HS256"]["protected"])]),
        ("b64_dec_load", [J(b64(b"[1,{\"a\":null}]"))]),
        ("sig_tmpl", [J({"payload": "cGF5"}), J({"header": {"x": "shared"}}), J([noalg(K["hs"]), K["rsa"]])]),
        ("sig_tmpl", [J({"payload": "cGF5"}), J({"protected": {"x": "shared"}, "header": {"y": [1]}}), J({"keys": [K["hs"], K["rsa"], K["hs"]]})]),
        ("sig_tmpl", [J({"payload": "cGF5"}), J({"protected": {"alg": "HS256"}}), J([K["hs"], K["hs"]])]),
        ("sig_tmpl", [J(JWS["HS256"]), J({}), J([K["rsa"]])]),
        ("encjwk_tmpl", [J({"protected": {"enc": "A128GCM"}}), J({"header": {"x": "shared"}}), J([K["kw"], K["ecpub"]]), J({})]),
        ("encjwk_tmpl", [J({}), J({"header": {"x": "shared", "y": {"z": 1}}}), J({"keys": [K["kw"], K["ecpub"], K["kw"]]}), J({})]),
        ("encjwk_tmpl", [J({}), NUL, J([K["kw"], K["ecpub"]]), J({})]),
        ("encjwk_tmpl", [J({"protected": {"enc": "A128CBC-HS256"}}), J({"header": {"alg": "A128KW"}}), J([K["kw"], K["kw"]]), J({})]),
    ]
    for k in ("hs", "kw", "dir", "ec", "ecpub", "rsa", "rsapub"):
        for hsh in ("S1", "S256", "S512", "nohash"):
            base.append(("thp", [J(K[k]), hsh]))
        base.append(("thp_buf", [J(K[k]), "S256", "32"]))
        base.append(("thp_buf", [J(K[k]), "S256", "8"]))
        base.append(("thp_buf", [J(K[k]), "S1", "0"]))
        for op in ("sign", "verify", "encrypt", "wrapKey", "deriveKey", "NULL"):
            for req in "01":
                base.append(("prm", [J(K[k]), req, op]))
        base.append(("prm", [J(dict(noalg(K[k]), use="sig")), "1", "verify"]))
        base.append(("prm", [J(dict(noalg(K[k]), use="enc", key_ops=["sign", 5, None])), "0", "sign"]))
        base.append(("b64_enc_dump", [J(K[k])]))
    for v in (JWS["multi"], [1, 1.5, None, True, "s", {"a": []}], "x", 5):
        base.append(("b64_enc_dump", [J(v)]))

    def line(fn, fields):
        return "pure\t%s\t%s" % (fn, "\t".join(dumps(f.v) if isinstance(f, J) else f for f in fields))

    # the suspect from reading, stated directly and first (so that the minimal input is the one reported)
    for p in (5, 1.5, [1, 2], None, True, {"alg": "HS256"}, "e30"):
        cases.append(line("jws_hdr", [J({"protected": p})]))
        cases.append(line("jws_hdr", [J({"protected": p, "header": {"a": 1}})]))
        cases.append(line("jwe_hdr", [J({"protected": p, "unprotected": {"a": 1}}), J({"header": {"b": 2}})]))
        dist["pure: header merge on every JSON type of 'protected'"] += 3
    for fn, fields in base:
        cases.append(line(fn, fields))
        dist["pure: calls on objects and keys made by the library (%s)" % PURE_CALL[fn].split(" ")[0]] += 1
    # mutate one JSON argument at a time
    for fn, fields in base:
        if fn in ("prm", "thp", "thp_buf", "b64_enc_dump") and rnd.random() < 0.8:
            continue        # many near-identical bases: mutate a fifth of them
        for i, f in enumerate(fields):
            if not isinstance(f, J):
                continue
            if fn in ("sig_tmpl", "encjwk_tmpl") and i not in (1, 2):
                continue
            for lab, mv in mutants(f.v, rnd, budget):
                if fn in ("sig_tmpl", "encjwk_tmpl"):
                    # the claim is about ONE template object shared by SEVERAL keys: an array of templates is
                    # in/out by design (one element per key), and so is the template of a single key
                    if i == 1 and not isinstance(mv, dict):
                        continue
                    if i == 2 and not (isinstance(mv, list) or (isinstance(mv, dict) and isinstance(mv.get("keys"), list))):
                        continue
                fs = list(fields)
                fs[i] = J(mv)
                cases.append(line(fn, fs))
                dist["pure: one argument structurally mutated (%s)" % lab.split(" ")[0].split("=")[0]] += 1
    seen = set()
    uniq = []
    for c in cases:
        if c not in seen:
            seen.add(c)
            uniq.append(c)
    return uniq, dist


VERDICT = {}


def pure_normalize(case, out):
    if "\t" in out:
        toks, v = out.split("\t", 1)
        VERDICT[case] = v
        return toks
    return out


def counted_protected(v):
    """does a JWS-like value carry a 'protected' member that is an integer, real or array?"""
    def bad(s):
        return isinstance(s, dict) and "protected" in s and (isinstance(s["protected"], (int, float, list)) and not isinstance(s["protected"], bool))
    if bad(v):
        return True
    if isinstance(v, dict) and isinstance(v.get("signatures"), list):
        return any(bad(s) for s in v["signatures"])
    if isinstance(v, list):
        return any(bad(s) for s in v)
    return False


def pure_oracle(case, out):
    f = case.split("\t")
    fn = f[1]
    if out.startswith("CRASH"):
        return ("pure-crash:%s:%s" % (fn, re.sub(r"[0-9]+", "N", out[:70])), "crash or sanitizer report in %s: %s; case %s" % (PURE_CALL[fn], out, case[:300]))
    toks = out.split(" ")
    idx = PURE_ARGS[fn]
    if len(toks) != len(idx):
        return ("pure-protocol", "unexpected result %r" % out)
    for t, i in zip(toks, idx):
        if t in ("=", "-"):
            continue
        argname = {"ver": ["jws", "sig", "jwk"], "dec": ["jwe", "rcp", "jwk"], "dec_jwk": ["jwe", "rcp", "jwk"], "jwe_hdr": ["jwe", "rcp"],
                   "dec_cek": ["jwe", "cek"], "eql": ["a", "b"], "exc": ["prv", "pub"], "sig_tmpl": ["sig (template)", "jwk (array)"],
                   "encjwk_tmpl": ["rcp (template)", "jwk (array)"]}.get(fn, ["argument"])[idx.index(i)]
        if fn == "jws_hdr":
            argname = "sig"
        if t.startswith("R"):
            try:
                val = json.loads(f[i])
            except Exception:
                val = None
            if t.startswith("R-") and fn in ("ver", "jws_hdr") and argname in ("jws", "sig", "argument") and counted_protected(val):
                return ("pure-refs:jose_jws_hdr:protected",
                        "jose_jws_hdr drops a reference it does not own: with a \"protected\" member that is an integer, real or array "
                        "(json_auto_t on the pointer borrowed from json_object_get) the caller's node loses %s reference(s) per call; "
                        "reached through %s with %s = %s -> token %s (the caller's object then holds a dangling pointer: use after free / double free when it is released)"
                        % (t[2:], PURE_CALL[fn], argname, f[i][:200], t))
            return ("pure-refs:%s:%s" % (fn, argname),
                    "%s changed the reference count of a node of its argument %s by %s (value unchanged); case %s" % (PURE_CALL[fn], argname, t[1:], case[:400]))
        return ("pure-modified:%s:%s" % (fn, argname),
                "%s modified its argument %s; case %s" % (PURE_CALL[fn], argname, case[:400]))
    return None


# ------------------------------------------------------------------------------------ part C: threads

def threads_gen(tier, rnd):
    cases = []
    if tier == "quick":
        for n in (2, 3, 4, 8, 16):
            for _ in range(4):
                cases.append("threads\t%d\t%d" % (n, rnd.randrange(1, 1 << 30)))
    else:
        for n in range(2, 17):
            for _ in range(12):
                cases.append("threads\t%d\t%d" % (n, rnd.randrange(1, 1 << 30)))
    cases.append("interleave")
    return cases, {"interleave: 8 valid probes alone vs right after each of 9 correctly refused calls, each in a fresh thread": 1, "threads: n threads x 24 seed-derived operations each (sign/verify, encrypt/decrypt, thumbprint, base64, key generation, ECDH, refused call, header merge) vs. the same sequences one after another": len(cases)}


def threads_oracle(case, out):
    if out == "OK":
        return None
    if case == "interleave":
        if out.startswith("CRASH"):
            return ("interleave-crash", "crash or sanitizer report: " + out[:300])
        if out.startswith("PROBE-FAILS"):
            return ("interleave-probe-fails", "a valid operation fails on its own: " + out[:200])
        return ("hidden-state:result-depends-on-earlier-call", "a valid operation gives another result right after an unrelated, correctly refused call in the same thread than on its own: " + out[:300])
    if out.startswith("CRASH"):
        return ("threads-crash:" + re.sub(r"[0-9]+", "N", out[:70]), "crash or sanitizer report with %s threads: %s" % (case.split("\t")[1], out))
    return ("threads-diff", "a thread's result differs from the result of the same operation sequence run alone (%s): %s" % (case.replace("\t", " "), out[:400]))


def tsan_run(ctx, cases, rep):
    """thorough tier: the same command under ThreadSanitizer; a race with a frame in the library is a violation"""
    info = {}
    try:
        bd = vlib.build("tsan")
    except vlib.BuildError as e:
        rep.notes.append("TSan build failed: %s" % e)
        return {"tsan": "build failed"}
    env = dict(os.environ, TSAN_OPTIONS="halt_on_error=0:exitcode=0:second_deadlock_stack=1:history_size=4")
    cmd = [os.path.join(bd, "h")]
    # newer kernels randomise mappings more than this TSan runtime accepts
    probe = subprocess.run(cmd, input="threads\t2\t1\n", stdout=subprocess.PIPE, stderr=subprocess.PIPE, text=True, env=env)
    if "unexpected memory mapping" in probe.stderr:
        cmd = ["setarch", "-R"] + cmd
    p = subprocess.run(cmd, input="\n".join(cases) + "\n", stdout=subprocess.PIPE, stderr=subprocess.PIPE, text=True, env=env, timeout=1500)
    outs = [l for l in p.stdout.split("\n") if l]
    reports = p.stderr.split("WARNING: ThreadSanitizer: ")[1:]
    inlib = 0
    for r in reports:
        kind = r.split("\n")[0]
        frames = re.findall(r"#\d+ (\S+) (" + re.escape(vlib.REPO.rstrip("/")) + r"/\S+?):(\d+)", r)
        if kind.startswith("data race") and frames:
            inlib += 1
            fnn, path, ln = frames[0]
            rep.violation("tsan-race:%s:%s" % (os.path.relpath(path, vlib.REPO), fnn),
                          "ThreadSanitizer: data race inside the library, first library frame %s (%s:%s), while independent operations ran on distinct objects" % (fnn, path, ln),
                          {"cases": cases[:5], "report": "WARNING: ThreadSanitizer: " + r[:3000],
                           "replay_cmd": "printf '%s\\n' | TSAN_OPTIONS=halt_on_error=0 _work/build-tsan/h" % cases[0].replace("\t", "\\t")})
    bad = [o for o in outs if o != "OK"]
    if len(outs) != len(cases) or bad:
        rep.violation("tsan-threads-diff", "under the TSan build the threads command did not answer OK for every case: %s" % (bad[:2] or p.stderr[-300:]),
                      {"cases": cases[:5], "outputs": outs[:5]})
    info = {"tsan cases": len(cases), "tsan reports": len(reports), "tsan data races with a frame in /repo": inlib,
            "tsan reports elsewhere (uninstrumented OpenSSL/jansson/libc, not counted)": len(reports) - inlib}
    return info


# ------------------------------------------------------------------------------------ part C: source scan

# objects with static storage that are not const: the only candidates for state shared between calls / threads
STATIC_OK = {
    ("lib/hooks.c", "jwks"): "head of the key-type registry: written only by jose_hook_jwk_push, called from load-time constructors",
    ("lib/hooks.c", "algs"): "head of the algorithm registry: written only by jose_hook_alg_push, called from load-time constructors",
    ("lib/openssl/lock.c", "locks"): "OpenSSL < 1.1.0 locking callbacks only (compiled out here); set up in a constructor",
}
DECL = re.compile(r"^(\s*)static\s+(?!const\b)(?!inline\b)([^(){};=]*?)(\w+)\s*(\[[^\]]*\])?\s*(=|;)")


def static_scan(rep):
    found = []
    for path in vlib.lib_sources():
        rel = os.path.relpath(path, vlib.REPO)
        lines = open(path, errors="replace").read().split("\n")
        for i, l in enumerate(lines):
            m = DECL.match(l)
            if not m or "typedef" in l or " const " in " " + m.group(2) + " ":
                continue
            name = m.group(3)
            where = "file scope"
            ok = None
            if m.group(1):      # inside a function: find its header
                j = i
                while j > 0 and not lines[j].startswith("{"):
                    j -= 1
                hdr = " ".join(lines[max(0, j - 3):j])
                where = "function " + (lines[j - 1].split("(")[0] if j > 0 else "?")
                if "__attribute__((constructor))" in hdr:
                    ok = "table filled in a load-time constructor (its .next links are written by the push functions before main)"
            if ok is None:
                ok = STATIC_OK.get((rel, name))
            if ok is None and not m.group(4):
                # a scalar that is never assigned and whose address is never taken is constant in effect
                rest = "\n".join(lines[:i] + lines[i + 1:])
                wr = re.search(r"(?<![\w.>])%s\s*(=(?!=)|\+\+|--|[-+*/|&^]=|<<=|>>=)|(\+\+|--|&)\s*%s\b" % (name, name), rest)
                if not wr:
                    ok = "never assigned, address never taken: constant in effect (could be declared const)"
            found.append((rel, i + 1, name, where, ok))
            if ok is None:
                rep.violation("hidden-state:%s:%s" % (rel, name),
                              "%s:%d declares a non-const object with static storage (%s, %s) outside the load-time constructors: state shared by all calls and all threads; the footprint premise of C17_schedule_free is no longer supported by the source" % (rel, i + 1, name, where),
                              {"file": rel, "line": i + 1, "declaration": l.strip()}, found=False)
    return {"source scan: non-const static objects in lib/": len(found),
            "source scan: of these, in load-time constructors, the registry heads, or never written": sum(1 for f in found if f[4])}


# ------------------------------------------------------------------------------------ flow

def merge(stats):
    out = {"evaluations": 0, "distinct_nontrivial": 0, "disagreements": 0, "first_disagreements": [], "samples": [],
           "dist": {}, "exhaustive_subspaces": [], "exhaustive": False, "rule": ""}
    for s in stats:
        out["evaluations"] += s["evaluations"]
        out["distinct_nontrivial"] += s["distinct_nontrivial"]
        out["disagreements"] += s["disagreements"]
        out["first_disagreements"] += s["first_disagreements"][:4]
        out["samples"] += s["samples"][:3]
        out["dist"].update(s["dist"])
        out["exhaustive_subspaces"] += s["exhaustive_subspaces"]
        out["rule"] += s["rule"] + " | "
    return out


def error_routing(ctx, rnd):
    """every error an operation raises goes to the handler of the context the operation was given: the same call is
    made once with cfg == NULL (the default handler's lines are read back from stderr) and once with a context;
    the context's handler must receive exactly that sequence, with its own user pointer, nothing may reach stderr
    or another context's handler.  Single keys, key arrays and JWKSets, any- and all-mode, every entry point."""
    import jwsgen as G
    import hashlib
    import hmac as pyhmac
    rep = ctx["rep"]
    bdir = ctx["bdir"]
    J = G.dumps
    keys = G.standard_keys(bdir)
    k1 = G.oct_key(rnd, 32)
    kb = dict(G.oct_key(rnd, 64), alg="HS512")
    kenc = dict(G.oct_key(rnd, 32), use="enc")
    kshort = G.oct_key(rnd, 8)
    prot = G.b64(J({"alg": "HS256"}).encode())
    pay = G.b64(b"c17")
    tok = {"protected": prot, "payload": pay, "signature": G.b64(pyhmac.new(G.unb64(k1["k"]), (prot + "." + pay).encode(), hashlib.sha256).digest())}
    kw = G.oct_key(rnd, 16)
    kwbad = dict(G.oct_key(rnd, 16), alg="A256KW")
    jwe = G.harness(bdir, ["jweenc\t%s\t-\t%s\t00" % (J({"protected": {"alg": "A128KW", "enc": "A128GCM"}}), J(kw))])[0]
    ec, ec384 = keys["P-256"], keys["P-384"]
    cases = []
    for ks in (kb, kenc, kshort, [kb, k1], [k1, kb], [kenc, kb, k1], {"keys": [kb, k1]}, {"keys": [kshort, kenc]}, []):
        for all_ in ("0", "1"):
            cases.append("cfgroute\tver\t%s\t%s\t%s" % (J(tok), J(ks), all_))
    for tm, k in (({"protected": {"alg": "HS512"}}, k1), ({"protected": {"alg": "HS256"}}, kb), (None, kenc), ({"protected": {"alg": "nope"}}, k1),
                  ({"protected": {"alg": "HS256"}}, [k1, kb]), (None, [kshort, k1]), ({"protected": {"alg": "ES256"}}, k1)):
        cases.append("cfgroute\tsig\t%s\t%s\t%s" % (J({"payload": pay}), "-" if tm is None else J(tm), J(k)))
    if not jwe.startswith(("ERR", "CRASH")):
        for k in (kwbad, dict(kw, use="sig"), [kwbad, kw], {"keys": [dict(kw, use="sig"), kwbad]}, G.oct_key(rnd, 24), ec):
            cases.append("cfgroute\tdec\t%s\t%s" % (jwe, J(k)))
    for tm, k in (({"protected": {"alg": "A128KW", "enc": "A128GCM"}}, kwbad), ({"protected": {"alg": "A128KW"}}, dict(kw, use="sig")),
                  ({"protected": {"alg": "nope"}}, kw), ({"protected": {"enc": "nope"}}, kw), ({"protected": {"alg": "A128KW"}}, [kw, kwbad])):
        cases.append("cfgroute\tenc\t%s\t%s" % (J(tm), J(k)))
    for a, b in ((dict(ec, use="sig"), G.pub_of(ec)), (ec, dict(G.pub_of(ec), key_ops=["sign"])), (ec, G.pub_of(ec384)), (dict(ec, alg="ECMR"), dict(G.pub_of(ec), alg="ECDH")), (k1, G.pub_of(ec))):
        cases.append("cfgroute\texc\t%s\t%s" % (J(a), J(b)))
    outs = vlib.run_cases(os.path.join(bdir, "h"), cases)
    raised = 0
    for c, o in zip(cases, outs):
        if o.startswith("CRASH"):
            rep.violation("route:crash:" + c.split("\t")[1], "crash: " + o[:200], {"case": c[:800]})
            continue
        f = dict(x.split("=", 1) for x in o.split(" ") if "=" in x)
        raised += bool(f.get("null"))
        op = c.split("\t")[1]
        if f.get("stderr") != "0":
            rep.violation("route:default-handler-used:" + op, "an error raised while %s ran under a caller's context was written to stderr by the DEFAULT handler (%s bytes)" % (op, f.get("stderr")),
                          {"case": c[:1500], "implementation": o})
        elif f.get("other") != "0":
            rep.violation("route:other-context:" + op, "an error raised under one context reached another context's handler", {"case": c[:1500], "implementation": o})
        elif f.get("null") != f.get("ctx"):
            rep.violation("route:handler-missed:" + op, "with cfg == NULL the operation reports [%s]; under a context its handler receives [%s]" % (f.get("null"), f.get("ctx")),
                          {"case": c[:1500], "implementation": o})
    if raised < len(cases) // 3:
        rep.violation("route:too-few-errors", "the error-routing cases no longer raise errors (%d of %d): the generator needs attention" % (raised, len(cases)), {"cases": len(cases)}, found=False)
    return len(cases)


def correspond(ctx):
    tier, rep = ctx["tier"], ctx["rep"]
    rnd = random.Random(ctx["seed"] * 1000003 + 17)
    h = os.path.join(ctx["bdir"], "h")

    # which variant of the two departures does the code have?  (selects the model's flags, like a generated table)
    probe = vlib.run_cases(h, ["cfg\t" + WITNESS, "cfg\tdN;aN"])
    variant = ("m" if probe[0].split(" ")[-1] == "1" else "h") + ("o" if probe[1] == ". ." else "c")

    ccases, cdist = cfg_gen(tier, rnd)
    s1 = runner.standard(
        ctx, ccases, cfg_oracle,
        lambda c, o: (" h" in " " + o) or "default(" in o,
        rule="cfg: operation histories on real contexts with logging handlers vs. the state machine (variant: %s); non-trivial = at least one report was delivered" % variant,
        dist=dict(cdist), model_cases=[c + "\t" + variant for c in ccases], normalize=cfg_normalize,
        exhaustive_subspaces=["all context histories of length <= 4 over %d operations" % len(SMALL)] +
                             (["all context histories of length 5 over %d operations" % len(SMALLER)] if tier != "quick" else []) + [
                              "all continuations of length <= 2 after each of the 36 registrations of two live contexts"])

    s2 = {"evaluations": 0, "distinct_nontrivial": 0, "disagreements": 0, "first_disagreements": [], "samples": [],
          "dist": {}, "exhaustive_subspaces": [], "rule": "pure: not run (the library could not produce the inputs)"}
    try:
        mat, failed, missing = materials(ctx["bdir"])
    except Exception as e:      # key generation itself failed
        mat, failed, missing = None, [], ["everything"]
        rep.violation("pure-materials", "the harness could not produce keys and tokens with the library: %s" % e,
                      {"replay_cmd": "_work/build-san/h c17mk"}, found=False)
    for w in failed:
        multi = w.startswith("multi")
        rep.violation("pure-materials:" + w,
                      "the library failed to produce a valid object for the read-only checks: %s%s" %
                      (w, " (one call with a key array and ONE template object: the template is documented to be copied per key; a failure here is what a template modified by the first key looks like)" if multi else ""),
                      {"replay_cmd": "_work/build-san/h c17mk   # see the \"failed\" member"})
    if mat is not None and not missing:
        pcases, pdist = pure_gen(tier, rnd, mat)
        s2 = runner.standard(
            ctx, pcases, pure_oracle, lambda c, o: VERDICT.get(c) == "T",
            rule="pure: every read-only entry point on library-made and mutated arguments; per argument value (json_equal + dump) and per-node reference counts before/after vs. the specification (all '='); non-trivial = the call succeeded",
            dist=dict(pdist), normalize=pure_normalize)

    tcases, tdist = threads_gen(tier, rnd)
    s3 = runner.standard(
        ctx, tcases, threads_oracle, lambda c, o: o == "OK",
        rule="threads: 2..16 threads of independent operations vs. sequential execution of the same sequences (model side: the executable thread system of Conc/Interleave.v under a seed-derived schedule)",
        dist=dict(tdist))

    nroute = error_routing(ctx, rnd)
    st = merge([s1, s2, s3])
    st["evaluations"] += nroute
    st["dist"]["error routing: operations under a context vs under NULL"] = nroute
    st["dist"]["cfg: model variant selected by probing (h|m = get_err_misc returns handler|misc, c|o = decref(NULL) crashes|ok)"] = variant
    st["dist"].update(static_scan(rep))
    if tier == "thorough":
        st["dist"].update(tsan_run(ctx, tcases, rep))
        st["evaluations"] += len(tcases)
    refuted = ["C17_jws_hdr_refs_refuted"] if any(v[0] == "pure-refs:jose_jws_hdr:protected" for v in rep.violations) else []
    if variant[0] == "h":
        refuted.insert(0, "C17_get_misc_refuted")
    st["refuted"] = refuted
    return st
