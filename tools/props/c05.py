"""C05 key restrictions: declared alg, use, key_ops."""
import collections
import itertools
import json
import os
import random
import subprocess

import runner
import vlib

PID = "C05"
PROP_FILE = "Props/Properties_C05.v"
LEVEL = "proof"
ASSUMPTIONS = [
    "C05: the grant formula is proved for every JSON object whose 'use' is absent or a string; a 'use' of another JSON type refuses everything (C05_prm_bad_use), which is stricter than the formula",
    "C05: the mismatch theorems are about the decision prefix of each entry point (models Jose/Jws.v, Jose/Jwe.v, Jwk/Exc.v) for all strings; the correspondence runs them with ideal primitives (Jose/Stubs.v, algorithm records built from the regenerated registry) against the real entry points used with keys that ARE valid for the header's algorithm",
    "C05: wrapping (jose_jwe_enc_jwk) is not among the operations the property lists for the declared-alg check and is not checked",
]

OPS = ["sign", "verify", "encrypt", "decrypt", "wrapKey", "unwrapKey", "deriveKey", "deriveBits"]


def dumps(v):
    return json.dumps(v, separators=(",", ":"), sort_keys=True)


def registry(bdir):
    r = subprocess.run([os.path.join(bdir, "h"), "tables"], stdout=subprocess.PIPE, text=True, env=dict(os.environ, **vlib.SAN_ENV))
    names = collections.defaultdict(list)
    for l in r.stdout.split("\n"):
        f = l.split(" ")
        if f[0] == "alg":
            names[f[1]].append(f[2])
    return names


def gen(tier, seed, names):
    rnd = random.Random(seed)
    cases = []
    dist = collections.Counter()
    # ---- permission grid: all 2^8 key_ops subsets (+ junk) x use x op x req
    uses = [None, "sig", "enc", "other", "", 5, None.__class__ and ["sig"], True, {"a": 1}, "sig\u0000x"]
    uses = [None, "sig", "enc", "other", "", 5, ["sig"], True, {"a": 1}, "sig\u0000x"]
    junk = [5, None, ["sign"], {"sign": 1}, True, "", "SIGN", "sign\u0000x"]
    subsets = list(range(256))
    if tier == "quick":
        ops_req = [(op, req) for op in OPS + ["other"] for req in (0, 1)]
    else:
        ops_req = [(op, req) for op in OPS + ["other", "", "Sign"] for req in (0, 1)]
    for bits in subsets:
        ko = [OPS[i] for i in range(8) if bits >> i & 1]
        for ui, use in enumerate(uses):
            # keep the grid at ~28k: every subset with the 5 main 'use' values, a third of them with the odd ones
            if ui >= 5 and bits % 3 != ui % 3:
                continue
            jwk = {"kty": "oct"}
            if use is not None:
                jwk["use"] = use
            jwk["key_ops"] = ko + ([junk[bits % len(junk)]] if bits % 5 == 0 else [])
            for op, req in (ops_req if bits % 4 == 0 or tier == "thorough" else ops_req[bits % 7::7]):
                cases.append("prm\t%s\t%d\t%s" % (dumps(jwk), req, op))
                dist["prm grid key_ops x use x op x req"] += 1
    for use in uses:
        for kov in (None, "sign", 5, {}, [], [[]]):
            jwk = {"kty": "oct"}
            if use is not None:
                jwk["use"] = use
            if kov is not None:
                jwk["key_ops"] = kov
            for op in OPS + ["other", "NULL"]:
                for req in (0, 1):
                    cases.append("prm\t%s\t%d\t%s" % (dumps(jwk), req, op))
                    dist["prm no/odd key_ops"] += 1
    for j in ([], "x", 5, None, True):
        for req in (0, 1):
            cases.append("prm\t%s\t%d\tsign" % (dumps(j), req))
            cases.append("prm\t%s\t%d\tNULL" % (dumps(j), req))
            dist["prm non-object"] += 2
    # ---- declared-algorithm grids: all ordered pairs over registered names of the kind + foreign names
    foreign = ["none", "ZZ999", "A", "hs256"]
    sign = names["sign"] + foreign
    for a in sign:
        for b in sign + ["-"]:
            cases.append("algcheck\tver\t%s\t%s" % (a, b))
            cases.append("algcheck\tsig\t%s\t%s" % (a, b))
            dist["alg grid sign/verify"] += 2
    wrap = names["wrap"] + foreign[:2]
    encr = names["encr"] + foreign[:2]
    for a in wrap:
        for b in wrap + encr + ["-"]:
            # header enc: two choices, so that kalg == henc is covered
            for e in (encr[0], b if b in names["encr"] else encr[3 % len(encr)]):
                cases.append("algcheck\tdecjwk\t%s\t%s\t%s" % (a, e, b))
                dist["alg grid unwrap"] += 1
    for e in encr:
        for b in encr + wrap[:3] + ["-"]:
            cases.append("algcheck\tenccek\t%s\t%s" % (e, b))
            cases.append("algcheck\tdeccek\t%s\t%s" % (e, b))
            dist["alg grid content enc/dec"] += 2
            if e in names["encr"] and (b in names["encr"] or b == "-"):
                # the header's enc lives in the shared unprotected header only (RFC 7520 5.12 style), alone or next
                # to an unrelated protected header: the comparison must use the MERGED header
                cases.append("algcheck\tdeccekU\t%s\t%s" % (e, b))
                cases.append("algcheck\tdeccekPU\t%s\t%s" % (e, b))
                dist["alg grid content dec, enc in the unprotected header"] += 2
    exch = names["exch"] + foreign[:2] + ["-"]
    for a in exch:
        for b in exch:
            if a == "-" and b == "-":
                continue      # inference by key type: C13/C15, not a declared-alg check
            cases.append("algcheck\texc\t%s\t%s" % (a, b))
            dist["alg grid exchange"] += 1
    return cases, dict(dist)


def grant(jwk, req, op):
    """property C05's formula, written independently (python)"""
    if not isinstance(jwk, dict):
        return True
    if op == "NULL":
        return False
    use = jwk.get("use") if "use" in jwk else None
    has_use = "use" in jwk
    ko = jwk.get("key_ops") if "key_ops" in jwk else None
    has_ko = "key_ops" in jwk
    if not has_use and not has_ko:
        return not req

    def cs(s):
        return s.split("\0")[0]
    listed = isinstance(ko, list) and any(isinstance(v, str) and cs(v) == op for v in ko)
    u = cs(use) if isinstance(use, str) else None
    return listed or (u == "sig" and op in ("sign", "verify")) or (u == "enc" and op in ("encrypt", "decrypt", "wrapKey", "unwrapKey"))


class Oracle:
    def __init__(self, names):
        self.names = names

    def __call__(self, case, out):
        if out.startswith("CRASH"):
            return ("crash:" + out[:80], "crash or sanitizer report: " + out)
        f = case.split("\t")
        if f[0] == "prm":
            jwk = json.loads(f[1])
            want = grant(jwk, f[2] == "1", f[3])
            got = out == "T"
            if isinstance(jwk, dict) and "use" in jwk and not isinstance(jwk["use"], str):
                if got:
                    return ("prm-bad-use-granted", "a key with a non-string 'use' was granted %s" % f[3])
                return None
            if want != got:
                kind = "granted" if got else "refused"
                return ("prm-%s:%s" % (kind, f[3]), "grant decision differs from the RFC 7517 formula: %s for %s" % (kind, f[3]))
            return None
        if f[0] == "algcheck":
            e = f[1]
            if e == "decjwk":
                h, enc, k = f[2], f[3], f[4]
                if out == "A" and k != "-" and k != h and k != enc:
                    return ("alg-mismatch-accepted:decjwk:%s:%s:%s" % (h, enc, k), "unwrap accepted: header alg %s enc %s, key declares %s" % (h, enc, k))
                if out == "R" and (k == "-" or k == h or k == enc):
                    return ("alg-match-refused:decjwk", "unwrap refused although the key's alg matches (%s/%s/%s)" % (h, enc, k))
                return None
            h, k = f[2], f[3]
            if e == "exc":
                ok_names = self.names["exch"]
                if out == "A" and h != "-" and k != "-" and h != k:
                    return ("alg-mismatch-accepted:exc:%s:%s" % (h, k), "exchange accepted between keys declaring %s and %s" % (h, k))
                return None
            if out == "A" and k != "-" and k != h:
                return ("alg-mismatch-accepted:%s:%s:%s" % (e, h, k), "%s accepted: header names %s, key declares %s" % (e, h, k))
            if out == "R" and (k == "-" or k == h):
                return ("alg-match-refused:%s:%s" % (e, h), "%s refused although key alg %s matches header alg %s" % (e, k, h))
        return None


def nontrivial(case, out):
    f = case.split("\t")
    if f[0] == "prm":
        return f[1].startswith("{") and ("use" in f[1] or "key_ops" in f[1])
    return out in ("A", "R") and f[-1] != "-"


def prms(bdir):
    """algorithm name -> the permission names its entry points ask for, read from the running registry"""
    r = subprocess.run([os.path.join(bdir, "h"), "tables"], stdout=subprocess.PIPE, text=True, env=dict(os.environ, **vlib.SAN_ENV))
    out = {}
    for l in r.stdout.split("\n"):
        f = l.split(" ")
        if f[0] == "alg":
            out[f[2]] = dict(x.split("=", 1) for x in f[3:] if "=" in x)
    return out


META = [("none", {}), ("use=sig", {"use": "sig"}), ("use=enc", {"use": "enc"}), ("use=other", {"use": "x"}),
        ("key_ops=[]", {"key_ops": []}), ("key_ops=[needed]", None), ("key_ops=[other]", {"key_ops": ["deriveBits"]}),
        ("key_ops=[other,needed]", "mix"), ("use=sig+key_ops=[needed]", "sig+"), ("use=enc+key_ops=[other]", {"use": "enc", "key_ops": ["deriveBits"]})]


def with_meta(key, meta, op):
    k = dict(key)
    if meta is None:
        k["key_ops"] = [op]
    elif meta == "mix":
        k["key_ops"] = ["deriveBits", op]
    elif meta == "sig+":
        k["use"] = "sig"
        k["key_ops"] = [op]
    else:
        k.update(meta)
    return k


def entry_grid(ctx, dist):
    """use / key_ops enforced AT every entry point, on both keys of an exchange: otherwise valid material, only the
    key's metadata varies; expectation from the grant formula with the permission name the registry declares"""
    import hashlib
    import hmac as pyhmac
    import jwsgen as G
    bdir = ctx["bdir"]
    rnd = random.Random(ctx["seed"] + 5)
    # the operation each entry point needs comes from the DOCUMENTED table, not from the registry of the code under test
    P = {}
    rr = subprocess.run([os.path.join(bdir, "h"), "tables"], stdout=subprocess.PIPE, text=True, env=dict(os.environ, **vlib.SAN_ENV))
    for l in rr.stdout.split("\n"):
        f = l.split(" ")
        if f[0] == "alg" and f[1] in DOCUMENTED_PRM:
            P[f[2]] = DOCUMENTED_EXCEPT.get(f[2], DOCUMENTED_PRM[f[1]])
    keys = G.standard_keys(bdir)
    J = G.dumps
    both, impl_only, want = [], [], {}
    ec = keys["P-256"]
    ec2 = G.strip_meta(G.gen_keys(bdir, [{"kty": "EC", "crv": "P-256", "key_ops": ["deriveKey"]}])[0])
    rsa = keys.get("RSA2048")
    hk = G.oct_key(rnd, 32)
    kw = G.oct_key(rnd, 16)
    prot = G.b64(J({"alg": "HS256"}).encode())
    pay = G.b64(b"c05")
    mac = pyhmac.new(G.unb64(hk["k"]), (prot + "." + pay).encode(), hashlib.sha256).digest()
    hs_tok = {"protected": prot, "payload": pay, "signature": G.b64(mac)}
    # material produced once with clean keys
    pre = G.harness(bdir, ["jwssig\t%s\t%s\t%s" % (J({"payload": pay}), J({"protected": {"alg": "ES256"}}), J(ec)),
                           "jweenc\t%s\t-\t%s\t00" % (J({"protected": {"alg": "A128KW", "enc": "A128GCM"}}), J(kw)),
                           "jweenc\t%s\t-\t%s\t00" % (J({"protected": {"alg": "ECDH-ES+A128KW", "enc": "A128GCM"}}), J(G.pub_of(ec))),
                           "jweenc\t%s\t-\t%s\t00" % (J({"protected": {"alg": "RSA-OAEP", "enc": "A128GCM"}}), J(G.pub_of(rsa)) if rsa else "{}")])
    es_tok, kw_tok, ec_tok, rsa_tok = pre
    # every other symmetric key-wrapping algorithm of the registry, each with a key of its size and a token made with it
    SYMW = {}
    for walg, n_ in (("A192KW", 24), ("A256KW", 32), ("A128GCMKW", 16), ("A192GCMKW", 24), ("A256GCMKW", 32),
                     ("PBES2-HS256+A128KW", 20), ("PBES2-HS384+A192KW", 20), ("PBES2-HS512+A256KW", 20)):
        if walg in P:
            wk = G.oct_key(rnd, n_)
            tm = {"protected": {"alg": walg, "enc": "A128GCM"}}
            if walg.startswith("PBES2"):
                tm["protected"]["p2c"] = 1000
            SYMW[walg] = (wk, G.harness(bdir, ["jweenc\t%s\t-\t%s\t00" % (J(tm), J(wk))])[0])
    for tag, meta in META:
        def add(lst, case, op, what):
            k_ok = None
            lst.append(case)
            want[case] = (op, tag, what)
        sp, vp = P["HS256"]["sprm"], P["HS256"]["vprm"]
        add(both, "jwssig\t%s\t%s\t%s" % (J({"payload": pay}), J({"protected": {"alg": "HS256"}}), J(with_meta(hk, meta, sp))), sp, "sign HS256")
        add(both, "jwsver\t%s\t-\t%s\t0" % (J(hs_tok), J(with_meta(hk, meta, vp))), vp, "verify HS256")
        add(impl_only, "jwssig\t%s\t%s\t%s" % (J({"payload": pay}), J({"protected": {"alg": "ES256"}}), J(with_meta(ec, meta, P["ES256"]["sprm"]))), P["ES256"]["sprm"], "sign ES256")
        # the same when the algorithm is not named by the template but inferred from the key (its size / curve / "alg")
        add(both, "jwssig\t%s\t-\t%s" % (J({"payload": pay}), J(with_meta(hk, meta, sp))), sp, "sign HS256 (inferred)")
        add(both, "jwssig\t%s\t%s\t%s" % (J({"payload": pay}), J({"header": {"kid": "k1"}}), J(with_meta(hk, meta, sp))), sp, "sign HS256 (inferred, template without alg)")
        add(both, "jwssig\t%s\t-\t%s" % (J({"payload": pay}), J(dict(with_meta(hk, meta, sp), alg="HS256"))), sp, "sign HS256 (key's alg)")
        add(impl_only, "jwssig\t%s\t-\t%s" % (J({"payload": pay}), J(with_meta(ec, meta, P["ES256"]["sprm"]))), P["ES256"]["sprm"], "sign ES256 (inferred)")
        add(impl_only, "jweenc\t{}\t-\t%s\t00" % J(with_meta(kw, meta, P["A128KW"]["eprm"])), P["A128KW"]["eprm"], "wrap A128KW (inferred)")
        if not es_tok.startswith(("ERR", "CRASH")):
            add(impl_only, "jwsver\t%s\t-\t%s\t0" % (es_tok, J(with_meta(G.pub_of(ec), meta, P["ES256"]["vprm"]))), P["ES256"]["vprm"], "verify ES256")
        e, d = P["A128KW"]["eprm"], P["A128KW"]["dprm"]
        add(impl_only, "jweenc\t%s\t-\t%s\t00" % (J({"protected": {"alg": "A128KW", "enc": "A128GCM"}}), J(with_meta(kw, meta, e))), e, "wrap A128KW")
        if not kw_tok.startswith(("ERR", "CRASH")):
            add(both, "jweunw\t%s\t-\t%s" % (kw_tok, J(with_meta(kw, meta, d))), d, "unwrap A128KW")
        e, d = P["ECDH-ES+A128KW"]["eprm"], P["ECDH-ES+A128KW"]["dprm"]
        add(impl_only, "jweenc\t%s\t-\t%s\t00" % (J({"protected": {"alg": "ECDH-ES+A128KW", "enc": "A128GCM"}}), J(with_meta(G.pub_of(ec), meta, e))), e, "wrap ECDH-ES+A128KW")
        if not ec_tok.startswith(("ERR", "CRASH")):
            add(impl_only, "jweunw\t%s\t-\t%s" % (ec_tok, J(with_meta(ec, meta, d))), d, "unwrap ECDH-ES+A128KW")
        if rsa and not rsa_tok.startswith(("ERR", "CRASH")):
            e, d = P["RSA-OAEP"]["eprm"], P["RSA-OAEP"]["dprm"]
            add(impl_only, "jweenc\t%s\t-\t%s\t00" % (J({"protected": {"alg": "RSA-OAEP", "enc": "A128GCM"}}), J(with_meta(G.pub_of(rsa), meta, e))), e, "wrap RSA-OAEP")
            add(impl_only, "jweunw\t%s\t-\t%s" % (rsa_tok, J(with_meta(rsa, meta, d))), d, "unwrap RSA-OAEP")
        for walg, (wk, wtok) in SYMW.items():
            e, d = P[walg]["eprm"], P[walg]["dprm"]
            tm = {"protected": {"alg": walg, "enc": "A128GCM"}}
            if walg.startswith("PBES2"):
                tm["protected"]["p2c"] = 1000
            add(impl_only, "jweenc\t%s\t-\t%s\t00" % (J(tm), J(with_meta(wk, meta, e))), e, "wrap " + walg)
            if not wtok.startswith(("ERR", "CRASH")):
                add(impl_only, "jweunw\t%s\t-\t%s" % (wtok, J(with_meta(wk, meta, d))), d, "unwrap " + walg)
        e = P["A128GCM"]["eprm"]
        add(impl_only, "keyok\tenc\tA128GCM\t%s" % J(with_meta(kw, meta, e)), e, "content encryption A128GCM")
        x = P["ECDH"]["prm"]
        add(both, "exc\t%s\t%s" % (J(with_meta(ec, meta, x)), J(G.pub_of(ec2))), x, "exchange, local key")
        add(both, "exc\t%s\t%s" % (J(ec2), J(with_meta(G.pub_of(ec), meta, x))), x, "exchange, remote key")
        add(both, "exc\t%s\t%s" % (J(dict(ec2, alg="ECMR")), J(with_meta(dict(G.pub_of(ec), alg="ECMR"), meta, x))), x, "exchange ECMR, remote key")
    dist["entry-point grant grid"] = len(both) + len(impl_only)
    # direct encryption: the key IS the content key; a key that declares a content algorithm may be used under that one only
    # (pairs of equal key size are the ones no length check catches), whole-call forms jose_jwe_enc / jose_jwe_dec
    ENCLEN = {"A128GCM": 16, "A192GCM": 24, "A256GCM": 32, "A128CBC-HS256": 32, "A192CBC-HS384": 48, "A256CBC-HS512": 64}
    dreq = []
    for ka, kl in ENCLEN.items():
        for he, hl in ENCLEN.items():
            if kl != hl:
                continue
            dk = G.oct_key(rnd, kl, alg=ka)
            dreq.append(("jweenc\t%s\t-\t%s\t00" % (J({"protected": {"alg": "dir", "enc": he}}), J(dk)), ka == he, "dir key declaring %s under enc %s" % (ka, he)))
    for (c_, ok_, what_), o in zip(dreq, G.harness(bdir, [x[0] for x in dreq])):
        got = "CRASH" if o.startswith("CRASH") else ("R" if o == "ERR" else "A")
        if got == "CRASH":
            ctx["rep"].violation("crash:entry:dir", "crash: " + o[:200], {"case": c_})
        elif (got == "A") != ok_:
            ctx["rep"].violation("dir-key-alg:%s" % ("mismatch-accepted" if got == "A" else "match-refused"),
                                 "%s: jose_jwe_enc %s" % (what_, "encrypts (the key's declared algorithm is not the one applied)" if got == "A" else "refuses"), {"case": c_, "implementation": o[:300]})
    dist["dir keys declaring a content algorithm x header enc of the same key size"] = len(dreq)
    return both, impl_only, want


def entry_verdict(case, out):
    f = case.split("\t")
    if out.startswith("CRASH"):
        return "CRASH"
    if f[0] == "jwsver":
        return "A" if out == "T" else "R"
    if f[0] == "keyok" or out in ("A", "R"):
        return out
    return "R" if out == "ERR" else "A"


# The operation each kind of algorithm needs (RFC 7517 4.3 names; "dir" uses the key itself to encrypt the content, the
# ECDH-ES family is registered by jose as key wrapping).  A frozen copy: the registry of the running code is compared
# with it for EVERY registered algorithm, so a permission name changed in one hook table is seen even where the entry
# grid does not use that algorithm.
DOCUMENTED_PRM = {"sign": {"sprm": "sign", "vprm": "verify"}, "wrap": {"eprm": "wrapKey", "dprm": "unwrapKey"},
                  "encr": {"eprm": "encrypt", "dprm": "decrypt"}, "exch": {"prm": "deriveKey"}}
DOCUMENTED_EXCEPT = {"dir": {"eprm": "encrypt", "dprm": "decrypt"}}


def registry_permissions(ctx, dist):
    r = subprocess.run([os.path.join(ctx["bdir"], "h"), "tables"], stdout=subprocess.PIPE, text=True, env=dict(os.environ, **vlib.SAN_ENV))
    n = 0
    for l in r.stdout.split("\n"):
        f = l.split(" ")
        if f[0] != "alg" or f[1] not in DOCUMENTED_PRM:
            continue
        n += 1
        have = dict(x.split("=", 1) for x in f[3:] if "=" in x)
        want_ = DOCUMENTED_EXCEPT.get(f[2], DOCUMENTED_PRM[f[1]])
        for k_, v_ in want_.items():
            if have.get(k_) != v_:
                ctx["rep"].violation("registry-permission:%s:%s" % (f[2], k_),
                                     "the registered algorithm %s (%s) asks for the operation '%s' where '%s' is the one its entry point needs: a key is then admitted / refused by the wrong key_ops / use grant"
                                     % (f[2], f[1], have.get(k_), v_), {"registry_line": l, "expected": want_})
    dist["registered algorithms whose permission names were compared with the documented ones"] = n
    return n


def correspond(ctx):
    names = registry(ctx["bdir"])
    cases, dist = gen(ctx["tier"], ctx["seed"], names)
    registry_permissions(ctx, dist)
    both, impl_only, want = entry_grid(ctx, dist)
    base = Oracle(names)

    def oracle(case, out):
        if case in want:
            op, tag, what = want[case]
            f = case.split("\t")
            key = json.loads(f[3]) if f[0] in ("jwssig", "jwsver", "jweenc", "jweunw", "keyok") else None
            if f[0] == "exc":
                key = json.loads(f[1]) if "local" in what else json.loads(f[2])
            g = grant(key, False, op)
            v = entry_verdict(case, out)
            if v == "CRASH":
                return ("crash:entry:" + what, "crash: " + out[:200])
            if v == "A" and not g:
                return ("entry-not-granted-proceeds:%s:%s" % (what, tag), "%s proceeds with a key whose use/key_ops (%s) do not grant '%s'" % (what, tag, op))
            if v == "R" and g:
                return ("entry-granted-refused:%s:%s" % (what, tag), "%s is refused although the key's use/key_ops (%s) grant '%s'" % (what, tag, op))
            return None
        return base(case, out)

    def normalize(case, out):
        if case in want and case.startswith("exc\t"):
            return "CRASH" if out.startswith("CRASH") else ("R" if out == "ERR" else "A")
        return out

    cases = cases + both
    for c, o in zip(impl_only, vlib.run_cases(os.path.join(ctx["bdir"], "h"), impl_only)):
        v = oracle(c, o)
        if v:
            ctx["rep"].violation(v[0], v[1], {"case": c, "implementation": o[:600]})
    st = runner.standard(
        ctx, cases, oracle, nontrivial, normalize=normalize,
        rule="jose_jwk_prm on all 2^8 key_ops subsets (+junk) x 10 'use' values x operations x req; use/key_ops enforced at every entry point (sign, verify, wrap, unwrap for HMAC/ECDSA/AES-KW/ECDH-ES/RSA-OAEP, content encryption, both keys of ECDH and ECMR exchanges) over 10 metadata shapes with otherwise valid material; declared-alg grids: every ordered pair of registered names of the kind (+ foreign names) at sign, verify, unwrap, content encrypt/decrypt, exchange, the object being produced by the library with a key valid for the header's algorithm; non-trivial = both names present / key carries metadata",
        dist=dist,
        exhaustive_subspaces=["all ordered pairs (header alg, key alg) over the %d signature names + 4 foreign, at sign and verify" % len(names["sign"]),
                              "all (header alg, key alg) over %d key-management and %d content-encryption names at unwrap" % (len(names["wrap"]), len(names["encr"])),
                              "all 2^8 subsets of key_ops with the 5 main 'use' values"])
    st["exhaustive"] = True
    st["evaluations"] += len(impl_only)
    return st
