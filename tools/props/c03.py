"""C03 JWS sign/verify round trip and RFC 7515 interoperability in both directions."""
import collections
import hashlib
import hmac as pyhmac
import json
import os
import random
import re

import jwsgen as G
import runner
import vlib

PID = "C03"
PROP_FILE = "Props/Properties_C03.v"
LEVEL = "proof"
EXTRA_TARGETS = ["Jose/PkAlgs.vo"]   # the BigZ instance evaluated through coqc
ASSUMPTIONS = [
    "C03: proved: the product of jose_jws_sig is the RFC 7515 construction (C03_product, C03_signing_input, C03_signature_text) and the verifier evaluates the primitive on the same bytes (C01); the round trip then follows from the primitive law 'verify(sign(m)) = true', proved for the Gallina HMAC family, assumed for RSA/ECDSA",
    "C03: the full round-trip theorem through encode_protected needs 'parse(dump v) = v' for the JSON codec, which is validated by the correspondence (command jsonrt, and every token of this run) but not proved",
    "C03: the independent implementation is the Gallina model: HMAC bit for bit (extracted), RSASSA-PKCS1-v1_5 / PSS / ECDSA over BigZ inside coqc; RSA private-key exponentiation for model-produced tokens is done by python pow() as an untrusted witness and checked by the model's verification (s^e mod n = EM)",
]

VEC = "/repo/tests/vectors"
HASH = {"HS256": "sha256", "HS384": "sha384", "HS512": "sha512"}


def compact_to_flat(text):
    p, pay, sig = text.strip().split(".")
    return {"protected": p, "payload": pay, "signature": sig}


def load_vectors():
    out = []
    names = sorted(set(f.rsplit(".", 1)[0] for f in os.listdir(VEC) if f.startswith(("rfc7515_A", "rfc7520_4"))))
    for n in names:
        keyf = None
        for ext in (".jwk", ".jwkset"):
            if os.path.exists(os.path.join(VEC, n + ext)):
                keyf = os.path.join(VEC, n + ext)
        if keyf is None:
            continue
        key = json.load(open(keyf))
        for ext in (".jwsc", ".jwsf", ".jwsg"):
            p = os.path.join(VEC, n + ext)
            if not os.path.exists(p):
                continue
            t = open(p).read()
            tok = compact_to_flat(t) if ext == ".jwsc" else json.loads(t)
            if not tok.get("payload"):
                pl = os.path.join(VEC, n + ".payl")
                if os.path.exists(pl):
                    tok["payload"] = G.b64(open(pl, "rb").read())
                else:
                    continue
            out.append((n + ext, tok, key))
    return out


def gen_hmac_sign_cases(rnd, tier, dist):
    cases = []
    J = G.dumps
    pays = [b"", b"x", b"payload", bytes(range(256)), b"\xff" * 65, b"a" * 1000]
    keys = []
    for n in (32, 33, 47, 48, 49, 63, 64, 65, 128, 1024):
        keys.append(G.oct_key(rnd, n))
    weak = [G.oct_key(rnd, n) for n in (0, 1, 16, 31)] + [G.oct_key(rnd, 1025)]
    for k in keys + weak:
        for alg_src in ("template-protected", "template-protected-string", "template-header", "key-alg", "inferred", "key-alg+template"):
            for alg in ("HS256", "HS384", "HS512"):
                kk = dict(k)
                tmpl = None
                if alg_src == "template-protected":
                    tmpl = {"protected": {"alg": alg, "typ": "JWT"}}
                elif alg_src == "template-protected-string":
                    tmpl = {"protected": G.b64(J({"alg": alg}).encode())}
                elif alg_src == "template-header":
                    tmpl = {"header": {"alg": alg, "kid": "1"}}
                elif alg_src == "key-alg":
                    kk["alg"] = alg
                    tmpl = rnd.choice([None, {}, {"protected": {"kid": "k"}}])
                elif alg_src == "inferred":
                    if alg != "HS256":
                        continue
                    tmpl = rnd.choice([None, {"header": {"kid": "u"}}])
                else:
                    kk["alg"] = alg
                    tmpl = {"protected": {"alg": alg}}
                pay = rnd.choice(pays)
                for start in ("fresh", "flat", "general"):
                    jws = {"payload": G.b64(pay)}
                    if start == "flat":
                        jws.update({"signature": "AAAA", "protected": "e30"})
                    elif start == "general":
                        jws["signatures"] = [{"signature": "AAAA"}, {"signature": "BBBB", "header": {"alg": "HS256"}}]
                    if start != "fresh" and rnd.random() < 0.6:
                        continue
                    cases.append("jwssig\t%s\t%s\t%s" % (J(jws), "-" if tmpl is None else J(tmpl), J(kk)))
                    dist["HMAC sign: alg source x key size x start form"] += 1
    # key arrays / JWKSets with one shared template or a template array
    for _ in range(30 if tier == "quick" else 300):
        ks = [dict(rnd.choice(keys)) for _ in range(rnd.randint(0, 4))]
        for k in ks:
            if rnd.random() < 0.5:
                k["alg"] = rnd.choice(["HS256", "HS384", "HS512"])
        tm = rnd.choice([None, {}, {"protected": {"kid": "shared"}}, {"header": {"x": 1}}, [{"protected": {"kid": str(i)}} for i in range(len(ks))], [{}]])
        shape = ks if rnd.random() < 0.5 else {"keys": ks}
        cases.append("jwssig\t%s\t%s\t%s" % (J({"payload": G.b64(rnd.choice(pays))}), "-" if tm is None else J(tm), J(shape)))
        dist["HMAC sign: key sets"] += 1
    # malformed
    for jws in ({}, {"payload": 5}, [], {"payload": "x", "signatures": 5}, {"payload": "x", "signatures": {}}):
        for tm in (None, 5, "s", [], {"protected": 5}, {"protected": []}, {"header": 5}, {"protected": "!!"}, {"protected": {"alg": 5}}):
            cases.append("jwssig\t%s\t%s\t%s" % (J(jws), "-" if tm is None else J(tm), J(keys[0])))
            dist["sign: malformed arguments"] += 1
    return cases


def py_check_hmac_token(case, out):
    """independent recomputation of the last signature of an HMAC product"""
    f = case.split("\t")
    key = json.loads(f[3])
    if isinstance(key, dict) and isinstance(key.get("keys"), list):
        key = key["keys"]
    if isinstance(key, list):
        return py_check_hmac_keyset(f, key, json.loads(out))
    if not isinstance(key, dict):
        return None
    tok = json.loads(out)
    entry = tok["signatures"][-1] if isinstance(tok.get("signatures"), list) and tok["signatures"] else tok
    prot = entry.get("protected", "")
    hdr = {}
    if prot:
        hdr.update(json.loads(G.unb64(prot)))
    alg = hdr.get("alg") or (entry.get("header") or {}).get("alg")
    if alg not in HASH:
        return ("sig-alg-unrecorded", "the product does not name an HMAC algorithm in its merged header")
    k = G.unb64(key["k"])
    want = G.b64(pyhmac.new(k, (prot + "." + tok["payload"]).encode(), HASH[alg]).digest())
    if entry.get("signature") != want:
        return ("sig-hmac-not-rfc7515:" + alg, "HMAC signature differs from HMAC(k, ASCII(protected '.' payload)) for " + alg)
    return None


def py_check_hmac_keyset(f, keys, tok):
    """a key SET was signed with in one call: the product must carry, in key order, one signature per key, each the
    HMAC of ITS key over ITS protected header and the payload, under the algorithm that key calls for"""
    if not keys or not all(isinstance(k, dict) and isinstance(k.get("k"), str) for k in keys):
        return None
    try:
        start = json.loads(f[1])
    except Exception:
        return None
    if not isinstance(start, dict) or "signature" in start or "signatures" in start:
        return None      # pre-existing entries: the position of the new ones is C16's subject
    entries = tok.get("signatures") if isinstance(tok.get("signatures"), list) else [tok]
    if len(entries) != len(keys):
        return ("sig-keyset-count", "%d keys gave %d signatures" % (len(keys), len(entries)))
    for i, (k, e) in enumerate(zip(keys, entries)):
        prot = e.get("protected", "")
        hdr = json.loads(G.unb64(prot)) if prot else {}
        alg = hdr.get("alg") or (e.get("header") or {}).get("alg")
        kb = G.unb64(k["k"])
        implied = k.get("alg") or ("HS512" if len(kb) >= 64 else "HS384" if len(kb) >= 48 else "HS256")
        tmpl_alg = None
        try:
            t = json.loads(f[2]) if f[2] != "-" else None
            ti = t[i] if isinstance(t, list) else t
            if isinstance(ti, dict):
                tp = ti.get("protected")
                tmpl_alg = (tp.get("alg") if isinstance(tp, dict) else None) or (ti.get("header") or {}).get("alg")
        except Exception:
            pass
        if alg not in HASH:
            return ("sig-alg-unrecorded", "signature %d of a key-set product names no HMAC algorithm" % i)
        if tmpl_alg is None and alg != implied:
            return ("sig-keyset-alg-not-per-key", "signature %d of a key-set product is made with %s although its key calls for %s" % (i, alg, implied))
        want = G.b64(pyhmac.new(kb, (prot + "." + tok["payload"]).encode(), HASH[alg]).digest())
        if e.get("signature") != want:
            return ("sig-keyset-hmac-not-rfc7515", "signature %d of a key-set product is not HMAC(key %d, protected '.' payload)" % (i, i))
    return None


def correspond(ctx):
    rep = ctx["rep"]
    rnd = random.Random(ctx["seed"])
    dist = collections.Counter()
    bdir = ctx["bdir"]
    cases = gen_hmac_sign_cases(rnd, ctx["tier"], dist)

    def oracle(case, out):
        if out.startswith("CRASH"):
            return ("crash:" + out[:80], "crash or sanitizer report: " + out)
        if case.startswith("jwssig") and out != "ERR":
            try:
                return py_check_hmac_token(case, out)
            except Exception:
                return None
        return None

    def on_disagree(case, impl, model):
        if impl == "ERR" and model.startswith("{"):
            return ("sign-refuses-valid-request", "jose_jws_sig fails for a request that the independent RFC 7515 producer (Gallina model) serves")
        if impl.startswith("{") and model == "ERR":
            return ("sign-serves-invalid-request", "jose_jws_sig produces a JWS for a request that the independent RFC 7515 producer (Gallina model) refuses")
        if impl.startswith("{") and model.startswith("{"):
            return ("sign-product-differs", "jose_jws_sig's product differs from the independent RFC 7515 producer's (deterministic HMAC)")
        return None

    st = runner.standard(ctx, cases, oracle, lambda c, o: o != "ERR", on_disagree=on_disagree,
                         rule="jose_jws_sig with HMAC keys of sizes 0..1025, the algorithm given in the template (protected object / protected string / unprotected header), by the key's alg or inferred by size, fresh / flattened / general start objects, key arrays and JWKSets with shared or per-key templates, malformed arguments -- product compared bit for bit with the model and with python hmac; model-produced and RFC tokens verified by jose; RSA/PSS/ECDSA products of jose verified by the BigZ model; BigZ-produced ECDSA/RSA tokens verified by jose; non-trivial = a product was made",
                         dist=dist)

    # ---- B/C: RFC vectors and model products verify in jose (and on the model)
    vec = load_vectors()
    vcases, vexp = [], {}
    for name, tok, key in vec:
        for all_ in ("0", "1"):
            c = "jwsver\t%s\t-\t%s\t%s" % (G.dumps(tok), G.dumps(key), all_)
            vcases.append(c)
            # A.6 general with two keys: 'all' over the JWKSet holds too; A.5 (none) has no key file
            vexp[c] = "T"
    impl = G.harness(bdir, vcases)
    for c, o in zip(vcases, impl):
        if o != "T":
            rep.violation("rfc-vector-rejected:" + [n for n, t, k in vec if G.dumps(t) in c][0], "an RFC 7515/7520 example does not verify: " + o,
                          {"case": c, "implementation": o})
    hm_vec = [c for c in vcases if '"kty":"oct"' in c and '"kty":"RSA"' not in c and '"kty":"EC"' not in c]
    if ctx.get("driver") and hm_vec:
        mo = vlib.run_cases(ctx["driver"], hm_vec)
        for c, o in zip(hm_vec, mo):
            if o != "T":
                st["disagreements"] += 1
                st["first_disagreements"].append({"case": c[:1500], "implementation": "T", "model": o})
    dist["RFC 7515 / 7520 section 4 vectors verified by jose"] = len(vcases)

    # ---- C2: several signatures made with the SAME algorithm (key roll-over): each key alone, both in either order and
    #          in all-mode verify the product; an unrelated key does not
    ks0 = G.standard_keys(bdir)
    same = [("HS256", [G.oct_key(rnd, 32), G.oct_key(rnd, 32), G.oct_key(rnd, 32)])]
    if ks0.get("P-256"):
        second = G.strip_meta(G.gen_keys(bdir, [{"kty": "EC", "crv": "P-256", "key_ops": ["sign", "verify"]}])[0])
        same.append(("ES256", [ks0["P-256"], second]))
    sreq = ["jwssig\t%s\t%s\t%s" % (G.dumps({"payload": G.b64(b"same alg")}), G.dumps({"protected": {"alg": a}}), G.dumps(kl)) for a, kl in same]
    vreq, vwant = [], []
    for (a, kl), o in zip(same, G.harness(bdir, sreq)):
        if o == "ERR" or o.startswith("CRASH"):
            rep.violation("multi-same-alg-sign-failed:" + a, "jose_jws_sig with several %s keys failed: %s" % (a, o[:100]), {"alg": a})
            continue
        pubs = [k if k["kty"] == "oct" else G.pub_of(k) for k in kl]
        for k in pubs:
            vreq.append("jwsver\t%s\t-\t%s\t0" % (o, G.dumps(k)))
            vwant.append("T")
        for ksx in (pubs, list(reversed(pubs)), {"keys": pubs}):
            for all_ in ("0", "1"):
                vreq.append("jwsver\t%s\t-\t%s\t%s" % (o, G.dumps(ksx), all_))
                vwant.append("T")
        vreq.append("jwsver\t%s\t-\t%s\t0" % (o, G.dumps(G.oct_key(rnd, 32) if a == "HS256" else G.pub_of(ks0["P-384"]))))
        vwant.append("F")
        # the signature objects handed over as an ARRAY, paired with the keys by position; a pair that cannot work (a key of
        # another type in front) must not disturb the pairs behind it
        sigs_ = json.loads(o).get("signatures") or []
        if len(sigs_) == len(pubs) and len(pubs) >= 2:
            foreign = G.pub_of(ks0["RSA2048"]) if ks0.get("RSA2048") else G.oct_key(rnd, 8)
            for ksx, all_, w_ in ((pubs, "1", "T"), (pubs, "0", "T"), ([foreign] + pubs[1:], "0", "T"), ({"keys": [foreign] + pubs[1:]}, "0", "T"), ([foreign] + pubs[1:], "1", "F")):
                vreq.append("jwsver\t%s\t%s\t%s\t%s" % (o, G.dumps(sigs_), G.dumps(ksx), all_))
                vwant.append(w_)
    for c, o, w in zip(vreq, G.harness(bdir, vreq), vwant):
        if o != w:
            rep.violation("multi-same-alg-roundtrip:" + ("rejects" if w == "T" else "accepts"),
                          "a JWS with several signatures of one algorithm: verification gives %s where %s is due (every signer's key must verify, in any-mode too)" % (o, w), {"case": c[:3000]})
    dist["several signatures of one algorithm: verifications"] = len(vreq)
    st["evaluations"] += len(vreq)

    # ---- C2b: a token grows signature by signature (flattened -> general), the algorithm placed in the protected header,
    #           in the unprotected header only, or left to the key: after every addition EVERY signer's key verifies
    grow = 0
    hk = [G.oct_key(rnd, 32), G.oct_key(rnd, 48)]
    signers = [("HS256", hk[0], hk[0]), ("HS384", hk[1], hk[1])]
    for a_, kn in (("ES256", "P-256"), ("ES384", "P-384"), ("RS256", "RSA2048")):
        if ks0.get(kn):
            signers.append((a_, ks0[kn], G.pub_of(ks0[kn])))
    forms = {"protected": lambda a: G.dumps({"protected": {"alg": a}}), "header": lambda a: G.dumps({"header": {"alg": a}}),
             "both": lambda a: G.dumps({"protected": {"alg": a}, "header": {"kid": "k-" + a}}), "inferred": lambda a: "-"}
    for first_form in forms:
        for second_form in forms:
            for _ in range(2 if ctx["tier"] == "quick" else 8):
                seq = rnd.sample(signers, rnd.choice([2, 2, 3]))
                tok = G.dumps({"payload": G.b64(b"grows")})
                done_ = []
                ok_ = True
                for i, (a_, sk, vk) in enumerate(seq):
                    fm = first_form if i == 0 else second_form
                    if fm == "inferred" and a_ in ("HS384",):
                        fm = "protected"          # a 48-octet key is inferred as HS384 anyway; keep the case simple
                    line = "jwssig\t%s\t%s\t%s" % (tok, forms[fm](a_), G.dumps(sk))
                    o = G.harness(bdir, [line])[0]
                    grow += 1
                    if o == "ERR" or o.startswith("CRASH"):
                        rep.violation("grow-sign-failed:%s:%s" % (fm, a_[:2]), "adding a %s signature (algorithm given through: %s) to a token with %d signature(s) failed: %s" % (a_, fm, i, o[:80]), {"case": line[:3000]})
                        ok_ = False
                        break
                    tok = o
                    done_.append((a_, vk, fm))
                    vl = ["jwsver\t%s\t-\t%s\t0" % (tok, G.dumps(v)) for _, v, _ in done_] + ["jwsver\t%s\t-\t%s\t1" % (tok, G.dumps([v for _, v, _ in done_]))]
                    for (v_, o2) in zip(vl, G.harness(bdir, vl)):
                        grow += 1
                        if o2 != "T":
                            rep.violation("grow-earlier-signature-lost", "after adding signature %d (%s, algorithm through %s; the first one through %s) a signer's key no longer verifies the token: %s"
                                          % (i + 1, a_, fm, first_form, o2[:40]), {"case": v_[:3000], "history": [(x, z) for x, _, z in done_]})
                            ok_ = False
                    if not ok_:
                        break
    dist["tokens grown signature by signature (alg in protected / unprotected header / inferred): calls"] = grow
    st["evaluations"] += grow

    # ---- C3: the streaming producer (jose_jws_sig_io) fed the payload text in arbitrary chunks makes the same token as
    #          the one-shot call (HMAC: bit for bit; ECDSA/RSA: the product verifies and carries the same header)
    sreq2, sone, smeta = [], [], []
    nstream = 60 if ctx["tier"] == "quick" else 600
    skeys = [("HS256", G.oct_key(rnd, 32)), ("HS384", G.oct_key(rnd, 48)), ("HS512", G.oct_key(rnd, 64))]
    for a, kn in G.SIGN_KEY_FOR.items():
        if kn in ks0 and a in ("ES256", "ES384", "ES512", "RS256", "PS256"):
            skeys.append((a, ks0[kn]))
    for i in range(nstream):
        a, k = skeys[i % len(skeys)]
        n = rnd.choice([0, 1, 2, 3, 5, 16, 63, 64, 65, 100, 255, 256, 1000, rnd.randrange(0, 3000)])
        pay = bytes(rnd.getrandbits(8) for _ in range(n))
        tl = len(G.b64(pay))
        mode = rnd.randrange(5)
        if mode == 0 or tl == 0:
            chunks = "-"
        elif mode == 1:
            chunks = ",".join(["1"] * min(tl, 200))
        elif mode == 2:
            chunks = ",".join(str(x) for x in [0, tl // 2, 0])
        else:
            cuts = sorted(rnd.randrange(0, tl + 1) for _ in range(rnd.randrange(1, 6)))
            sizes, prev = [], 0
            for c_ in cuts:
                sizes.append(c_ - prev)
                prev = c_
            chunks = ",".join(str(x) for x in sizes)
        where = rnd.choice(["protected", "protected", "header", "key"])
        if where == "key":
            k = dict(k, alg=a)
            tmpl = "-"
        elif where == "header" :
            tmpl = G.dumps({"header": {"alg": a}})
        else:
            tmpl = G.dumps({"protected": {"alg": a, "n": i}})
        start = rnd.choice([{}, {}, {"signatures": []}])
        sreq2.append("jwssigio\t%s\t%s\t%s\t%s\t%s" % (G.dumps(start), tmpl, G.dumps(k), chunks, pay.hex()))
        sone.append("jwssig\t%s\t%s\t%s" % (G.dumps(dict(start, payload=G.b64(pay))), tmpl, G.dumps(k)))
        smeta.append((a, k, chunks, n))
    so, oo = G.harness(bdir, sreq2), G.harness(bdir, sone)
    vq, vqm = [], []
    for c, c1, o, o1, (a, k, chunks, n) in zip(sreq2, sone, so, oo, smeta):
        if o.startswith("CRASH"):
            rep.violation("crash:" + o[:80], "crash or sanitizer report in the streaming signer: " + o, {"case": c[:3000]})
            continue
        if (o == "ERR") != (o1 == "ERR"):
            rep.violation("stream-sign:verdict-differs-from-one-shot:" + a[:2], "jose_jws_sig_io %s where jose_jws_sig %s for the same request (payload of %d octets fed as %s)"
                          % ("fails" if o == "ERR" else "succeeds", "fails" if o1 == "ERR" else "succeeds", n, chunks[:40]), {"case": c[:3000], "one_shot": c1[:3000], "streaming": o[:600], "one_shot_result": o1[:600]})
            continue
        if o == "ERR":
            continue
        if a.startswith("HS"):
            if o != o1:
                rep.violation("stream-sign:product-differs-from-one-shot", "jose_jws_sig_io fed the payload as %s gives a different HMAC token than jose_jws_sig" % chunks[:40],
                              {"case": c[:3000], "streaming": o[:800], "one_shot": o1[:800]})
        else:
            t, t1 = json.loads(o), json.loads(o1)
            if {x: t.get(x) for x in ("payload", "protected", "header")} != {x: t1.get(x) for x in ("payload", "protected", "header")}:
                rep.violation("stream-sign:product-differs-from-one-shot", "jose_jws_sig_io's token differs from jose_jws_sig's outside the signature value", {"case": c[:3000], "streaming": o[:800], "one_shot": o1[:800]})
            vq.append("jwsver\t%s\t-\t%s\t0" % (o, G.dumps(G.pub_of(k))))
            vqm.append(c)
    for c, v, o in zip(vqm, vq, G.harness(bdir, vq)):
        if o != "T":
            rep.violation("stream-sign:product-does-not-verify", "a token made by jose_jws_sig_io does not verify under the signer's public key: " + o[:60], {"case": c[:3000], "verify": v[:3000]})
    dist["streaming signer vs one-shot (chunked payload text)"] = len(sreq2)
    st["evaluations"] += 2 * len(sreq2) + len(vq)

    # ---- D0: many ECDSA products: r and s always at the curve's full width (a leading zero octet occurs in about one
    #          signature out of 128) and valid under an independent python verifier
    import pyec
    HN = {"ES256": "sha256", "ES384": "sha384", "ES512": "sha512", "ES256K": "sha256"}
    keys0 = G.standard_keys(bdir)
    nsig = 300 if ctx["tier"] == "quick" else 3000
    ereq, emeta = [], []
    for alg, kn in G.SIGN_KEY_FOR.items():
        if not alg.startswith("ES") or kn not in keys0:
            continue
        for i in range(nsig):
            ereq.append("jwssig\t%s\t%s\t%s" % (G.dumps({"payload": G.b64(b"w%d" % i)}), G.dumps({"protected": {"alg": alg}}), G.dumps(keys0[kn])))
            emeta.append((alg, kn))
    nlead = 0
    for r_, o, (alg, kn) in zip(ereq, G.harness(bdir, ereq), emeta):
        if o == "ERR" or o.startswith("CRASH"):
            rep.violation("pk-sign-failed:" + alg, "jose_jws_sig failed with a valid %s key: %s" % (alg, o[:200]), {"case": r_})
            continue
        tok = json.loads(o)
        sg = G.unb64(tok["signature"])
        cv = pyec.CURVES[kn]
        if len(sg) != 2 * cv["size"]:
            rep.violation("ecdsa-signature-width:" + alg, "an %s signature has %d octets instead of %d (r and s must each be the full %d octets, RFC 7518 3.4)" % (alg, len(sg), 2 * cv["size"], cv["size"]),
                          {"case": r_, "implementation": o[:600]})
            continue
        lead = sg[0] == 0 or sg[cv["size"]] == 0
        nlead += lead
        if lead or rnd.random() < 0.1:
            k = keys0[kn]
            Q = (int.from_bytes(G.unb64(k["x"]), "big"), int.from_bytes(G.unb64(k["y"]), "big"))
            dg = hashlib.new(HN[alg], (tok["protected"] + "." + tok["payload"]).encode()).digest()
            if not pyec.ecdsa_verify(cv, Q, dg, sg):
                rep.violation("ecdsa-product-invalid:" + alg, "an %s JWS produced by jose does not verify under an independent ECDSA verifier" % alg, {"case": r_, "implementation": o[:600]})
    dist["ECDSA products checked for width (with a leading zero octet in r or s: %d)" % nlead] = len(ereq)
    st["evaluations"] += len(ereq)

    # ---- D1: tokens made OUTSIDE the library (python ECDSA, all four curves): RFC 7515 / 8812 accept every (r, s) with
    #          1 <= r, s < n, so both s and n - s verify -- there is no "low s" rule in JOSE
    ireq, imeta = [], []
    for alg, kn in G.SIGN_KEY_FOR.items():
        if not alg.startswith("ES") or kn not in keys0:
            continue
        cv = pyec.CURVES[kn]
        k = keys0[kn]
        d = int.from_bytes(G.unb64(k["d"]), "big")
        for i in range(6 if ctx["tier"] == "quick" else 40):
            prot = G.b64(G.dumps({"alg": alg}).encode())
            pay = G.b64(b"outside %d" % i)
            dg = hashlib.new(HN[alg], (prot + "." + pay).encode()).digest()
            sg = pyec.ecdsa_sign(cv, d, dg, rnd.randrange(1, cv["n"]))
            sz = cv["size"]
            r_, s_ = sg[:sz], int.from_bytes(sg[sz:], "big")
            for half, sv in (("s", s_), ("n-s", cv["n"] - s_)):
                tok = {"protected": prot, "payload": pay, "signature": G.b64(r_ + sv.to_bytes(sz, "big"))}
                ireq.append("jwsver\t%s\t-\t%s\t0" % (G.dumps(tok), G.dumps(G.pub_of(k))))
                imeta.append((alg, half, "high" if sv > cv["n"] // 2 else "low"))
    for c, o, (alg, half, hl) in zip(ireq, G.harness(bdir, ireq), imeta):
        if o != "T":
            rep.violation("independent-ecdsa-token-rejected:%s:%s-s" % (alg, hl), "an %s token signed outside the library (%s half of the order) does not verify in jose: %s" % (alg, hl, o[:40]), {"case": c[:3000]})
    dist["ECDSA tokens signed outside the library, s and n - s"] = len(ireq)
    st["evaluations"] += len(ireq)

    # ---- D2: RSA keys whose modulus length is NOT a multiple of 8 bits (2050, 2052): signatures have ceil(bits/8) octets;
    #          jose's RS256 product is checked by python (EMSA-PKCS1-v1_5), jose verifies its own RS/PS products and python's
    import pyrsa
    oddkeys = [k for k in G.gen_keys(bdir, [{"kty": "RSA", "bits": b} for b in ((2050,) if ctx["tier"] == "quick" else (2050, 2052, 2060))]) if k]
    for k in oddkeys:
        k = G.strip_meta(k)
        ki = {m: int.from_bytes(G.unb64(k[m]), "big") for m in ("n", "e", "d")}
        bits = ki["n"].bit_length()
        for alg, hn in (("RS256", "sha256"), ("PS256", "sha256"), ("RS512", "sha512")):
            o = G.harness(bdir, ["jwssig\t%s\t%s\t%s" % (G.dumps({"payload": G.b64(b"odd modulus")}), G.dumps({"protected": {"alg": alg}}), G.dumps(k))])[0]
            if not o.startswith("{"):
                rep.violation("odd-modulus:sign-failed:" + alg, "jose_jws_sig fails with a %d-bit RSA key: %s" % (bits, o[:60]), {"key_bits": bits})
                continue
            tok = json.loads(o)
            sgb = G.unb64(tok["signature"])
            msg = (tok["protected"] + "." + tok["payload"]).encode()
            if alg.startswith("RS") and not pyrsa.pkcs1_v15_verify(ki, hn, msg, sgb):
                rep.violation("odd-modulus:product-invalid:" + alg, "the %s signature jose makes with a %d-bit RSA key (%d octets) is not a valid RSASSA-PKCS1-v1_5 signature" % (alg, bits, len(sgb)), {"token": o[:600]})
            theirs = dict(tok, signature=G.b64(pyec.rsa_pkcs1_sign(ki, hn, msg) if alg.startswith("RS") else pyrsa.pss_sign(ki, hn, msg, hashlib.new(hn).digest_size)))
            vv = ["jwsver\t%s\t-\t%s\t0" % (o, G.dumps(k)), "jwsver\t%s\t-\t%s\t0" % (o, G.dumps(G.pub_of(k))), "jwsver\t%s\t-\t%s\t0" % (G.dumps(theirs), G.dumps(G.pub_of(k)))]
            for c_, r_, who in zip(vv, G.harness(bdir, vv), ("its own token under the private key", "its own token under the public half", "the token made outside the library")):
                st["evaluations"] += 1
                if r_ != "T":
                    rep.violation("odd-modulus:verify-rejects:" + alg, "%s with a %d-bit RSA key: jose does not verify %s (%s)" % (alg, bits, who, r_[:20]), {"case": c_[:3000]})
    dist["RSA keys whose modulus is not a whole number of octets"] = len(oddkeys)

    # ---- D: jose's public-key products verified by the BigZ model; E: BigZ products verified by jose
    keys = G.standard_keys(bdir)
    req, meta = [], []
    for alg, kn in G.SIGN_KEY_FOR.items():
        if kn not in keys:
            continue
        for src in ("template", "inferred"):
            if src == "inferred" and alg not in ("ES256", "ES384", "ES512", "ES256K", "RS256"):
                continue
            tmpl = {"protected": {"alg": alg}} if src == "template" else None
            req.append("jwssig\t%s\t%s\t%s" % (G.dumps({"payload": G.b64(b"interop " + alg.encode())}), "-" if tmpl is None else G.dumps(tmpl), G.dumps(keys[kn])))
            meta.append((alg, kn))
    outs = G.harness(bdir, req)
    lines, info = [], []
    for o, (alg, kn) in zip(outs, meta):
        if o == "ERR" or o.startswith("CRASH"):
            rep.violation("pk-sign-failed:" + alg, "jose_jws_sig failed with a valid %s key: %s" % (alg, o), {"case": req[len(info)]})
            info.append(None)
            continue
        pub = G.pub_of(keys[kn])
        lines.append("  pk_ver %s [] %s false" % (G.coq_bytes(o.encode()), G.coq_bytes(G.dumps(pub).encode())))
        info.append((alg, o))
    # E: producer side
    prod = []
    k256, k384 = keys.get("P-256"), keys.get("P-384")
    for alg, k, crv in (("ES256", k256, "P-256"), ("ES384", k384, "P-384")):
        if not k:
            continue
        prot = G.b64(G.dumps({"alg": alg}).encode())
        pay = G.b64(b"made by the model " + alg.encode())
        nonce = bytes(rnd.getrandbits(8) for _ in range(24))
        prod.append((alg, k, prot, pay))
        lines.append("  match pk_es_sign %s %s %s %s %s with Some _ => Some true | None => Some false end" %
                     (G.coq_bytes(alg.encode()), G.coq_bytes(crv.encode()), G.coq_bytes(G.unb64(k["d"])), G.coq_bytes(nonce), G.coq_bytes((prot + "." + pay).encode())))
    body = ("From JoseV Require Import Jose.PkAlgs.\nFrom Coq Require Import List NArith. Import ListNotations. Local Open Scope N_scope.\n"
            "Definition results : list (option bool) := [\n" + ";\n".join(lines) + "\n].\nEval vm_compute in results.\n")
    # signatures themselves: second evaluation printing the bytes
    sigdefs = []
    for i, (alg, k, prot, pay) in enumerate(prod):
        pass
    rc, out = G.run_coq_cases("c03", body)
    res = G.parse_bool_list(out) if rc == 0 else None
    nver = len([x for x in info if x])
    if res is None or len(res) != len(lines):
        rep.violation("pk-model-run", "the BigZ model run failed: %s" % (out or "")[-400:], {"broken": "coqc cases for C03"}, found=False)
    else:
        j = 0
        for x in info:
            if x is None:
                continue
            if res[j] is not True:
                rep.violation("pk-product-not-rfc7515:" + x[0], "a %s token produced by jose is rejected by the independent implementation" % x[0],
                              {"token": x[1], "model": str(res[j])})
                st["disagreements"] += 1
            j += 1
    # model-produced ECDSA tokens -> jose (needs the signature bytes: separate run printing them)
    if prod:
        lines2 = []
        for alg, k, prot, pay in prod:
            nonce = hashlib.sha256((prot + pay).encode()).digest()[:24]
            crv = k["crv"]
            lines2.append("  pk_es_sign %s %s %s %s %s" % (G.coq_bytes(alg.encode()), G.coq_bytes(crv.encode()), G.coq_bytes(G.unb64(k["d"])),
                                                            G.coq_bytes(nonce), G.coq_bytes((prot + "." + pay).encode())))
        body2 = ("From JoseV Require Import Jose.PkAlgs.\nFrom Coq Require Import List NArith. Import ListNotations. Local Open Scope N_scope.\n"
                 "Definition sigs : list (option (list N)) := [\n" + ";\n".join(lines2) + "\n].\nEval vm_compute in sigs.\n")
        rc2, out2 = G.run_coq_cases("c03b", body2)
        sigs = re.findall(r"Some\s*\[([0-9;\s]*)\]", out2 or "")
        vc = []
        for (alg, k, prot, pay), s in zip(prod, sigs):
            sb = bytes(int(x) for x in s.replace("\n", " ").split(";") if x.strip())
            tok = {"protected": prot, "payload": pay, "signature": G.b64(sb)}
            vc.append("jwsver\t%s\t-\t%s\t0" % (G.dumps(tok), G.dumps(G.pub_of(k))))
        if len(vc) != len(prod):
            rep.violation("pk-model-run", "the BigZ producer run failed: %s" % (out2 or "")[-300:], {"broken": "coqc producer for C03"}, found=False)
        for c, o in zip(vc, G.harness(bdir, vc)):
            if o != "T":
                rep.violation("model-ecdsa-token-rejected", "an ECDSA token produced by the independent implementation does not verify in jose", {"case": c, "implementation": o})
        dist["model-produced ECDSA tokens verified by jose"] = len(vc)
    st["evaluations"] += len(vcases) + len(req)
    st["distinct_nontrivial"] += len(vcases) + nver
    dist["jose public-key products verified by the BigZ model"] = nver
    st["dist"] = dict(dist)
    return st
