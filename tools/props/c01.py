"""C01 JWS verification is sound."""
import collections
import hashlib
import json
import os
import random

import jwsgen as G
import runner
import vlib

PID = "C01"
PROP_FILE = "Props/Properties_C01.v"
LEVEL = "proof"
EXTRA_TARGETS = ["Jose/PkAlgs.vo"]   # the BigZ instance evaluated through coqc
ASSUMPTIONS = [
    "C01: what is proved is that jose's verdict is EXACTLY the any/all composition of the primitive verification predicate sa_verify over exactly protected || '.' || payload with exactly the decoded signature member, for every chunking; that a changed message does not verify under the primitive (EUF-CMA of HMAC/RSA/ECDSA) is cryptography and is not proved",
    "C01: the primitives on the model side are independent Gallina implementations (HMAC-SHA2 extracted to OCaml; RSASSA-PKCS1-v1_5 / PSS / ECDSA over Bignums.BigZ evaluated by vm_compute inside coqc, whose primitive Int63 operations appear in Print Assumptions of those definitions, not of the theorems)",
    "C01: the empty signature value is rejected by every algorithm on the runs; as a theorem it needs the per-algorithm fact 'sa_verify never accepts []', which is not proved for the Gallina HMAC (no length lemma for the hash)",
]

ALPH = "ABCDEFGHIJKLMNOPQRSTUVWXYZabcdefghijklmnopqrstuvwxyz0123456789-_"


def make_tokens(bdir, rnd):
    """tokens produced by the library itself: (token, key, alg)"""
    keys = G.standard_keys(bdir)
    toks = []
    req = []
    meta = []
    for alg, n in (("HS256", 32), ("HS384", 48), ("HS512", 64), ("HS256", 100)):
        k = G.oct_key(rnd, n)
        for pay in (b"", b"payload", bytes(range(40))):
            for tmpl in ({"protected": {"alg": alg}}, {"header": {"alg": alg}}, {"protected": {"alg": alg, "kid": "a"}, "header": {"x": 1}}):
                req.append("jwssig\t%s\t%s\t%s" % (G.dumps({"payload": G.b64(pay)}), G.dumps(tmpl), G.dumps(k)))
                meta.append((k, alg))
    for alg, kn in G.SIGN_KEY_FOR.items():
        if kn not in keys:
            continue
        req.append("jwssig\t%s\t%s\t%s" % (G.dumps({"payload": G.b64(b"pk payload")}), G.dumps({"protected": {"alg": alg}}), G.dumps(keys[kn])))
        meta.append((keys[kn], alg))
    outs = G.harness(bdir, req)
    for o, (k, alg) in zip(outs, meta):
        if o != "ERR" and not o.startswith("CRASH"):
            toks.append((json.loads(o), k, alg))
    return toks, keys


def mutate_char(rnd, s):
    i = rnd.randrange(len(s))
    c = rnd.choice([x for x in ALPH if x != s[i]])
    return s[:i] + c + s[i + 1:]


def cases_for(tok, key, alg, rnd, nmut, dist):
    cases = []
    vk = G.pub_of(key) if key.get("kty") != "oct" else key
    J = G.dumps
    base = lambda t, k, a="0": "jwsver\t%s\t-\t%s\t%s" % (J(t), J(k), a)
    cases.append((base(tok, vk), "T"))
    cases.append((base(tok, key), "T"))
    dist["valid tokens"] += 2
    # key-set shapes and modes
    other = G.oct_key(rnd, 64) if key.get("kty") == "oct" else {"kty": "oct", "k": G.b64(b"x" * 64)}
    for ks, any_, all_ in (([vk], "T", "T"), ([vk, other], "T", "F"), ([other, vk], "T", "F"), ([other], "F", "F"), ([], "F", "F"), ([vk, vk], "T", "T")):
        cases.append((base(tok, ks, "0"), any_))
        cases.append((base(tok, ks, "1"), all_))
        cases.append((base(tok, {"keys": ks}, "0"), any_))
        cases.append((base(tok, {"keys": ks}, "1"), all_))
        dist["key-set shapes x any/all"] += 4
    # single-character mutations of payload / protected / signature / key
    for _ in range(nmut):
        t = dict(tok)
        which = rnd.choice(["payload", "protected", "signature", "key"])
        k2 = vk
        if which == "key":
            k2 = dict(vk)
            m = "k" if "k" in vk else ("n" if "n" in vk else "x")
            k2[m] = mutate_char(rnd, vk[m])
        else:
            if not t.get(which):
                continue
            t[which] = mutate_char(rnd, t[which])
        cases.append((base(t, k2), "F"))
        dist["single-character mutations"] += 1
    # the PRIVATE form of the key with its public members altered (the verifier must use -- and check -- what the key
    # says its public part is): one character of x / y / n changed, or the public members of another key
    if key.get("kty") in ("EC", "RSA") and "d" in key:
        for m in ("x", "y") if key["kty"] == "EC" else ("n",):
            k3 = dict(key)
            k3[m] = mutate_char(rnd, key[m])
            cases.append((base(tok, k3), "F"))
            dist["private-form key with altered public members"] += 1
        if key["kty"] == "EC":
            import pyec
            cv = pyec.CURVES.get(key.get("crv"))
            if cv:
                d2 = rnd.randrange(1, cv["n"])
                x2, y2 = pyec.mul(cv, d2, pyec.base(cv))
                k4 = dict(key, x=G.b64(x2.to_bytes(cv["size"], "big")), y=G.b64(y2.to_bytes(cv["size"], "big")))
                cases.append((base(tok, k4), "F"))
                cases.append((base(tok, [k4, k4], "1"), "F"))
                dist["private-form key with altered public members"] += 2
    # structural mutations
    for mut in ("del-signature", "empty-signature", "int-signature", "del-protected", "obj-protected", "general", "general-empty", "general-mixed",
                "payload-missing", "payload-int", "protected-alg-none", "sig-arg-object", "sig-arg-array",
                "inject-protected-object", "inject-protected-object-general", "inject-protected-int", "inject-protected-array"):
        t = dict(tok)
        exp = "F"
        sigarg = "-"
        if mut == "del-signature":
            t.pop("signature")
        elif mut == "empty-signature":
            t["signature"] = ""
        elif mut == "int-signature":
            t["signature"] = 5
        elif mut == "del-protected":
            if "protected" not in t:
                continue
            t.pop("protected")
        elif mut == "obj-protected":
            if "protected" not in t:
                continue
            t["protected"] = json.loads(G.unb64(t["protected"]))
        elif mut in ("general", "general-empty", "general-mixed"):
            entry = {m: t.pop(m) for m in ("signature", "protected", "header") if m in t}
            bad = dict(entry, signature=mutate_char(rnd, entry["signature"]))
            t["signatures"] = {"general": [entry], "general-empty": [], "general-mixed": [bad, 5, entry, {}]}[mut]
            exp = "F" if mut == "general-empty" else "T"
        elif mut.startswith("inject-protected"):
            # a token signed over ".payload" (alg in the unprotected header only) gets a protected member that is
            # NOT a string: that member is not covered by the signature and must make verification fail
            if "protected" in t:
                continue
            val = {"inject-protected-int": 5, "inject-protected-array": ["x"]}.get(mut, {"crit": ["exp"], "exp": 0, "x": "injected"})
            if mut.endswith("general"):
                entry = {m: t.pop(m) for m in ("signature", "header") if m in t}
                entry["protected"] = val
                t["signatures"] = [entry]
            else:
                t["protected"] = val
        elif mut == "payload-missing":
            t.pop("payload")
        elif mut == "payload-int":
            t["payload"] = 5
        elif mut == "protected-alg-none":
            t["protected"] = G.b64(b'{"alg":"none"}')
        elif mut == "sig-arg-object":
            entry = {m: tok[m] for m in ("signature", "protected", "header") if m in tok}
            sigarg = J(entry)
            exp = "T"
        elif mut == "sig-arg-array":
            entry = {m: tok[m] for m in ("signature", "protected", "header") if m in tok}
            cases.append(("jwsver\t%s\t%s\t%s\t1" % (J(tok), J([entry, entry]), J([vk, vk])), "T"))
            cases.append(("jwsver\t%s\t%s\t%s\t1" % (J(tok), J([entry]), J([vk, vk])), "F"))
            dist["structural mutations"] += 2
            continue
        cases.append(("jwsver\t%s\t%s\t%s\t0" % (J(t), sigarg, J(vk)), exp))
        dist["structural mutations"] += 1
    return cases


def gen(tier, seed, bdir):
    rnd = random.Random(seed)
    dist = collections.Counter()
    toks, keys = make_tokens(bdir, rnd)
    hm, pk = [], []
    for tok, key, alg in toks:
        cs = cases_for(tok, key, alg, rnd, (60 if tier == "quick" else 600) if key.get("kty") == "oct" else (3 if tier == "quick" else 12), dist)
        (hm if key.get("kty") == "oct" else pk).extend(cs)
    # streaming: every composition of short payloads, HMAC
    from props.c07 import compositions
    for tok, key, alg in [t for t in toks if t[1].get("kty") == "oct"][:6]:
        pay = G.unb64(tok["payload"])
        text = tok["payload"].encode()       # what is fed is the payload TEXT
        for comp in list(compositions(len(text)))[:64 if tier == "quick" else 512] or [[]]:
            hm.append(("jwsverio\t%s\t-\t%s\t0\t%s\t%s" % (G.dumps(tok), G.dumps(key), ",".join(map(str, comp)) or "-", text.hex() or "-"), "%d T" % len(comp)))
            dist["streamed payload compositions"] += 1
        bad = bytearray(text or b"A")
        bad[0] ^= 1
        hm.append(("jwsverio\t%s\t-\t%s\t0\t%d\t%s" % (G.dumps(tok), G.dumps(key), len(bad), bytes(bad).hex()), "1 F"))
    # multi-signature tokens with several HMAC keys, any/all
    hs = [t for t in toks if t[1].get("kty") == "oct"]
    for i in range(0, len(hs) - 1, 5):
        (t1, k1, _), (t2, k2, _) = hs[i], hs[i + 1]
        if t1["payload"] != t2["payload"]:
            continue
        e1 = {m: t1[m] for m in ("signature", "protected", "header") if m in t1}
        e2 = {m: t2[m] for m in ("signature", "protected", "header") if m in t2}
        multi = {"payload": t1["payload"], "signatures": [e1, e2]}
        k3 = G.oct_key(rnd, 64)
        for ks, any_, all_ in (([k1, k2], "T", "T"), ([k2, k1], "T", "T"), ([k1, k3], "T", "F"), ([k3], "F", "F"), ([k1], "T", "T")):
            hm.append(("jwsver\t%s\t-\t%s\t0" % (G.dumps(multi), G.dumps(ks)), any_))
            hm.append(("jwsver\t%s\t-\t%s\t1" % (G.dumps(multi), G.dumps(ks)), all_))
            dist["multi-signature x key sets"] += 2
    return hm, pk, dict(dist)


def independent_tokens(ctx, dist):
    """tokens signed OUTSIDE the library (python ECDSA over the four curves, PKCS#1 v1.5 with the RSA key's d): the
    genuine one verifies, the same construction over another digest does not -- one-shot and streaming"""
    import pyec
    rep = ctx["rep"]
    rnd = random.Random(ctx["seed"] + 3)
    keys = G.standard_keys(ctx["bdir"])
    HN = {"ES256": "sha256", "ES384": "sha384", "ES512": "sha512", "ES256K": "sha256", "RS256": "sha256", "RS384": "sha384", "RS512": "sha512"}
    cases, want, what = [], [], []
    for alg, hn in HN.items():
        k = keys.get(G.SIGN_KEY_FOR[alg])
        if not k:
            continue
        for where in ("protected", "header"):
            for payload in (b"", b"made outside the library " + alg.encode()):
                prot = G.b64(G.dumps({"alg": alg}).encode()) if where == "protected" else ""
                pay = G.b64(payload)
                msg = (prot + "." + pay).encode()
                for h2 in sorted(set([hn, "sha1", "sha256", "sha384", "sha512"])):
                    if alg.startswith("ES"):
                        cv = pyec.CURVES[k["crv"]]
                        d = int.from_bytes(G.unb64(k["d"]), "big")
                        sg = pyec.ecdsa_sign(cv, d, hashlib.new(h2, msg).digest(), rnd.randrange(1, cv["n"]))
                    else:
                        if h2 == "sha1":
                            continue
                        rk = {m: int.from_bytes(G.unb64(k[m]), "big") for m in ("n", "d")}
                        sg = pyec.rsa_pkcs1_sign(rk, hn, msg) if h2 == hn else None
                        if sg is None:
                            # the right DigestInfo over the wrong digest
                            t = pyec.DI[hn] + hashlib.new(h2, msg).digest()[:hashlib.new(hn).digest_size].ljust(hashlib.new(hn).digest_size, b"\0")
                            kl = (rk["n"].bit_length() + 7) // 8
                            em = b"\x00\x01" + b"\xff" * (kl - len(t) - 3) + b"\x00" + t
                            sg = pow(int.from_bytes(em, "big"), rk["d"], rk["n"]).to_bytes(kl, "big")
                    tok = {"payload": pay, "signature": G.b64(sg)}
                    if where == "protected":
                        tok["protected"] = prot
                    else:
                        tok["header"] = {"alg": alg}
                    pub = G.pub_of(k)
                    w = "T" if h2 == hn else "F"
                    cases.append("jwsver\t%s\t-\t%s\t0" % (G.dumps(tok), G.dumps(pub)))
                    want.append(w)
                    what.append((alg, h2))
                    text = pay.encode()
                    cases.append("jwsverio\t%s\t-\t%s\t0\t%s\t%s" % (G.dumps(tok), G.dumps(pub), ("1,%d" % (len(text) - 1)) if len(text) > 1 else "-", text.hex() or "-"))
                    want.append(w)
                    what.append((alg, h2))
    # RSASSA-PSS made outside the library (python EMSA-PSS): RFC 7518 3.5 fixes the salt to the size of the hash -- the genuine
    # one verifies, the same signature with another salt length is another algorithm and does not
    import pyrsa
    rk = keys.get("RSA2048")
    if rk:
        rki = {m: int.from_bytes(G.unb64(rk[m]), "big") for m in ("n", "e", "d")}
        for alg, hn in (("PS256", "sha256"), ("PS384", "sha384"), ("PS512", "sha512")):
            hl = hashlib.new(hn).digest_size
            prot = G.b64(G.dumps({"alg": alg}).encode())
            for payload in (b"", b"pss outside"):
                pay = G.b64(payload)
                for sl in (hl, 0, 20, hl - 1, hl + 1, 256 - hl - 2):
                    sg = pyrsa.pss_sign(rki, hn, (prot + "." + pay).encode(), sl)
                    if sg is None:
                        continue
                    tok = {"protected": prot, "payload": pay, "signature": G.b64(sg)}
                    cases.append("jwsver\t%s\t-\t%s\t0" % (G.dumps(tok), G.dumps(G.pub_of(rk))))
                    want.append("T" if sl == hl else "F")
                    what.append((alg, "RSASSA-PSS with a salt of %d octets (the hash has %d)" % (sl, hl)))
    # the payload TEXT is what was signed, all of it: a genuine token whose payload member is continued behind an embedded
    # NUL (a JSON string may hold one) presents another text and must not verify, one-shot and streaming alike
    for alg in ("ES256", "RS256", "ES512"):
        k = keys.get(G.SIGN_KEY_FOR[alg])
        if not k:
            continue
        made = G.harness(ctx["bdir"], ["jwssig\t%s\t%s\t%s" % (G.dumps({"payload": G.b64(b"hello")}), G.dumps({"protected": {"alg": alg}}), G.dumps(k))])[0]
        if not made.startswith("{"):
            continue
        tok = json.loads(made)
        for tail in ("\u0000", "\u0000dHJhbnNmZXI", "\u0000" + tok["payload"]):
            t2 = dict(tok, payload=tok["payload"] + tail)
            cases.append("jwsver\t%s\t-\t%s\t0" % (G.dumps(t2), G.dumps(G.pub_of(k))))
            want.append("F")
            what.append((alg, "a payload continued behind an embedded NUL"))
            text = t2["payload"].encode()
            cases.append("jwsverio\t%s\t-\t%s\t0\t%d\t%s" % (G.dumps(t2), G.dumps(G.pub_of(k)), len(text), text.hex()))
            want.append("F")
            what.append((alg, "a payload continued behind an embedded NUL"))
    # signature objects given as an ARRAY paired with a key array: pair i is (sigs[i], keys[i]); an unusable earlier pair
    # (a key of another type) must not shift the pairing of the later ones (any-mode)
    hk = G.oct_key(rnd, 32)
    ek = keys.get("P-256")
    rk = keys.get("RSA2048")
    if ek and rk:
        made = G.harness(ctx["bdir"], ["jwssig\t%s\t%s\t%s" % (G.dumps({"payload": G.b64(b"pairs")}), G.dumps([{"protected": {"alg": "ES256"}}, {"protected": {"alg": "HS256"}}]), G.dumps([ek, hk]))])[0]
        if made.startswith("{"):
            tok = json.loads(made)
            sigs = tok["signatures"]
            for ks, all_, w in (([G.pub_of(ek), hk], "1", "T"), ([G.pub_of(ek), hk], "0", "T"), ([G.pub_of(rk), hk], "0", "T"), ({"keys": [G.pub_of(rk), hk]}, "0", "T"),
                                ([G.pub_of(rk), hk], "1", "F"), ([hk, G.pub_of(ek)], "0", "F"), ([dict(G.pub_of(ek), key_ops=["sign"]), hk], "0", "T")):
                cases.append("jwsver\t%s\t%s\t%s\t%s" % (made, G.dumps(sigs), G.dumps(ks), all_))
                want.append(w)
                what.append(("sigs[]", "signature objects paired with keys by position"))
    outs = G.harness(ctx["bdir"], cases)
    for c, o, w, (alg, h2) in zip(cases, outs, want, what):
        got = "T" if o.endswith("T") and not o.startswith("CRASH") else "F"
        if o.startswith("CRASH"):
            rep.violation("crash:" + o[:80], "crash or sanitizer report: " + o, {"case": c[:3000]})
        elif got != w:
            rep.violation("independent-token:%s:%s" % ("rejected" if w == "T" else "accepted", alg),
                          ("a %s token signed outside the library over %s(signing input) is %s" % (alg, h2, "rejected (it is the genuine construction)" if w == "T" else "accepted (the algorithm demands another digest)"))
                          if h2.startswith("sha") else "%s: %s -- verification %s" % (alg, h2, "fails" if w == "T" else "succeeds"),
                          {"case": c[:3000], "implementation": o})
    dist["tokens signed outside the library (python ECDSA / PKCS#1 v1.5), right and wrong digest"] = len(cases)
    return len(cases)


def correspond(ctx):
    rep = ctx["rep"]
    hm, pk, dist = gen(ctx["tier"], ctx["seed"], ctx["bdir"])
    expected = dict(hm + pk)

    def oracle(case, out):
        if out.startswith("CRASH"):
            return ("crash:" + out[:80], "crash or sanitizer report: " + out)
        want = expected.get(case)
        if want is not None and out != want:
            f = case.split("\t")
            kind = "accepts" if out.endswith("T") else "rejects"
            return ("ver-%s" % kind, "verification %s where the construction of the case demands %s" % (kind, want))
        return None

    def on_disagree(case, impl, model):
        if impl.endswith("T") and model.endswith("F"):
            return ("accepts-what-rfc7515-rejects", "jose verifies a token that the independent RFC 7515 verifier (Gallina model) rejects")
        return None

    st = runner.standard(
        ctx, [c for c, _ in hm], oracle, lambda c, o: True, on_disagree=on_disagree,
        rule="tokens produced by the library for every signature algorithm; verification with the signing key / its public half in single, array, JWKSet, empty shapes and any/all; single-character mutations of payload, protected, signature and key; structural mutations (incl. a non-string protected member injected into tokens signed with an unprotected header only); every composition of the payload text into feeds; multi-signature tokens. HMAC cases are also run on the extracted model; RSA/EC cases on the BigZ model inside coqc. non-trivial = all (every case exercises the verifier)",
        dist=dist)
    # ---- public-key tokens: implementation + oracle, model through coqc
    pkc = [c for c, _ in pk]
    impl = G.harness(ctx["bdir"], pkc)
    for c, o in zip(pkc, impl):
        v = oracle(c, o)
        if v:
            rep.violation(v[0], v[1], {"case": c, "implementation": o})
    # model: a sample through coqc (BigZ)
    rnd = random.Random(ctx["seed"])
    sample = [i for i in range(len(pkc)) if pkc[i].split("\t")[2] == "-"]
    rnd.shuffle(sample)

    def alg_of(case):
        try:
            t = json.loads(case.split("\t")[1])
            sg = t["signatures"][0] if "signatures" in t else t
            h = dict(sg.get("header") or {})
            if isinstance(sg.get("protected"), str):
                h.update(json.loads(G.unb64(sg["protected"])))
            return h.get("alg")
        except Exception:
            return None
    # every algorithm is represented on the model by tokens the construction expects to VERIFY (two each) ...
    strat, seen = [], collections.Counter()
    for i in sample:
        a = alg_of(pkc[i])
        if a and expected.get(pkc[i], "").endswith("T") and seen[a] < 2:
            seen[a] += 1
            strat.append(i)
    # ... and the rest of the budget is a random sample
    budget = 24 if ctx["tier"] == "quick" else 200
    sample = sorted(set(strat + sample[:budget]))
    lines = []
    for i in sample:
        f = pkc[i].split("\t")
        lines.append("  pk_ver %s [] %s %s" % (G.coq_bytes(f[1].encode()), G.coq_bytes(f[3].encode()), "true" if f[4] == "1" else "false"))
    body = ("From JoseV Require Import Jose.PkAlgs.\nFrom Coq Require Import List NArith. Import ListNotations. Local Open Scope N_scope.\n"
            "Definition results : list (option bool) := [\n" + ";\n".join(lines) + "\n].\nEval vm_compute in results.\n")
    rc, out = G.run_coq_cases("c01", body)
    res = G.parse_bool_list(out) if rc == 0 else None
    dis = 0
    if res is None or len(res) != len(sample):
        rep.violation("pk-model-run", "the BigZ model run failed: %s" % (out or "")[-400:], {"broken": "coqc cases for C01"}, found=False)
    else:
        for i, r in zip(sample, res):
            want = "T" if r is True else "F"
            if impl[i] != want:
                dis += 1
                st["first_disagreements"].append({"case": pkc[i][:1500], "implementation": impl[i], "model": want})
    nind = independent_tokens(ctx, st["dist"])
    st["evaluations"] += len(pkc) + nind
    st["distinct_nontrivial"] += len(set(pkc))
    st["disagreements"] += dis
    st["pk_cases_model_checked"] = len(sample)
    st["dist"]["public-key tokens (implementation + oracle)"] = len(pkc)
    st["dist"]["public-key tokens also evaluated on the BigZ model"] = len(sample)
    return st
