"""C13 key exchange algebra: ECDH agreement, the three ECMR modes, McCallum-Relyea recovery, refusals.

Three-way comparison on the same case lines (`exc <local jwk> <remote jwk>`):
  * implementation: harness/h_exc.c -> jose_jwk_exc (and the built `jose jwk exc` for a sample);
  * decision model: the extracted jwk_exc (Jwk/Exc.v) with the exch_alg records of Jwk/ExcAlg.v over the
    symbolic group instance (ocaml/d_exc.ml): refused or not, curve of the result, mode -- for every case whose
    verdict does not depend on curve arithmetic;
  * numeric model: the same records over Crypto/Ec.v with the BigZ instance, evaluated by `coqc` under
    vm_compute (Jwk/ExcEc.v exc_text) -- the complete result JSON, for ~50 (quick) / ~500 (thorough) cases.
The oracle is implementation-only: an independent affine-coordinate implementation of the curves in this file
(python integers), role symmetry, the recovery identity, result shape / width, and the refusals the property
lists."""
import base64
import collections
import concurrent.futures as cf
import json
import os
import random
import re
import subprocess
import time

import vlib

PID = "C13"
PROP_FILE = "Props/Properties_C13.v"
LEVEL = "proof"
ASSUMPTIONS = [
    "C13: HYPOTHESIS, not proved: the named curves (P-256, P-384, P-521, secp256k1) with the chord-tangent arithmetic "
    "of Crypto/Ec.v -- and with OpenSSL's -- form an abelian group with an integer action (scalar_group: associativity, "
    "commutativity, identity, inverse, (mn)P = m(nP), (m+n)P = mP + nP, 1P = P, m(P+Q) = mP + mQ). C13_ecdh_sym and "
    "C13_ecmr_recovery are proved for EVERY structure with these laws; the concrete instance is only validated "
    "numerically (known answers in Crypto/Ec.v, this correspondence)",
    "C13: hypothesis of C13_refusals: the point at infinity has no affine coordinates (ei_affine (ei_zero c) = None); "
    "proved for both instances used (Examples in Properties_C13.v)",
    "C13: modelled, not verified: OpenSSL's EC_KEY_check_key is taken to be 'coordinates on the curve (after reduction "
    "modulo p by EC_POINT_set_affine_coordinates), and with d: 1 <= d < n and dG = Q'; its [n]Q = infinity test is not "
    "evaluated by the model (implied by the curve equation for cofactor 1); EC_POINT_mul with a NULL scalar yields the "
    "point at infinity; BN_bn2bin of zero writes 0 octets (so a zero coordinate cannot be exported)",
    "C13: the decision part of the correspondence runs on a symbolic group instance that accepts every key "
    "(ec_shape); cases whose verdict depends on arithmetic (invalid points, d not matching, results at infinity) are "
    "compared with the BigZ evaluation instead",
    "C13: base64url member decoding uses Codec/B64Spec.dec (C08 relates it to lib/b64.c)",
    "C13: key pairs generated through jose_jwk_gen (one set per curve) are not derived from the seed; all other "
    "key material is",
]

STRICT_ZERO_COORD = False   # report "result with a zero coordinate is refused" as a violation (see C13_NOTES.md)

# ----------------------------------------------------------------------------- independent curve arithmetic
CURVES = {
    "P-256": (0xffffffff00000001000000000000000000000000ffffffffffffffffffffffff, -3,
              0x5ac635d8aa3a93e7b3ebbd55769886bc651d06b0cc53b0f63bce3c3e27d2604b,
              0x6b17d1f2e12c4247f8bce6e563a440f277037d812deb33a0f4a13945d898c296,
              0x4fe342e2fe1a7f9b8ee7eb4a7c0f9e162bce33576b315ececbb6406837bf51f5,
              0xffffffff00000000ffffffffffffffffbce6faada7179e84f3b9cac2fc632551, 32),
    "P-384": (0xfffffffffffffffffffffffffffffffffffffffffffffffffffffffffffffffeffffffff0000000000000000ffffffff, -3,
              0xb3312fa7e23ee7e4988e056be3f82d19181d9c6efe8141120314088f5013875ac656398d8a2ed19d2a85c8edd3ec2aef,
              0xaa87ca22be8b05378eb1c71ef320ad746e1d3b628ba79b9859f741e082542a385502f25dbf55296c3a545e3872760ab7,
              0x3617de4a96262c6f5d9e98bf9292dc29f8f41dbd289a147ce9da3113b5f0b8c00a60b1ce1d7e819d7a431d7c90ea0e5f,
              0xffffffffffffffffffffffffffffffffffffffffffffffffc7634d81f4372ddf581a0db248b0a77aecec196accc52973, 48),
    "P-521": (2 ** 521 - 1, -3,
              0x51953eb9618e1c9a1f929a21a0b68540eea2da725b99b315f3b8b489918ef109e156193951ec7e937b1652c0bd3bb1bf073573df883d2c34f1ef451fd46b503f00,
              0xc6858e06b70404e9cd9e3ecb662395b4429c648139053fb521f828af606b4d3dbaa14b5e77efe75928fe1dc127a2ffa8de3348b3c1856a429bf97e7e31c2e5bd66,
              0x11839296a789a3bc0045c8a5fb42c7d1bd998f54449579b446817afbd17273e662c97ee72995ef42640c550b9013fad0761353c7086a272c24088be94769fd16650,
              0x1fffffffffffffffffffffffffffffffffffffffffffffffffffffffffffffffffa51868783bf2f966b7fcc0148f709a5d03bb5c9b8899c47aebb6fb71e91386409, 66),
    "secp256k1": (2 ** 256 - 2 ** 32 - 977, 0, 7,
                  0x79be667ef9dcbbac55a06295ce870b07029bfcdb2dce28d959f2815b16f81798,
                  0x483ada7726a3c4655da4fbfc0e1108a8fd17b448a68554199c47d08ffb10d4b8,
                  0xfffffffffffffffffffffffffffffffebaaedce6af48a03bbfd25e8cd0364141, 32),
}
NIST = ["P-256", "P-384", "P-521"]
WEIGHT = {"P-256": 0.4, "P-384": 0.8, "P-521": 1.2, "secp256k1": 0.4}   # seconds per scalar multiplication in coqc


def on_curve(crv, P):
    p, a, b = CURVES[crv][:3]
    return P is not None and 0 <= P[0] < p and 0 <= P[1] < p and (P[1] * P[1] - (P[0] ** 3 + a * P[0] + b)) % p == 0


def padd(crv, P, Q):
    p, a = CURVES[crv][:2]
    if P is None:
        return Q
    if Q is None:
        return P
    if P[0] == Q[0]:
        if (P[1] + Q[1]) % p == 0:
            return None
        l = (3 * P[0] * P[0] + a) * pow(2 * P[1], -1, p) % p
    else:
        l = (Q[1] - P[1]) * pow(Q[0] - P[0], -1, p) % p
    x = (l * l - P[0] - Q[0]) % p
    return (x, (l * (P[0] - x) - P[1]) % p)


def pneg(crv, P):
    return None if P is None else (P[0], (-P[1]) % CURVES[crv][0])


def pmul(crv, k, P):
    R = None
    while k > 0:
        if k & 1:
            R = padd(crv, R, P)
        P = padd(crv, P, P)
        k >>= 1
    return R


def base(crv):
    return (CURVES[crv][3], CURVES[crv][4])


def b64(b):
    return base64.urlsafe_b64encode(b).rstrip(b"=").decode()


def unb64(s):
    return base64.urlsafe_b64decode(s + "=" * (-len(s) % 4))


def enc(n, l):
    return b64(n.to_bytes(l, "big"))


def dumps(v):
    return json.dumps(v, separators=(",", ":"), sort_keys=True)


class Key:
    def __init__(self, crv, d, Q=None):
        self.crv, self.d = crv, d
        self.Q = Q if Q is not None else pmul(crv, d, base(crv))

    def pub(self, **extra):
        l = CURVES[self.crv][6]
        k = {"kty": "EC", "crv": self.crv, "x": enc(self.Q[0], l), "y": enc(self.Q[1], l)}
        k.update(extra)
        return k

    def prv(self, **extra):
        k = self.pub()
        k["d"] = enc(self.d, CURVES[self.crv][6])
        k.update(extra)
        return k


def rand_key(rnd, crv):
    return Key(crv, rnd.randrange(1, CURVES[crv][5]))


def key_of_jwk(j):
    return Key(j["crv"], int.from_bytes(unb64(j["d"]), "big"),
               (int.from_bytes(unb64(j["x"]), "big"), int.from_bytes(unb64(j["y"]), "big")))


# ----------------------------------------------------------------------------- cases
class Case:
    __slots__ = ("line", "cat", "numeric", "arith", "expect", "cost", "tag", "crv")

    def __init__(self, l, r, cat, expect=None, numeric=False, arith=False, tag=None, crv=None):
        ls = l if isinstance(l, str) else dumps(l)
        rs = r if isinstance(r, str) else dumps(r)
        self.line = "exc\t%s\t%s" % (ls, rs)
        self.cat, self.numeric, self.arith, self.expect, self.tag, self.crv = cat, numeric, arith, expect, tag, crv
        nd = sum(1 for v in (l, r) if isinstance(v, dict) and "d" in v)
        c = crv or (l.get("crv") if isinstance(l, dict) else None)
        self.cost = WEIGHT.get(c if isinstance(c, str) else None, 0.4) * (nd + 1)


def ok(crv, P):
    return ("ok", crv, P)


def refuse(reason):
    return ("refuse", reason)


DECOS = [
    ({}, {}),
    ({"alg": "ECDH"}, {}),
    ({}, {"alg": "ECDH"}),
    ({"alg": "ECDH", "key_ops": ["deriveKey"]}, {"alg": "ECDH"}),
    ({"key_ops": ["deriveKey"]}, {"key_ops": ["deriveBits", "deriveKey"]}),
    ({"alg": "ECMR"}, {}),
    ({}, {"alg": "ECMR", "key_ops": ["deriveKey"]}),
    ({"alg": "ECMR", "key_ops": ["sign", "deriveKey"]}, {"alg": "ECMR"}),
    ({"use": "enc", "key_ops": ["deriveKey"]}, {"kid": "peer", "x5t": "ignored"}),
]


def valid_exchanges(uid, crv, c, s, e, a, i, numeric, stageA, chains):
    """ECDH both role orders and the material of one recovery run for the triple (c, s, e); a: a fourth key."""
    da, db = DECOS[i % len(DECOS)]
    da2, db2 = DECOS[(i + 3) % len(DECOS)]
    P = pmul(crv, c.d, s.Q)
    tag = "sym:%s:%s" % (crv, uid)
    stageA.append(Case(c.prv(**da), s.pub(**db), "ecdh/ecmr-mul role 1", ok(crv, P), numeric, tag=tag, crv=crv))
    stageA.append(Case(s.prv(**da2), c.pub(**db2), "ecdh/ecmr-mul role 2", ok(crv, P), numeric, tag=tag, crv=crv))
    P2 = pmul(crv, a.d, c.Q)
    tag2 = "sym2:%s:%s" % (crv, uid)
    stageA.append(Case(a.prv(), c.pub(alg="ECDH"), "ecdh/ecmr-mul role 1", ok(crv, P2), False, tag=tag2, crv=crv))
    stageA.append(Case(c.prv(alg="ECMR"), a.pub(), "ecdh/ecmr-mul role 2", ok(crv, P2), False, tag=tag2, crv=crv))
    # recovery: X = C + E, Z = e S, D = c S (directly)
    ko = {"key_ops": ["deriveKey"]} if i % 2 else {}
    X = padd(crv, c.Q, e.Q)
    Z = pmul(crv, e.d, s.Q)
    rt = "rec:%s:%s" % (crv, uid)
    ix = len(stageA)
    stageA.append(Case(c.pub(alg="ECMR", **ko), e.prv(**({"alg": "ECMR"} if i % 3 else {})), "ecmr add (X = C + E)",
                       ok(crv, X), numeric, tag=rt + ":X", crv=crv))
    iz = len(stageA)
    stageA.append(Case(e.prv(alg="ECMR"), s.pub(**ko), "ecmr mul (Z = e S)", ok(crv, Z), numeric, tag=rt + ":Z", crv=crv))
    stageA.append(Case(c.prv(**ko), s.pub(), "direct exchange (D = c S)", ok(crv, P), numeric and i % 2 == 0,
                       tag=rt + ":D", crv=crv))
    stageA.append(Case(s.prv(alg="ECMR"), c.pub(**ko), "direct exchange (D = s C, ECMR)", ok(crv, P),
                       numeric and i % 2 == 1, tag=rt + ":D", crv=crv))
    chains.append({"crv": crv, "c": c, "s": s, "e": e, "ix": ix, "iz": iz, "X": X, "Z": Z, "P": P, "tag": rt,
                   "numeric": numeric, "ko": ko})


def with_fields(j, **extra):
    k = dict(j)
    k.update(extra)
    return k


def arithmetic_edges(cs, crv, rnd, numeric):
    """verdicts that depend on curve arithmetic; compared with the BigZ evaluation"""
    p, _, b, _, _, n, ln = CURVES[crv]
    k1, k2 = rand_key(rnd, crv), rand_key(rnd, crv)
    P = pmul(crv, k1.d, k2.Q)
    N = numeric

    def A(l, r, cat, expect):
        if crv == "secp256k1" and "alg" not in l and "alg" not in r:
            l = with_fields(l, alg="ECDH")      # never inferred for this curve
        cs.append(Case(l, r, cat, expect, numeric=N, arith=True, crv=crv))

    bad = k2.pub()
    bad["y"] = enc((k2.Q[1] + 1) % p, ln)
    A(k1.prv(), bad, "off-curve remote point", refuse("off-curve"))
    A(k1.prv(alg="ECMR"), bad, "off-curve remote point", refuse("off-curve"))
    A(with_fields(bad, alg="ECMR"), k1.pub(), "off-curve local point (ecmr sub)", refuse("off-curve"))
    A(k1.pub(alg="ECMR"), bad, "off-curve remote point (ecmr sub)", refuse("off-curve"))
    badp = k1.prv()
    badp["x"] = enc((k1.Q[0] + 1) % p, ln)
    A(badp, k2.pub(), "off-curve local point with d", refuse("off-curve"))
    sw = k2.pub()
    sw["x"], sw["y"] = sw["y"], sw["x"]
    A(k1.prv(), sw, "swapped coordinates", refuse("off-curve"))
    A(k1.prv(), with_fields(k2.pub(), x="", y=""), "empty coordinates (0,0)", refuse("off-curve"))
    # private value not matching the public point / out of range
    A(with_fields(k1.prv(), d=enc(k1.d + 1 if k1.d + 1 < n else 1, ln)), k2.pub(), "d does not match x/y", refuse("d-mismatch"))
    A(with_fields(k1.prv(), d=k2.prv()["d"]), k2.pub(), "d of another key", refuse("d-mismatch"))
    A(with_fields(k1.prv(), d=enc(0, ln)), k2.pub(), "d = 0", refuse("d-range"))
    A(with_fields(k1.prv(), d=""), k2.pub(), "d empty (0)", refuse("d-range"))
    A(with_fields(k1.prv(), d=enc(n, ln)), k2.pub(), "d = n", refuse("d-range"))
    A(with_fields(k1.prv(), d=enc(n + k1.d, ln + 1)), k2.pub(), "d + n (same point, out of range)", refuse("d-range"))
    A(k2.pub(alg="ECMR"), with_fields(k1.prv(), d=enc(n + k1.d, ln + 1)), "remote d + n (ecmr add)", refuse("d-range"))
    A(k2.pub(alg="ECMR"), with_fields(k1.prv(), d=k2.prv()["d"]), "remote d mismatch (ecmr add)", refuse("d-mismatch"))
    # non-canonical but equal numbers: accepted (BN_bin2bn takes any length; coordinates are reduced mod p)
    pad = k2.pub()
    pad["x"] = b64(b"\0\0\0" + k2.Q[0].to_bytes(ln, "big"))
    pad["y"] = b64(k2.Q[1].to_bytes((k2.Q[1].bit_length() + 7) // 8, "big"))
    A(k1.prv(), pad, "coordinates with extra / stripped leading zeros", ok(crv, P))
    A(with_fields(k1.prv(), d=b64(b"\0" + k1.d.to_bytes(ln, "big"))), k2.pub(), "d with a leading zero octet", ok(crv, P))
    big = k2.pub()
    big["x"] = b64((k2.Q[0] + p).to_bytes(ln + 1, "big"))
    A(k1.prv(), big, "x + p (reduced by OpenSSL)", None)
    # results at infinity
    A(k1.pub(alg="ECMR"), k1.pub(), "ecmr sub of equal points (infinity)", refuse("infinity"))
    neg = Key(crv, n - k1.d, pneg(crv, k1.Q))
    A(neg.pub(alg="ECMR"), k1.prv(), "ecmr add of opposite points (infinity)", refuse("infinity"))
    # doubling through the addition mode, and subtraction of the opposite point (also a doubling)
    A(k1.pub(alg="ECMR"), k1.prv(), "ecmr add of equal points (doubling)", ok(crv, padd(crv, k1.Q, k1.Q)))
    A(k1.pub(alg="ECMR"), neg.pub(), "ecmr sub of opposite points (doubling)", ok(crv, padd(crv, k1.Q, k1.Q)))
    # a point with x = 0 exists on the three NIST curves: fine as input, cannot be exported as result
    if pow(b, (p - 1) // 2, p) == 1:
        y0 = pow(b, (p + 1) // 4, p)
        Z0 = (0, y0)
        zk = {"kty": "EC", "crv": crv, "x": enc(0, ln), "y": enc(y0, ln)}
        A(k1.prv(), zk, "remote point with x = 0 (input)", ok(crv, pmul(crv, k1.d, Z0)))
        lq = padd(crv, Z0, pneg(crv, k1.Q))
        A({"kty": "EC", "crv": crv, "x": enc(lq[0], ln), "y": enc(lq[1], ln), "alg": "ECMR"}, k1.prv(),
          "ecmr add whose sum has x = 0", ("zero", crv, Z0))
    # leading zero octet in an input and in a result (walk k G until x is short)
    R, k = pmul(crv, rnd.randrange(1, n - 5000), base(crv)), None
    k0 = None
    for step in range(3000):
        if R[0] >> (8 * (ln - 1)) == 0:
            k0 = step
            break
        R = padd(crv, R, base(crv))
    if k0 is not None:
        A(k1.prv(), {"kty": "EC", "crv": crv, "x": enc(R[0], ln), "y": enc(R[1], ln)}, "remote x with a leading zero octet",
          ok(crv, pmul(crv, k1.d, R)))
        lq = padd(crv, R, pneg(crv, k1.Q))
        A({"kty": "EC", "crv": crv, "x": enc(lq[0], ln), "y": enc(lq[1], ln), "alg": "ECMR"}, k1.prv(),
          "result x with a leading zero octet (ecmr add)", ok(crv, R))


def decision_grid(cs, rnd, keys):
    """verdicts that need no arithmetic beyond one valid exchange: compared with the extracted decision model"""
    def D(l, r, cat, expect=None):
        cs.append(Case(l, r, cat, expect))

    k = keys
    a, b = k["P-256"][0], k["P-256"][1]
    P = pmul("P-256", a.d, b.Q)
    octk = {"kty": "oct", "k": b64(bytes(range(32)))}
    rsa = {"kty": "RSA", "n": b64(b"\xc3" + bytes(255)), "e": "AQAB"}
    # key types
    for l, r in ((a.prv(), octk), (octk, b.pub()), (a.prv(), rsa), (rsa, b.pub()), (octk, rsa), (rsa, octk)):
        for al in (None, "ECDH", "ECMR"):
            D(with_fields(l, alg=al) if al else l, r, "different kty", refuse("kty"))
            D(l, with_fields(r, alg=al) if al else r, "different kty", refuse("kty"))
    for t in (octk, rsa):
        for al in (None, "ECDH", "ECMR"):
            D(with_fields(t, alg=al) if al else t, t, "same non-EC kty", refuse("kty-not-ec"))
    for bad in ("ec", "EC ", "", "E", 5, None, ["EC"], True):
        D(with_fields(a.prv(), kty=bad), b.pub(), "malformed kty", refuse("kty"))
        D(a.prv(), with_fields(b.pub(), kty=bad), "malformed kty", refuse("kty"))
        D(with_fields(a.prv(alg="ECMR"), kty=bad), with_fields(b.pub(), kty=bad), "malformed kty on both", refuse("kty-not-ec"))
    nk = a.prv()
    del nk["kty"]
    D(nk, b.pub(), "kty missing", refuse("kty"))
    # declared algorithms: the full grid
    algs = [None, "ECDH", "ECMR", "ES256", "ECDH-ES", "A128KW", "ecdh", "", "ECDH ", 5, False]
    for x in algs:
        for y in algs:
            l = a.prv() if x is None else with_fields(a.prv(), alg=x)
            r = b.pub() if y is None else with_fields(b.pub(), alg=y)
            exp = None
            if isinstance(x, str) and isinstance(y, str) and x != y:
                exp = refuse("alg")
            elif all(v in (None, "ECDH", "ECMR") for v in (x, y)):
                exp = ok("P-256", P)
            D(l, r, "alg grid", exp)
    # curves: every pair of names, valid keys on each
    names = NIST + ["secp256k1"]
    for ca in names:
        for cb in names:
            ka, kb = k[ca][0], k[cb][1]
            for al in (None, "ECDH", "ECMR"):
                l = ka.prv(alg=al) if al else ka.prv()
                if ca != cb:
                    D(l, kb.pub(), "different curves", refuse("curve"))
                    D(ka.pub(alg="ECMR"), kb.pub(), "different curves (ecmr sub)", refuse("curve"))
                    D(ka.pub(alg="ECMR"), kb.prv(), "different curves (ecmr add)", refuse("curve"))
                elif ca == "secp256k1" and al is None:
                    D(l, kb.pub(), "secp256k1 without alg (not inferred)", None)
                else:
                    D(l, kb.pub(), "same curve", ok(ca, pmul(ca, ka.d, kb.Q)))
    # a key relabelled with another curve's name (coordinates of the wrong width, not on that curve)
    for cn in ("P-192", "P-256 ", "p-256", "", 5, None, "secp256r1"):
        D(with_fields(a.prv(), crv=cn), with_fields(b.pub(), crv=cn), "unsupported curve name", refuse("curve-name"))
        D(with_fields(a.prv(alg="ECDH"), crv=cn), b.pub(), "unsupported curve name", refuse("curve-name"))
    nc = a.prv(alg="ECDH")
    del nc["crv"]
    D(nc, b.pub(), "crv missing", refuse("curve-name"))
    # presence of d x algorithm: the modes
    for crv in NIST:
        ka, kb = k[crv][0], k[crv][1]
        Pm = pmul(crv, ka.d, kb.Q)
        for al in (None, "ECDH"):
            l = lambda j: with_fields(j, alg=al) if al else j
            D(l(ka.pub()), kb.pub(), "ECDH without local d", refuse("no-private"))
            D(l(ka.pub()), kb.prv(), "ECDH without local d (remote has d)", refuse("no-private"))
            D(l(ka.prv()), kb.prv(), "ECDH, both private", ok(crv, Pm))
            D(ka.pub(), l(kb.prv()), "ECDH without local d (remote has d)", refuse("no-private"))
        D(ka.prv(alg="ECMR"), kb.prv(), "ECMR mul, both private", ok(crv, Pm))
        D(ka.pub(alg="ECMR"), kb.prv(), "ECMR add", ok(crv, padd(crv, ka.Q, kb.Q)))
        D(ka.pub(), kb.prv(alg="ECMR"), "ECMR add", ok(crv, padd(crv, ka.Q, kb.Q)))
        D(ka.pub(alg="ECMR"), kb.pub(), "ECMR sub", ok(crv, padd(crv, ka.Q, pneg(crv, kb.Q))))
        D(ka.pub(), kb.pub(alg="ECMR"), "ECMR sub", ok(crv, padd(crv, ka.Q, pneg(crv, kb.Q))))
        D(kb.pub(alg="ECMR"), ka.pub(), "ECMR sub (other order)", ok(crv, padd(crv, kb.Q, pneg(crv, ka.Q))))
    # permissions
    kos = [None, [], ["deriveKey"], ["deriveBits"], ["sign"], ["sign", "deriveKey"], ["wrapKey", "unwrapKey"],
           "deriveKey", [5], ["derivekey"], {"deriveKey": True}]
    uses = [None, "enc", "sig", "", 5]
    for al in (None, "ECMR"):
        for ko in kos:
            for u in uses:
                for side in (0, 1):
                    l = a.prv(alg=al) if al else a.prv()
                    r = b.pub()
                    t = l if side == 0 else r
                    if ko is not None:
                        t["key_ops"] = ko
                    if u is not None:
                        t["use"] = u
                    exp = None
                    if u is None:
                        if ko is None or (isinstance(ko, list) and "deriveKey" in ko):
                            exp = ok("P-256", P)
                        elif isinstance(ko, list):
                            exp = refuse("permission")
                    D(l, r, "key_ops / use grid", exp)
    # malformed members and arguments
    for m in ("x", "y", "d"):
        for v in (5, None, "!!", "A", "AAAAA", ["AA"], {}):
            D(with_fields(a.prv(), **{m: v}), b.pub(), "malformed %s" % m, refuse("member"))
            if m != "d":
                D(a.prv(), with_fields(b.pub(), **{m: v}), "malformed %s" % m, refuse("member"))
            D(a.pub(alg="ECMR"), with_fields(b.prv(), **{m: v}), "malformed %s (remote, ecmr)" % m, refuse("member"))
        if m != "d":
            t = b.pub()
            del t[m]
            D(a.prv(), t, "missing %s" % m, refuse("member"))
    for v in ("[]", "\"EC\"", "null", "5", "{}", "-"):
        D(v, dumps(b.pub()), "non-object argument", refuse("argument"))
        D(dumps(a.prv()), v, "non-object argument", refuse("argument"))
        D(v, v, "non-object argument", refuse("argument"))


# ----------------------------------------------------------------------------- generation
def gen_keys_via_jose(h):
    """real key pairs from jose_jwk_gen through the harness (not seeded)"""
    tmpl = []
    for crv in NIST:
        tmpl += ['gen\t{"kty":"EC","crv":"%s"}' % crv, 'gen\t{"alg":"ECMR","crv":"%s"}' % crv,
                 'gen\t{"alg":"ECMR","crv":"%s"}' % crv, 'gen\t{"alg":"ECDH","crv":"%s"}' % crv]
    out = vlib.run_cases(h, tmpl)
    keys = {}
    for i, crv in enumerate(NIST):
        ks = []
        for o in out[4 * i:4 * i + 4]:
            try:
                ks.append(key_of_jwk(json.loads(o)))
            except Exception:
                return None, out
        keys[crv] = ks
    return keys, out


def build(tier, seed, jose_keys):
    rnd = random.Random(seed * 7919 + 13)
    ntrip = 1 if tier == "quick" else 19
    stageA, chains, rest = [], [], []
    grid_keys = {}
    for crv in NIST:
        for i in range(ntrip):
            c, s, e, a = (rand_key(rnd, crv) for _ in range(4))
            if i == 0:
                grid_keys[crv] = [c, s, e]
            valid_exchanges("seeded%d" % i, crv, c, s, e, a, i + NIST.index(crv), True, stageA, chains)
        if jose_keys:
            c, s, e, a = jose_keys[crv]
            valid_exchanges("jose_jwk_gen", crv, c, s, e, a, 4 + NIST.index(crv), tier != "quick" or crv == "P-256", stageA, chains)
    kk = [rand_key(rnd, "secp256k1") for _ in range(3)]
    grid_keys["secp256k1"] = kk
    P = pmul("secp256k1", kk[0].d, kk[1].Q)
    stageA.append(Case(kk[0].prv(alg="ECDH"), kk[1].pub(), "secp256k1 role 1", ok("secp256k1", P), True, tag="sym:k1", crv="secp256k1"))
    stageA.append(Case(kk[1].prv(alg="ECMR"), kk[0].pub(), "secp256k1 role 2", ok("secp256k1", P), True, tag="sym:k1", crv="secp256k1"))
    for crv in (["P-256"] if tier == "quick" else NIST + ["secp256k1"]):
        arithmetic_edges(rest, crv, rnd, True)
    if tier == "quick":
        for crv in ("P-384", "P-521"):
            arithmetic_edges(rest, crv, rnd, False)
    decision_grid(rest, rnd, grid_keys)
    return stageA + rest, chains


# ----------------------------------------------------------------------------- numeric model through coqc
def coq_bytes(s):
    return "[" + ";".join(str(b) for b in s.encode()) + "]"


def run_numeric(lines, costs, workdir, coqdir, timeout):
    """evaluate exc_text with the BigZ instance on every line; returns list of result lines (or None on failure) + log"""
    os.makedirs(workdir, exist_ok=True)
    for f in os.listdir(workdir):
        if f.startswith("cases"):
            os.unlink(os.path.join(workdir, f))
    n = max(1, min(vlib.NCPU, len(lines)))
    order = sorted(range(len(lines)), key=lambda i: -costs[i])
    load = [0.0] * n
    shards = [[] for _ in range(n)]
    for i in order:
        j = load.index(min(load))
        shards[j].append(i)
        load[j] += costs[i] + 0.05
    hdr = ("(* GENERATED by tools/props/c13.py: the exchange model over Crypto/Ec.v with the BigZ instance *)\n"
           "From JoseV Require Import Jwk.ExcAlg Jwk.ExcEc Crypto.BigNum.\nLocal Open Scope N_scope.\n")
    for j, sh in enumerate(shards):
        with open(os.path.join(workdir, "cases_%d.v" % j), "w") as f:
            f.write(hdr)
            for i in sh:
                _, l, r = lines[i].split("\t")
                f.write("Eval vm_compute in (exc_text bigzops %s %s).\n" % (coq_bytes(l), coq_bytes(r)))

    def one(j):
        if not shards[j]:
            return (j, 0, "")
        try:
            p = subprocess.run(["coqc", "-Q", coqdir, "JoseV", "cases_%d.v" % j], cwd=workdir, stdout=subprocess.PIPE,
                               stderr=subprocess.STDOUT, text=True, timeout=timeout)
            return (j, p.returncode, p.stdout)
        except subprocess.TimeoutExpired:
            return (j, -1, "TIMEOUT")

    res = [None] * len(lines)
    log = []
    with cf.ThreadPoolExecutor(n) as ex:
        for j, rc, out in ex.map(one, range(n)):
            open(os.path.join(workdir, "cases_%d.out" % j), "w").write(out)
            chunks = re.split(r"^\s+= ", out, flags=re.M)[1:]
            if rc != 0 or len(chunks) != len(shards[j]):
                log.append("shard %d: rc=%s, %d results for %d cases: %s" % (j, rc, len(chunks), len(shards[j]), out[-300:]))
                continue
            for i, ch in zip(shards[j], chunks):
                ch = ch[:ch.rfind(":")]
                toks = re.findall(r"Some|None|\d+", ch)
                if toks and toks[0] == "None":
                    res[i] = "ERR"
                elif toks and toks[0] == "Some":
                    res[i] = bytes(int(t) for t in toks[1:]).decode(errors="replace") if len(toks) > 1 else "MODEL-BAD-ARGUMENT"
    return res, log


# ----------------------------------------------------------------------------- oracle (implementation only)
def parse_result(out):
    """-> ('err',) | ('ok', crv, (x, y), raw dict) | ('bad', why)"""
    if out == "ERR":
        return ("err",)
    try:
        j = json.loads(out)
    except Exception:
        return ("bad", "not JSON: " + out[:80])
    if not isinstance(j, dict):
        return ("bad", "not an object")
    return ("obj", j)


def check_shape(j):
    if sorted(j.keys()) != ["crv", "kty", "x", "y"]:
        if "d" in j:
            return ("C13:result-has-private-member", "the exchange result contains a member \"d\"")
        return ("C13:result-members", "the exchange result has members %s, not exactly kty, crv, x, y" % sorted(j.keys()))
    if j["kty"] != "EC" or j["crv"] not in CURVES:
        return ("C13:result-kty-crv", "result kty/crv are %r/%r" % (j["kty"], j["crv"]))
    ln = CURVES[j["crv"]][6]
    for m in ("x", "y"):
        if not isinstance(j[m], str) or not re.fullmatch(r"[A-Za-z0-9_-]*", j[m]) or len(unb64(j[m])) != ln:
            return ("C13:result-width:" + j["crv"], "result %s is not base64url of exactly %d octets: %r" % (m, ln, j[m]))
    P = (int.from_bytes(unb64(j["x"]), "big"), int.from_bytes(unb64(j["y"]), "big"))
    if not on_curve(j["crv"], P):
        return ("C13:result-off-curve:" + j["crv"], "the result point is not on %s" % j["crv"])
    return None


def oracle(case, out):
    if out.startswith("CRASH"):
        return ("C13:crash:" + out[:60], "crash or sanitizer report in jose_jwk_exc: " + out)
    if out.startswith("MUTATED"):
        return ("C13:argument-mutated", "jose_jwk_exc modified one of its (const) arguments")
    r = parse_result(out)
    if r[0] == "bad":
        return ("C13:result-not-json", r[1])
    P = None
    if r[0] == "obj":
        v = check_shape(r[1])
        if v:
            return v
        P = (int.from_bytes(unb64(r[1]["x"]), "big"), int.from_bytes(unb64(r[1]["y"]), "big"))
    e = case.expect
    if e is None:
        return None
    if e[0] == "refuse" and r[0] != "err":
        return ("C13:accepted:" + e[1], "an exchange that must be refused (%s; %s) produced a key" % (e[1], case.cat))
    if e[0] == "ok":
        mode = re.sub(r"[^a-z]+", "-", case.cat.lower())[:40]
        if r[0] == "err":
            return ("C13:refused-valid:" + mode, "a valid exchange was refused (%s on %s)" % (case.cat, e[1]))
        if r[1]["crv"] != e[1]:
            return ("C13:wrong-curve:" + mode, "result is on %s, the keys are on %s" % (r[1]["crv"], e[1]))
        if P != e[2]:
            return ("C13:wrong-point:" + mode, "the result of '%s' on %s is not the point an independent computation gives" % (case.cat, e[1]))
    if e[0] == "zero":
        if r[0] == "err":
            if STRICT_ZERO_COORD:
                return ("C13:zero-coordinate-result-refused", "an exchange whose result has x = 0 is refused (bn_encode of zero fails)")
        elif P != e[2]:
            return ("C13:wrong-point:zero-coordinate", "result with x = 0 expected")
    return None


# ----------------------------------------------------------------------------- the check
def norm_impl(out):
    if out == "ERR":
        return "ERR"
    try:
        j = json.loads(out)
        return "OK %s" % j.get("crv")
    except Exception:
        return out[:200]


def norm_model(out):
    f = out.split(" ")
    return "OK %s" % f[1] if f[0] == "OK" and len(f) >= 2 else out


def point_of(out):
    try:
        j = json.loads(out)
        return (j["crv"], j["x"], j["y"])
    except Exception:
        return None


def correspond(ctx):
    rep = ctx["rep"]
    tier, seed = ctx["tier"], ctx["seed"]
    h = os.path.join(ctx["bdir"], "h")
    coqdir = os.environ.get("C13_COQ", vlib.COQ)
    work = os.path.join(vlib.WORK, "c13")
    t0 = time.time()

    for crv in CURVES:      # the oracle's own constants: generator on the curve and of order n
        assert on_curve(crv, base(crv)) and pmul(crv, CURVES[crv][5], base(crv)) is None, crv
    jose_keys, genout = gen_keys_via_jose(h)
    if jose_keys is None:
        rep.violation("C13:gen", "jose_jwk_gen did not produce EC keys for the exchange algorithms: %s" % genout[:3],
                      {"case": "gen", "implementation": genout[:6]})
    cases, chains = build(tier, seed, jose_keys)
    impl = vlib.run_cases(h, [c.line for c in cases])

    # the recovery protocol continues with what the implementation returned: Y = s X, then K = Y - Z
    def res(i):
        try:
            j = json.loads(impl[i])
            return j if isinstance(j, dict) else None
        except Exception:
            return None

    ycases = []
    for ch in chains:
        crv, ln = ch["crv"], CURVES[ch["crv"]][6]
        xj = res(ch["ix"]) or {"kty": "EC", "crv": crv, "x": enc(ch["X"][0], ln), "y": enc(ch["X"][1], ln)}
        Y = pmul(crv, ch["s"].d, ch["X"])
        ch["Y"] = Y
        ycases.append(Case(ch["s"].prv(alg="ECMR", **ch["ko"]), xj, "ecmr mul (Y = s X)", ok(crv, Y), ch["numeric"],
                           tag=ch["tag"] + ":Y", crv=crv))
    yimpl = vlib.run_cases(h, [c.line for c in ycases])
    kcases = []
    for ch, yo in zip(chains, yimpl):
        crv, ln = ch["crv"], CURVES[ch["crv"]][6]
        try:
            yj = json.loads(yo)
            assert isinstance(yj, dict)
        except Exception:
            yj = {"kty": "EC", "crv": crv, "x": enc(ch["Y"][0], ln), "y": enc(ch["Y"][1], ln)}
        zj = res(ch["iz"]) or {"kty": "EC", "crv": crv, "x": enc(ch["Z"][0], ln), "y": enc(ch["Z"][1], ln)}
        kcases.append(Case(with_fields(yj, alg="ECMR"), with_fields(zj, **ch["ko"]), "ecmr sub (K = Y - Z)", ok(crv, ch["P"]),
                           ch["numeric"], tag=ch["tag"] + ":D", crv=crv))
    kimpl = vlib.run_cases(h, [c.line for c in kcases])
    cases += ycases + kcases
    impl += yimpl + kimpl
    lines = [c.line for c in cases]
    t_impl = time.time() - t0

    # decision model (extracted OCaml) and numeric model (coqc), in parallel
    numeric = [i for i, c in enumerate(cases) if c.numeric]
    with cf.ThreadPoolExecutor(2) as ex:
        fm = ex.submit(lambda: vlib.run_cases(ctx["driver"], lines) if ctx.get("driver") else None)
        fn = ex.submit(run_numeric, [lines[i] for i in numeric], [cases[i].cost for i in numeric], work, coqdir,
                       900 if tier == "quick" else 2400)
        model = fm.result()
        t1 = time.time()
        nres, nlog = fn.result()
    t_num = time.time() - t1
    num = dict(zip(numeric, nres))

    dis = []
    nt = 0
    dist = collections.Counter()
    modes = collections.Counter()
    groups = collections.defaultdict(list)
    for i, c in enumerate(cases):
        io = impl[i] if i < len(impl) else "MISSING"
        dist[c.cat.split(" (")[0] if c.cat.startswith("ecmr") or c.cat.startswith("direct") else c.cat] += 1
        if io.startswith("{"):
            nt += 1
        replay = {"case": c.line, "implementation": io[:2000], "category": c.cat,
                  "model": (model[i] if model and i < len(model) else None), "numeric_model": num.get(i),
                  "replay_cmd": "printf '%s\\n' | _work/build-san/h" % c.line.replace("\t", "\\t")}
        v = oracle(c, io)
        if v:
            rep.violation(v[0], v[1], replay)
        if c.tag:
            groups[c.tag].append(i)
        if model is not None:
            mo = model[i] if i < len(model) else "MISSING"
            if mo.startswith("OK "):
                modes[mo.split(" ")[-1]] += 1
            if c.arith:
                bad = mo == "ERR" and io != "ERR"
            else:
                bad = norm_model(mo) != norm_impl(io)
            if bad:
                dis.append({"case": c.line[:2000], "implementation": io[:600], "model": "decision: " + mo, "category": c.cat})
        if i in num:
            if num[i] is None:
                dis.append({"case": c.line[:2000], "implementation": io[:600], "model": "numeric model not evaluated: " + "; ".join(nlog)[:400]})
            elif num[i] != io:
                dis.append({"case": c.line[:2000], "implementation": io[:600], "model": "numeric: " + num[i][:600], "category": c.cat})
    # metamorphic relations on the implementation alone: role symmetry / recovery identity
    for tag, idx in groups.items():
        pts = [(i, point_of(impl[i])) for i in idx if not tag.endswith(":X") and not tag.endswith(":Z") and not tag.endswith(":Y")]
        pts = [(i, p) for i, p in pts]
        if len(pts) < 2:
            continue
        ref = pts[0]
        for i, p in pts[1:]:
            if p != ref[1]:
                what = "recovery" if tag.startswith("rec:") else "role-symmetry"
                rep.violation("C13:%s:%s" % (what, cases[i].cat.split(" (")[0].replace(" ", "-")),
                              ("the blinded recovery (C+E, s(C+E), minus eS) does not reproduce the directly exchanged key"
                               if what == "recovery" else "the two role orders of an exchange give different keys")
                              + " (%s vs %s)" % (cases[ref[0]].cat, cases[i].cat),
                              {"case": cases[i].line, "implementation": impl[i][:1000], "other_case": cases[ref[0]].line,
                               "other_implementation": impl[ref[0]][:1000]})
    # the command line tool on a sample
    ncli, clidis = cli_sample(ctx, cases, impl, work, 12 if tier == "quick" else 60, seed)
    dis += clidis
    zero = [i for i, c in enumerate(cases) if c.expect and c.expect[0] == "zero" and impl[i] == "ERR"]
    if zero:
        rep.notes.append("C13 observation: %d exchange(s) whose result has a zero coordinate are refused (bn_encode of 0 fails); "
                         "predicted by the model, see coq/Jwk/C13_NOTES.md" % len(zero))
    rnd = random.Random(seed)
    samp = []
    pool = numeric if numeric else list(range(len(cases)))
    for i in sorted(rnd.sample(pool, min(6, len(pool)))):
        samp.append({"case": cases[i].line[:300], "implementation": impl[i][:300],
                     "model": ((model[i] if model else "") + " | " + str(num.get(i)))[:300]})
    dist = dict(dist)
    dist["_decision_model_modes"] = dict(modes)
    dist["_numeric_cases"] = len(numeric)
    dist["_cli_cases"] = ncli
    dist["_seconds"] = {"implementation": round(t_impl, 1), "coqc_numeric_wall": round(t_num, 1)}
    return {
        "evaluations": len(cases) + ncli, "distinct_nontrivial": nt,
        "rule": "exc <local> <remote> on jose_jwk_exc: ECDH in both role orders and one full McCallum-Relyea recovery "
                "(X = C+E, Y = sX on the implementation's X, Z = eS, K = Y-Z on the implementation's Y and Z, direct cS) per "
                "key triple on P-256/384/521 (seeded triples + one triple from jose_jwk_gen per curve), secp256k1 pair, "
                "decorations with alg / key_ops / use on either key; arithmetic edge cases (off-curve, d not matching or out of "
                "range, non-canonical octet strings, x+p, results at infinity, doubling, zero coordinate, leading zero octets); "
                "decision grids (kty, full alg x alg grid, all curve-name pairs, presence of d x algorithm, key_ops x use x side, "
                "malformed members, non-object arguments). Decisions vs the extracted jwk_exc over the symbolic group; complete "
                "result JSON of %d cases vs Crypto/Ec.v over BigZ in coqc; non-trivial = an exchange that produced a key" % len(numeric),
        "dist": dist, "samples": samp, "disagreements": len(dis), "first_disagreements": dis[:10],
        "exhaustive_subspaces": ["declared alg x declared alg over 11 values each", "all 16 ordered pairs of the 4 curve names x {no alg, ECDH, ECMR}",
                                 "key_ops (11 shapes) x use (5) x side x {inferred, ECMR}"],
        "exhaustive": False,
    }


def cli_sample(ctx, cases, impl, work, k, seed):
    jose = os.path.join(ctx["bdir"], "jose")
    if not os.path.exists(jose):
        return 0, []
    rnd = random.Random(seed + 5)
    okc = [i for i, c in enumerate(cases) if impl[i].startswith("{")]
    err = [i for i, c in enumerate(cases) if impl[i] == "ERR" and c.line.split("\t")[1].startswith("{") and c.line.split("\t")[2].startswith("{")]
    pick = rnd.sample(okc, min(k * 2 // 3, len(okc))) + rnd.sample(err, min(k - k * 2 // 3, len(err)))
    d = os.path.join(work, "cli")
    os.makedirs(d, exist_ok=True)
    env = dict(os.environ)
    env.update(vlib.SAN_ENV)
    dis = []
    for i in pick:
        _, l, r = cases[i].line.split("\t")
        open(os.path.join(d, "l.jwk"), "w").write(l)
        open(os.path.join(d, "r.jwk"), "w").write(r)
        try:
            p = subprocess.run([jose, "jwk", "exc", "-l", os.path.join(d, "l.jwk"), "-r", os.path.join(d, "r.jwk")],
                               stdout=subprocess.PIPE, stderr=subprocess.PIPE, text=True, env=env, timeout=60)
            got = p.stdout.strip() if p.returncode == 0 else "ERR"
            if p.returncode == 0:
                try:
                    got = dumps(json.loads(got))
                except Exception:
                    pass
        except subprocess.TimeoutExpired:
            got = "TIMEOUT"
        if got != impl[i]:
            ctx["rep"].violation("C13:cli-differs", "`jose jwk exc` and jose_jwk_exc disagree on the same keys",
                                 {"case": cases[i].line, "implementation": impl[i][:1000], "cli": got[:1000],
                                  "replay_cmd": "jose jwk exc -l l.jwk -r r.jwk"})
            dis.append({"case": cases[i].line[:2000], "implementation": impl[i][:600], "model": "cli: " + got[:600]})
    return len(pick), dis
