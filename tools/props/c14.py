"""C14 hostile parameters cannot force unbounded work or oversized buffers.

Boundary grids on the real entry points (harness/h_limits.c) against the guard functions of
coq/Jose/Limits.v; the oracle below checks the property on the implementation's answers alone."""
import base64
import collections
import json
import random
import re

import runner

PID = "C14"
PROP_FILE = "Props/Properties_C14.v"
LEVEL = "proof"
ASSUMPTIONS = [
    "C14: PKCS5_PBKDF2_HMAC refuses an iteration count below 1 (OpenSSL >= 3): a hypothesis of C14_work_bound / C14_p2c_unw_nonpositive, validated on every run by the kdfret field of harness command pbes2_unw",
    "C14: conversion of a 64-bit json_int_t to C int is reduction modulo 2^32 (wrap32; implementation-defined in C, what clang and gcc do); jansson's 'i' format performs exactly that conversion, 'I' none",
    "C14: JSON integers are mathematical integers in the model (JInt z); jansson holds signed 64-bit ones, larger literals do not parse at all, so the generator stays within 64 bits",
    "C14: the amount of work / bytes is observed at the OpenSSL boundary by interposed PKCS5_PBKDF2_HMAC, HMAC_Init_ex, EVP_EncryptUpdate, EVP_DecryptUpdate in harness/h_limits.c (pass-through outside C14 commands; a PBKDF2 request above 200000 iterations is recorded and not executed)",
    "C14: AES key wrap of OpenSSL accepts whole 64-bit blocks, at least two (three on unwrap), or nothing at all (openssl_kw_*_ok): only used to predict the final verdict of the keymax aeskw cases; EVP_CIPHER_block_size of the wrap ciphers is 8 (capacity 1024 + 16 of the unwrap buffer)",
    "C14: 'completes promptly' is measured (every refusal under 1 s with sanitizers on), not proved; the bound on ECDH-ES dk comes from the registered content-encryption key lengths and is proved for every length but only exercised with the registered ones",
    "C14: the model of jose_jwe_dec_cek takes the ciphertext text by its length and the outcome of the IO set-up (decide_deccek of Jose/Stubs.v) as inputs; sites whose length test is an equality with the buffer size (AES keys, IVs, tags, CBC-HS keys) are not KEYMAX sites and are left to C03/C04",
]

REFUTED = ["C14_p2c_wrp_refuted", "C14_p2c_unw_negative_refuted", "C14_work_bound_unw_refuted"]

KEYMAX = 1024
MAXZ = 262144
P2C_MIN, P2C_MAX = 1000, 32768
PB_ALG = ["PBES2-HS256+A128KW", "PBES2-HS384+A192KW", "PBES2-HS512+A256KW"]

P2C_GRID = [-1, 0, 1, 999, 1000, 1001, 32767, 32768, 32769, 2**31 - 1, 2**31, 2**31 + 5, 2**32 - 1, 2**32,
            2**32 + 999, 2**32 + 1000, 2**32 + 32768, 2**32 + 32769, 2**40, 2**63 - 1,
            1.5, "1000", None, True, [], {}]
P2C_NEG = [-2**31, -2**31 - 1, -2**32 + 1000, -2**32 + 32768, -2**32 + 32769, -2**32 + 40000, -2**32, -2**32 - 1,
           -2**40, -2**63, -999, -1000, -32768]


def dumps(v):
    return json.dumps(v, separators=(",", ":"), sort_keys=True)


def elen(n):
    return n // 3 * 4 + (0 if n % 3 == 0 else n % 3 + 1)


def b64(bs):
    return base64.urlsafe_b64encode(bs).rstrip(b"=").decode()


def dlen_text(t):
    """decoded length of a base64url text as the codec judges it, None = rejected"""
    if not re.fullmatch(r"[A-Za-z0-9_-]*", t) or len(t) % 4 == 1:
        return None
    try:
        raw = base64.urlsafe_b64decode(t + "=" * (-len(t) % 4))
    except Exception:
        return None
    return len(raw) if b64(raw) == t else None


def gen(tier, seed):
    rnd = random.Random(seed)
    full = tier != "quick"
    cases = []
    dist = collections.Counter()

    def add(kind, line):
        cases.append(line)
        dist[kind] += 1

    # --- p2c on unwrap
    for v in ["keep", "-"] + [dumps(x) for x in P2C_GRID + P2C_NEG]:
        for a in (0, 1, 2) if (full or v in ("keep", "32768", "32769", "-4294966296", "-2147483649")) else (0,):
            add("p2c unwrap grid", "pbes2_unw\t%s\tkeep\t%d" % (v, a))
    for _ in range(24 if not full else 300):
        k = rnd.choice([-3, -2, -1, 0, 1, 2, 5, 2**20, -2**20])
        r = rnd.choice([rnd.randint(P2C_MIN, P2C_MAX), rnd.randint(-5, 5), rnd.randint(P2C_MAX + 1, 2**31 - 1), rnd.randint(0, P2C_MIN)])
        v = k * 2**32 + r
        if -2**63 <= v < 2**63:
            add("p2c unwrap random k*2^32+r", "pbes2_unw\t%d\tkeep\t0" % v)
    for _ in range(10 if not full else 200):
        add("p2c unwrap random 64-bit", "pbes2_unw\t%d\tkeep\t0" % rnd.randint(-2**63, 2**63 - 1))

    # --- p2c on wrap
    for v in ["-"] + [dumps(x) for x in P2C_GRID + P2C_NEG]:
        for w in ("prot", "unprot", "rcp") if (full or v in ("-", "1000", "4294968296", "999", "32769")) else ("rcp",):
            add("p2c wrap grid", "p2c_wrp\t%s\t%s\t0" % (v, w))
        if full or v in ("-", "4294968296"):
            for a in (1, 2):
                add("p2c wrap grid", "p2c_wrp\t%s\trcp\t%d" % (v, a))
    for _ in range(16 if not full else 300):
        k = rnd.choice([-2, -1, 1, 2, 3, 2**20])
        r = rnd.choice([rnd.randint(P2C_MIN, P2C_MIN + 3000), rnd.randint(P2C_MIN - 5, P2C_MIN + 5), rnd.randint(P2C_MAX - 5, P2C_MAX + 5)])
        v = k * 2**32 + r
        if -2**63 <= v < 2**63:
            add("p2c wrap random k*2^32+r", "p2c_wrp\t%d\t%s\t0" % (v, rnd.choice(["prot", "unprot", "rcp"])))

    # --- p2s
    lens = list(range(0, 17)) + list(range(1000, 1041)) + [2048, 4096, 65536]
    if full:
        lens += list(range(17, 1000, 7)) + list(range(1041, 2048, 13))
    for n in lens:
        add("p2s length grid", "pbes2_unw\tkeep\tlen:%d\t%d" % (n, n % 3))
    for n in (7, 8, 9, 16, 1023, 1024, 1025):
        add("p2s random content", "pbes2_unw\tkeep\t%s\t0" % dumps(b64(bytes(rnd.randrange(256) for _ in range(n)))))
    for bad in ["-", "5", "null", "[]", dumps("AAAAA"), dumps("AAAA*AAAAAAAAAA"), dumps("AAAAAAAAAAAAAAA="), dumps("AAAAAAAAAAB"),
                dumps("A" * 1367), dumps("A" * 1369)]:
        add("p2s malformed", "pbes2_unw\tkeep\t%s\t0" % bad)

    # --- compressed ciphertext limit (cases that decode ~200 kB take ~10 s each with the sanitizers: a handful)
    heavy = [(MAXZ - 1, 1, 1), (MAXZ, 1, 1), (MAXZ + 1, 0, 0), (MAXZ + 4, 0, 1), (MAXZ + 2, 2, 0)]
    if full:
        heavy += [(MAXZ - 2, 1, 1), (MAXZ - 4, 1, 1), (2 * MAXZ, 0, 0), (MAXZ + 3, 2, 1), (MAXZ + 2, 0, 0)]
    light = []
    for tl in (8, 10, 11, 12, 100, 1000, 4099, 30000):
        for mode in (0, 1, 2, 3):
            for d in (0, 1):
                light.append((tl, mode, d))
    for tl in (MAXZ + 1, MAXZ + 2, MAXZ + 3, MAXZ + 4, MAXZ + 100, 300000, 2 * MAXZ, 4 * MAXZ):
        for d in (0, 1):
            light.append((tl, 1, d))      # refused before anything is decoded
            light.append((tl, 3, d))      # unknown zip: the IO set-up fails
    for tl in (MAXZ - 1, MAXZ):
        light.append((tl, 1, 0))          # within the limit, not a deflate stream: fails in the inflater at once
        light.append((tl, 3, 1))
    for _ in range(10 if not full else 100):
        light.append((rnd.randint(MAXZ + 1, 8 * MAXZ), 1, rnd.randint(0, 1)))
        light.append((rnd.randint(8, 5000), rnd.choice([0, 1, 2]), 1))
    zl = ["zipct\t%d\t%d\t%d" % t for t in light]
    zh = ["zipct\t%d\t%d\t%d" % t for t in heavy]

    # --- inflate feed
    for n in [5, 6, 100, 4096, 65540, 65541, 131080, MAXZ - 1, MAXZ, MAXZ + 1, MAXZ + 2, 300000, 2 * MAXZ, 4 * MAXZ, 16 * MAXZ]:
        add("inflate feed grid", "inffeed\t%d" % n)
    for _ in range(10 if not full else 100):
        add("inflate feed random", "inffeed\t%d" % rnd.randint(MAXZ - 2000, MAXZ + 2000))
    # octets BEHIND the end of the deflate stream in the same feed: refused, and promptly (the inflater makes no progress there)
    for n, t in ((5, 1), (100, 1), (100, 8), (5000, 3), (70000, 1), (200, 4096)):
        add("inflate feed with trailing octets", "inffeed\t%d\t%d" % (n, t))

    # --- KEYMAX sites
    klens = [0, 1, 15, 16, 23, 24, 31, 32, 47, 48, 63, 64, 1016, 1023, 1024, 1025, 1032, 1039, 1040, 1041, 1048, 2048, 4096, 65536]
    if full:
        klens += list(range(1000, 1060)) + [rnd.randint(1025, 70000) for _ in range(40)]
    klens = [str(x) for x in klens]
    variants = {
        "hmac_sig": ["HS256", "HS384", "HS512"], "hmac_ver": ["HS256", "HS384", "HS512"],
        "aeskw_wrp": ["A128KW", "A192KW", "A256KW"], "aeskw_unw": ["A128KW", "A192KW", "A256KW"],
        "pbes2_k_wrp": ["0", "1", "2"], "pbes2_pw_wrp": ["0"], "pbes2_k_unw": ["0", "2"],
        "ecdhes_apu_wrp": [None], "ecdhes_apv_wrp": [None], "ecdhes_apu_unw": [None], "ecdhes_apv_unw": [None],
        "ecdhes_x_unw": [None],
    }
    for site, algs in variants.items():
        for alg in algs:
            specs = klens + ([] if site == "pbes2_pw_wrp" else ["bad", "none"])
            for s in specs:
                add("KEYMAX site x length grid", "keymax\t%s\t%s%s" % (site, s, "" if alg is None else "\t" + alg))
    for _ in range(40 if not full else 600):
        site = rnd.choice(sorted(variants))
        alg = rnd.choice(variants[site])
        add("KEYMAX site random length", "keymax\t%s\t%d%s" % (site, rnd.randint(990, 1100), "" if alg is None else "\t" + alg))

    # --- oct key generation
    for v in [-1, 0, 1, 16, 1023, 1024, 1025, 4096, 65536, 2**31, 2**32, 2**32 + 16, 2**32 + 1024, -2**32 + 16, 2**63 - 1, -2**63,
              1.5, "16", None, True, [], {}]:
        add("oct bytes grid", "oct_gen\t%s" % dumps(v))
    add("oct bytes grid", "oct_gen\t-")

    # spread the slow zipct cases so that they land in different shards
    rnd.shuffle(zl)
    for z in zl:
        add("compressed-ciphertext limit (fast cases)", z)
    step = max(1, len(cases) // (len(zh) + 1))
    for i, z in enumerate(zh):
        cases.insert(min(len(cases), (i + 1) * step), z)
        dist["compressed-ciphertext limit (200 kB decoded)"] += 1
    return cases, dict(dist)


# ------------------------------------------------------------------ the direct oracle

def fields(out):
    d = {}
    for f in out.split("\t"):
        if "=" in f:
            k, v = f.split("=", 1)
            d[k] = v
        else:
            d.setdefault("_", []).append(f)
    return d


def is_int(v):
    return isinstance(v, int) and not isinstance(v, bool)


def slow(d):
    try:
        return int(d.get("us", "0")) >= 1000000
    except ValueError:
        return False


_RAW = {}   # case -> the implementation's line with its timing / plaintext-length fields (see normalize)


def oracle(case, out):
    out = _RAW.get(case, out)     # runner.standard hands the normalized line over; the oracle also checks the fields dropped there
    if out.startswith("CRASH") or out == "MISSING":
        return ("crash:" + case.split("\t")[0] + ":" + out[:70], "crash, sanitizer report or time-out on %r: %s" % (case[:200], out))
    if "SETUP-FAILED" in out or "UNKNOWN" in out:
        return ("harness-setup:" + case.split("\t")[0], "the harness could not set the case up: %r -> %s" % (case[:200], out))
    f = case.split("\t")
    d = fields(out)
    cmd = f[0]
    if cmd == "pbes2_unw":
        it = int(d["iter"])
        if d["G"] == "P" and it > P2C_MAX:
            return ("pbes2-unw-iterations-above-max",
                    "jose_jwe_dec_jwk (%s) with header p2c=%s asked PBKDF2 for %d iterations (> %d): alg_wrap_unw only tests the 64-bit "
                    "value against the maximum and then converts it to int" % (PB_ALG[int(f[3])], f[1], it, P2C_MAX))
        v = 1000 if f[1] == "keep" else (None if f[1] == "-" else json.loads(f[1]))
        absent = f[1] == "-"
        if is_int(v) and v > P2C_MAX and d["G"] != "R":
            return ("pbes2-unw-p2c-above-max-not-refused", "p2c=%d > %d reached key derivation on unwrap (iter=%s)" % (v, P2C_MAX, d["iter"]))
        if (absent or not is_int(v)) and (d["G"] != "R" or d["final"] != "R"):
            return ("pbes2-unw-p2c-not-an-integer-accepted", "p2c=%s (absent or not a JSON integer) was not refused before key derivation" % f[1])
        if is_int(v) and v <= 0 and (d["kdfret"] in ("1", "capped") or d["final"] == "A"):
            return ("pbes2-unw-nonpositive-p2c-derives-key",
                    "jose_jwe_dec_jwk (%s) with header p2c=%d (not positive) ran the key derivation with %s iterations%s"
                    % (PB_ALG[int(f[3])], v, d["iter"], " and unwrapped the key" if d["final"] == "A" else ""))
        if f[2] != "keep":
            p2s = None if f[2] == "-" else ("A" * elen(int(f[2][4:])) if f[2].startswith("len:") else json.loads(f[2]))
            dl = dlen_text(p2s) if isinstance(p2s, str) else None
            ok = dl is not None and 8 <= dl <= KEYMAX
            if not ok and d["G"] != "R":
                return ("pbes2-unw-salt-not-refused", "p2s %s (decoded length %s) reached key derivation" % (f[2][:60], dl))
            if ok and d["G"] == "P" and int(d["saltl"]) != len(PB_ALG[int(f[3])]) + 1 + dl:
                return ("pbes2-unw-salt-length", "salt handed to PBKDF2 has %s bytes, expected %d" % (d["saltl"], len(PB_ALG[int(f[3])]) + 1 + dl))
        if d["G"] == "R" and slow(d):
            return ("slow-refusal:pbes2_unw", "refusal took %s us: %r" % (d.get("us"), case[:200]))
        return None
    if cmd == "p2c_wrp":
        if d["final"] == "A":
            try:
                rec = json.loads(d["p2c"])
            except ValueError:
                rec = None
            it = int(d["iter"])
            if not is_int(rec) or not (P2C_MIN <= rec <= P2C_MAX) or rec != it:
                return ("pbes2-wrp-p2c-out-of-range",
                        "jose_jwe_enc_jwk (%s) with p2c=%s in the %s header succeeded: the produced header carries p2c=%s, PBKDF2 ran %d iterations "
                        "(\"{s?i}\" narrows to int before the range test; no unwrap accepts the result)" % (PB_ALG[int(f[3])], f[1], f[2], d["p2c"], it))
            if not (P2C_MIN <= it <= P2C_MAX):
                return ("pbes2-wrp-iterations-out-of-range", "wrap ran %d iterations for p2c=%s" % (it, f[1]))
        else:
            if d["G"] != "R":
                return ("pbes2-wrp-derives-then-refuses", "wrap with p2c=%s ran PBKDF2 (%s iterations) and then failed" % (f[1], d["iter"]))
            if slow(d):
                return ("slow-refusal:p2c_wrp", "refusal took %s us: %r" % (d.get("us"), case[:200]))
        return None
    if cmd == "zipct":
        tl, mode, deflated = int(f[1]), int(f[2]), f[3] != "0"
        if "UNEXPECTED-PLAINTEXT-LENGTH" in out:
            return ("zipct-plaintext-length", "decryption returned a plaintext of unexpected length: %r -> %s" % (case, out))
        if mode == 1 and tl > MAXZ:
            if d["final"] != "R":
                return ("zip-ciphertext-limit-not-enforced", "a compressed JWE with a ciphertext text of %d characters was decrypted by jose_jwe_dec_cek" % tl)
            if d["dec"] != "N":
                return ("zip-ciphertext-decoded-before-refusal", "a compressed JWE with %d characters of ciphertext was refused only after ciphertext reached the cipher" % tl)
            if slow(d):
                return ("slow-refusal:zipct", "refusal took %s us: %r" % (d.get("us"), case))
        if mode in (0, 2) and tl % 4 != 1 and d["final"] != "A":
            return ("uncompressed-ciphertext-refused", "a valid uncompressed JWE with %d characters of ciphertext was refused" % tl)
        if mode == 1 and deflated and tl <= MAXZ and tl % 4 != 1:
            n = tl // 4 * 3 + (0 if tl % 4 == 0 else tl % 4 - 1)
            want = n - 5 * ((n + 65539) // 65540)
            if d["final"] != "A" or d.get("ptl") != str(want):
                return ("zip-within-limit-refused", "a valid compressed JWE with %d characters of ciphertext gave %s" % (tl, out))
        return None
    if cmd == "inffeed":
        n = int(f[1])
        if len(f) > 2 and int(f[2]) > 0:
            if d["final"] != "R":
                return ("inflate-trailing-octets-accepted", "a complete deflate stream of %d octets followed by %s more octets was accepted by the inflater (%s)" % (n, f[2], out))
            if slow(d):
                return ("slow-refusal:inffeed", "refusal took %s us" % d.get("us"))
            return None
        if n > MAXZ:
            if d["final"] != "R" or d["out"] != "0":
                return ("inflate-block-limit-not-enforced", "one feed of %d bytes was accepted by the inflater (%s)" % (n, out))
            if slow(d):
                return ("slow-refusal:inffeed", "refusal took %s us" % d.get("us"))
        elif n >= 5:
            want = n - 5 * ((n + 65539) // 65540)
            if d["final"] != "A" or d["out"] != str(want):
                return ("inflate-block-within-limit", "one feed of %d valid bytes gave %s (expected %d bytes out)" % (n, out, want))
        return None
    if cmd == "keymax":
        site, spec = f[1], f[2]
        cap = 1040 if site == "aeskw_unw" else KEYMAX
        if spec in ("bad", "none"):
            if site != "pbes2_pw_wrp" and (d["final"] != "R" or d["G"] == "P"):
                return ("keymax-%s-undecodable-accepted" % site, "site %s went on with an undecodable / missing value (%s)" % (site, out))
            return None
        n = int(spec)
        if n > cap:
            if d["final"] != "R" or d["G"] == "P":
                return ("keymax-%s-oversize-accepted" % site, "site %s: a value of %d decoded bytes (buffer %d) was not refused: %s" % (site, n, cap, out))
            if slow(d):
                return ("slow-refusal:keymax-" + site, "refusal took %s us: %r" % (d.get("us"), case))
        elif d["G"] == "P" and d["n"] != str(n):
            return ("keymax-%s-length" % site, "site %s handed %s bytes on for a value of %d bytes" % (site, d["n"], n))
        return None
    if cmd == "oct_gen":
        v = None if f[1] == "-" else json.loads(f[1])
        if d["final"] == "A":
            if not is_int(v) or not (1 <= v <= KEYMAX) or d["n"] != str(v):
                return ("keymax-oct-bytes-accepted", "jose_jwk_gen made an oct key for bytes=%s: %s" % (f[1], out))
        elif slow(d):
            return ("slow-refusal:oct_gen", "refusal took %s us" % d.get("us"))
        return None
    return None


def nontrivial(case, out):
    return "final=A" in out or "G=P" in out


def normalize(case, line):
    """timing (us=) and plaintext length (ptl=) are outside the comparison with the model; only the implementation prints them"""
    if "\tus=" in line:
        _RAW[case] = line
    return "\t".join(x for x in line.split("\t") if not (x.startswith("us=") or x.startswith("ptl=")))


def correspond(ctx):
    cases, dist = gen(ctx["tier"], ctx["seed"])
    st = runner.standard(
        ctx, cases, oracle, nontrivial,
        rule="boundary grids from the property's quantifier on the real entry points: p2c (26 shapes + negatives + random k*2^32+r) on "
             "jose_jwe_dec_jwk and jose_jwe_enc_jwk for the three PBES2 algorithms; p2s decoded lengths 0..16, 1000..1040, 2048+, malformed; "
             "ciphertext text lengths around 262144 with zip in the protected / unprotected header, unknown zip, none (valid AES-GCM JWEs whose "
             "compressed payload is a stored-block deflate stream of the exact length); single inflate feeds around the limit; every KEYMAX site "
             "(HMAC k sign+verify, AES-KW cek and encrypted_key, PBKDF2 password as oct key and as string, ECDH-ES apu/apv on wrap and unwrap, "
             "exchanged x) x decoded lengths 0..65536, undecodable, absent; oct 'bytes'.  Compared with the Gallina guards line by line "
             "(timing and plaintext-length fields excluded); non-trivial = the operation went on (G=P or final=A)",
        dist=dist,
        normalize=normalize,
        exhaustive_subspaces=["p2s decoded lengths 0..16 and 1000..1040", "every KEYMAX site at 1023, 1024, 1025 (1039..1041 for the AES-KW unwrap buffer)"])
    st["refuted"] = list(REFUTED)
    return st
