"""C04 JWE encrypt/decrypt round trip and RFC 7516 interoperability in both directions."""
import collections
import json
import os
import random
import re

import jwsgen as G
import runner
import vlib

PID = "C04"
PROP_FILE = "Props/Properties_C04.v"
LEVEL = "proof"
EXTRA_TARGETS = ["Jose/PkEncAlgs.vo"]
ASSUMPTIONS = [
    "C04: the content-layer round trip is proved FROM the AEAD laws open(seal(m)) = m of AES-GCM and AES-CBC-HMAC (hypotheses of C04_gcm_roundtrip / C04_cbchs_roundtrip, stated over the Gallina primitives and validated on NIST/RFC vectors and by this correspondence, not proved); key-wrap laws likewise",
    "C04: the independent implementation is the Gallina model (AES, GCM, CBC-HMAC, RFC 3394, PBKDF2, Concat KDF, inflate/stored deflate extracted to OCaml; ECDH over BigZ inside coqc; RSA private exponentiation by python pow() as a witness checked with the public exponent)",
    "C04: bit-identity of ciphertext and tag is checked by re-encrypting on the model with the CEK and IV found in jose's product (no compression: zlib's choice of deflate blocks is not reproduced)",
]

VEC = "/repo/tests/vectors"
ENCS = list(G.ENC_KEYLEN)


def load_vectors():
    out = []
    for n in sorted(set(f.rsplit(".", 1)[0] for f in os.listdir(VEC) if f.startswith("rfc7520_5"))):
        ks = [os.path.join(VEC, n + e) for e in (".jwk", ".jwkset") if os.path.exists(os.path.join(VEC, n + e))]
        ks += sorted(os.path.join(VEC, f) for f in os.listdir(VEC) if f.startswith(n + ".") and f.endswith(".jwk") and f != n + ".jwk")
        ptf = os.path.join(VEC, n + ".pt")
        if not ks or not os.path.exists(ptf):
            continue
        pt = open(ptf, "rb").read()
        for ext in (".jwec", ".jwef", ".jweg"):
            p = os.path.join(VEC, n + ext)
            if not os.path.exists(p):
                continue
            t = open(p).read().strip()
            if ext == ".jwec":
                f = t.split(".")
                tok = {"protected": f[0], "encrypted_key": f[1], "iv": f[2], "ciphertext": f[3], "tag": f[4]}
            else:
                tok = json.loads(t)
            for k in ks:
                try:
                    key = json.load(open(k))
                except Exception:
                    key = open(k).read().strip()      # a password
                out.append((n + ext, os.path.basename(k), tok, key, pt))
    return out


def correspond(ctx):
    rep = ctx["rep"]
    rnd = random.Random(ctx["seed"])
    bdir = ctx["bdir"]
    dist = collections.Counter()
    keys = G.standard_keys(bdir)
    quick = ctx["tier"] == "quick"
    J = G.dumps
    # ---- 1. jose encrypts (all wrap x enc x zip x aad), the recipient key decrypts in jose and on the model
    req, meta = [], []
    pts = [b"", b"x", b"0123456789abcde", b"0123456789abcdef", b"0123456789abcdefg", bytes(range(256)) * 17]
    if not quick:
        pts.append(bytes(rnd.getrandbits(8) for _ in range(20000)))
    wraps = G.SYM_WRAPS + G.PBES2[:1] + G.EC_WRAPS + G.RSA_WRAPS
    for wrap in wraps:
        for enc in ENCS:
            for zip_ in (False, True):
                for aad in (None, "YWFk"):
                    if quick and wrap not in G.PBES2 and rnd.random() < (0.0 if wrap in ("dir", "A128KW") else 0.75):
                        continue
                    if wrap in G.PBES2 and ((quick and (zip_ or aad or enc != "A128GCM")) or (not quick and (zip_ or enc not in ("A128GCM", "A256CBC-HS512")))):
                        # PBKDF2 with >= 1000 iterations on the Gallina model costs ~30 s per token
                        continue
                    key = G.wrap_key(rnd, keys, wrap, enc)
                    if key is None:
                        continue
                    where = rnd.choice(["protected", "split"])
                    if aad and not zip_ and rnd.random() < (0.6 if wrap in ("dir", "A128KW") else 0.3):
                        where = "none"       # no protected header: the AAD input is "." || aad alone
                    tmpl = G.jwe_template(wrap, enc, zip_, aad, where=where)
                    pt = rnd.choice(pts)
                    req.append("jweenc\t%s\t-\t%s\t%s" % (J(tmpl), J(key), pt.hex() or "-"))
                    meta.append((wrap, enc, zip_, aad, key, pt))
    # extra ECDH-ES tokens on P-521 (the 66-octet field: about half of all shared secrets Z start with a zero octet,
    # which must be KEPT in the Concat KDF input -- RFC 7518 4.6 / SEC 1)
    if keys.get("P-521"):
        for i in range(10 if quick else 40):
            wrap = ("ECDH-ES", "ECDH-ES+A128KW")[i % 2]
            tmpl = G.jwe_template(wrap, "A128GCM", False, None)
            req.append("jweenc\t%s\t-\t%s\t%s" % (J(tmpl), J(keys["P-521"]), b"z".hex()))
            meta.append((wrap, "A128GCM", False, None, keys["P-521"], b"z"))
    outs = G.harness(bdir, req)
    toks = []
    for r, o, m in zip(req, outs, meta):
        if o == "ERR" or o.startswith("CRASH"):
            rep.violation("enc-failed:%s:%s" % (m[0], m[1]), "jose_jwe_enc failed for %s/%s zip=%s aad=%s: %s" % (m[0], m[1], m[2], m[3], o), {"case": r})
        else:
            toks.append((json.loads(o), m))
    dist["jose-produced tokens"] = len(toks)
    expected = {}
    sym_cases, pk_cases = [], []
    for tok, (wrap, enc, zip_, aad, key, pt) in toks:
        c = "jwedec\t%s\t-\t%s" % (J(tok), J(key))
        expected[c] = "OK " + (pt.hex() or "-")
        if wrap in G.SYM_WRAPS or wrap in G.PBES2:
            sym_cases.append(c)
        else:
            pk_cases.append(c)

    def oracle(case, out):
        if out.startswith("CRASH"):
            return ("crash:" + out[:80], "crash or sanitizer report: " + out)
        want = expected.get(case)
        if want is not None and out != want:
            return ("roundtrip-failed:" + case.split("\t")[0], "a recipient key does not recover the plaintext (got %s)" % out[:60])
        return None

    def on_disagree(case, impl, model):
        if case.startswith("jwedec") and impl.startswith("OK") and model == "ERR":
            return ("product-not-rfc7516", "a JWE produced/accepted by jose is rejected by the independent implementation")
        if case.startswith("jwedec") and impl == "ERR" and model.startswith("OK"):
            return ("rfc7516-token-rejected", "jose rejects a JWE that the independent implementation decrypts")
        return None
    # ---- 1b. PBES2 with the iteration count in each header position (and absent): the count announced in the token is
    #           the count used -- jose decrypts its own product (the unwrap side reads the merged header; the Gallina decryptor covers one PBES2 token per run in section 1)
    pb_req, pb_meta = [], []
    for wrap in G.PBES2:
        for place in ("protected", "unprotected", "header", "absent"):
            for p2c in ((1000, 4096) if not quick else (rnd.choice([1000, 1001, 4096]),)):
                hdr = {"alg": wrap, "enc": "A128GCM"}
                tm, rcp = {"protected": hdr}, "-"
                if place == "protected":
                    hdr["p2c"] = p2c
                elif place == "unprotected":
                    tm["unprotected"] = {"p2c": p2c}
                elif place == "header":
                    rcp = J({"header": {"p2c": p2c}})
                key = G.oct_key(rnd, 20)
                pb_req.append("jweenc\t%s\t%s\t%s\t%s" % (J(tm), rcp, J(key), b"pbes2 placement".hex()))
                pb_meta.append((wrap, place, p2c, key))
    pb_out = G.harness(bdir, pb_req)
    pb_dec = []
    for r_, o, (wrap, place, p2c, key) in zip(pb_req, pb_out, pb_meta):
        if o == "ERR" or o.startswith("CRASH"):
            rep.violation("enc-failed:%s:p2c-%s" % (wrap, place), "jose_jwe_enc failed for %s with p2c %s: %s" % (wrap, place, o[:80]), {"case": r_})
            continue
        tok = json.loads(o)
        merged = dict(tok.get("header") or {})
        merged.update(tok.get("unprotected") or {})
        merged.update(json.loads(G.unb64(tok["protected"])))
        ann = merged.get("p2c")
        if place != "absent" and ann != p2c:
            rep.violation("pbes2-count-not-recorded:" + place, "the caller's p2c %d (given in %s) is not the one the token announces (%r)" % (p2c, place, ann), {"case": r_, "implementation": o[:600]})
        pb_dec.append(("jwedec\t%s\t-\t%s" % (o, J(key)), r_, wrap, place))
    for (c_, r_, wrap, place), o in zip(pb_dec, G.harness(bdir, [x[0] for x in pb_dec])):
        if o != "OK " + b"pbes2 placement".hex():
            rep.violation("roundtrip-failed:pbes2-p2c-" + place, "jose cannot decrypt its own %s token when p2c is given in %s: %s" % (wrap, place, o[:60]), {"case": r_, "decrypt": c_[:3000]})
    dist["PBES2 tokens with p2c in protected / shared / per-recipient header / absent"] = len(pb_req)

    # ---- 1c. ECDH-ES direct agreement with PartyUInfo / PartyVInfo of every length class: the content key jose derives
    #           (returned by jose_jwe_dec_jwk) equals Concat KDF (NIST SP 800-56A 5.8.1, RFC 7518 4.6.2) computed by python over
    #           Z = x(d * epk) -- apu / apv enter the hash with their 32-bit length, whatever their length
    import hashlib as _hl
    import pyec as _ec
    kdf_req, kdf_meta = [], []
    encbits = {"A128GCM": 128, "A256GCM": 256, "A128CBC-HS256": 256, "A256CBC-HS512": 512}
    lens_ = [None, 0, 1, 5, 8, 9, 17, 64, 300]
    for crv in ("P-256", "P-384", "P-521"):
        if not keys.get(crv):
            continue
        for enc in (encbits if not quick else rnd.sample(list(encbits), 2)):
            for ul in (lens_ if not quick else rnd.sample(lens_, 4) + [9, 17]):
                vl = rnd.choice(lens_)
                hdr = {"alg": "ECDH-ES", "enc": enc}
                apu = None if ul is None else bytes(rnd.getrandbits(8) for _ in range(ul))
                apv = None if vl is None else bytes(rnd.getrandbits(8) for _ in range(vl))
                if apu is not None:
                    hdr["apu"] = G.b64(apu)
                if apv is not None:
                    hdr["apv"] = G.b64(apv)
                kdf_req.append("jweenc\t%s\t-\t%s\t%s" % (J({"protected": hdr}), J(G.pub_of(keys[crv])), b"kdf".hex()))
                kdf_meta.append((crv, enc, apu or b"", apv or b""))
    kdf_out = G.harness(bdir, kdf_req)
    unw, unw_meta = [], []
    for r_, o, m in zip(kdf_req, kdf_out, kdf_meta):
        if o == "ERR" or o.startswith("CRASH"):
            rep.violation("enc-failed:ECDH-ES:apu", "jose_jwe_enc failed for ECDH-ES with apu of %d / apv of %d octets: %s" % (len(m[2]), len(m[3]), o[:60]), {"case": r_[:2000]})
            continue
        unw.append("jweunw\t%s\t-\t%s" % (o, J(keys[m[0]])))
        unw_meta.append((json.loads(o), m, r_))
    for c_, o, (tok, (crv, enc, apu, apv), r_) in zip(unw, G.harness(bdir, unw), unw_meta):
        hd = json.loads(G.unb64(tok["protected"]))
        hd.update(tok.get("header") or {})
        hd.update(tok.get("unprotected") or {})
        epk = hd.get("epk") or {}
        cv = _ec.CURVES[crv]
        try:
            d = int.from_bytes(G.unb64(keys[crv]["d"]), "big")
            Z = _ec.mul(cv, d, (int.from_bytes(G.unb64(epk["x"]), "big"), int.from_bytes(G.unb64(epk["y"]), "big")))[0].to_bytes(cv["size"], "big")
            other = b"".join(len(x).to_bytes(4, "big") + x for x in (enc.encode(), apu, apv)) + encbits[enc].to_bytes(4, "big")
            dk, ctr = b"", 1
            while len(dk) * 8 < encbits[enc]:
                dk += _hl.sha256(ctr.to_bytes(4, "big") + Z + other).digest()
                ctr += 1
            wantk = G.b64(dk[:encbits[enc] // 8])
            got = json.loads(o).get("k") if o.startswith("{") else o
        except Exception as ex:
            rep.violation("concat-kdf:check-failed", "could not evaluate the ECDH-ES token: %s" % ex, {"case": c_[:2000]})
            continue
        if got != wantk:
            rep.violation("concat-kdf:differs:%s" % ("apu>8" if len(apu) > 8 else "apv>8" if len(apv) > 8 else "short-info"),
                          "ECDH-ES on %s / %s with apu of %d and apv of %d octets: the content key jose derives is not Concat KDF(Z, %s, apu, apv, %d) of RFC 7518 4.6.2"
                          % (crv, enc, len(apu), len(apv), enc, encbits[enc]), {"case": c_[:3000], "produced_by": r_[:1500], "implementation": str(got)[:100], "expected": wantk})
    dist["ECDH-ES direct: derived content key compared with python Concat KDF (apu / apv of 0..300 octets)"] = len(unw)

    # ---- 1d. compressed plaintext beyond the 256 KiB bound that applies to the COMPRESSED size: 300 000 / 600 000 compressible
    #           octets (a few KiB once deflated) must still round trip, one-shot and streaming (implementation only)
    big_req, big_meta = [], []
    for wrap_, enc_ in (("dir", "A128GCM"), ("A128KW", "A128CBC-HS256")) + ((("A256KW", "A256GCM"),) if not quick else ()):
        for n_ in (300000,) if quick else (262144, 262145, 300000, 600000):
            pt_ = (b"compressible plaintext %d " % n_) * (n_ // 20)
            pt_ = pt_[:n_]
            k_ = G.wrap_key(rnd, keys, wrap_, enc_)
            big_req.append("jweenc\t%s\t-\t%s\t%s" % (J(G.jwe_template(wrap_, enc_, True, None)), J(k_), pt_.hex()))
            big_meta.append((wrap_, enc_, k_, pt_))
    bdec, bdm = [], []
    for r_, o, (wrap_, enc_, k_, pt_) in zip(big_req, G.harness(bdir, big_req), big_meta):
        if o == "ERR" or o.startswith("CRASH"):
            rep.violation("enc-failed:%s:%s:zip-large" % (wrap_, enc_), "jose_jwe_enc with zip failed for %d octets: %s" % (len(pt_), o[:80]), {"case": r_[:300]})
            continue
        ctl = len(json.loads(o)["ciphertext"])
        bdec.append("jwedec\t%s\t-\t%s" % (o, J(k_)))
        bdm.append((wrap_, enc_, pt_, "one-shot"))
        bdec.append("jwedecio\t%s\t-\t%s\t%s" % (o, J(k_), "%d,%d" % (ctl // 2, ctl - ctl // 2)))
        bdm.append((wrap_, enc_, pt_, "streaming"))
    for c_, o, (wrap_, enc_, pt_, how) in zip(bdec, G.harness(bdir, bdec), bdm):
        good = (o == "OK " + pt_.hex()) if how == "one-shot" else (o.split(" ")[1:] == ["T", pt_.hex()])
        if not good:
            rep.violation("roundtrip-failed:zip-large:" + how, "%s/%s with zip: %d compressible octets do not come back (%s decryption: %s)" % (wrap_, enc_, len(pt_), how, o[:40]), {"case": c_[:400]})
    dist["zip round trips of 300 000+ compressible octets"] = len(bdec)

    # ---- 2. bit-identity: re-encrypt on the model with jose's CEK and IV (no zip), compare ciphertext and tag
    menc_cases = []
    for tok, (wrap, enc, zip_, aad, key, pt) in toks:
        if zip_ or wrap != "dir" or len(pt) > 5000:
            continue
        tmpl = {"protected": json.loads(G.unb64(tok["protected"]))} if "protected" in tok else {}   # re-encoded by the model: must give the same text
        if "unprotected" in tok:
            tmpl["unprotected"] = tok["unprotected"]
        if aad:
            tmpl["aad"] = aad
        iv = G.unb64(tok["iv"])
        c = "menc\t%s\t%s\t%s\t%s" % (J(tmpl), J(key), iv.hex(), pt.hex() or "-")
        menc_cases.append((c, tok))
    if ctx.get("driver") and menc_cases:
        mo = vlib.run_cases(ctx["driver"], [c for c, _ in menc_cases])
        for (c, tok), o in zip(menc_cases, mo):
            try:
                m = json.loads(o)
            except Exception:
                m = {}
            if m.get("ciphertext") != tok["ciphertext"] or m.get("tag") != tok["tag"]:
                rep.violation("ciphertext-not-bit-identical:" + (json.loads(G.unb64(tok["protected"])) if "protected" in tok else tok.get("unprotected", {})).get("enc", "?"),
                              "given the same CEK and IV the independent implementation computes a different ciphertext/tag",
                              {"case": c, "jose": {"ciphertext": tok["ciphertext"][:80], "tag": tok["tag"]}, "model": o[:300]})
        dist["bit-identity re-encryptions on the model"] = len(menc_cases)
    # ---- 3. model encrypts, jose decrypts (dir; A128KW via model key wrap)
    m2j = []
    for enc in ENCS:
        for zip_ in (False, True):
            for aad in (None, "bW9kZWwgYWFk"):
                key = G.oct_key(rnd, G.ENC_KEYLEN[enc])
                pt = rnd.choice(pts[:5])
                tmpl = {"protected": {"alg": "dir", "enc": enc}, "encrypted_key": ""}
                if zip_:
                    tmpl["protected"]["zip"] = "DEF"
                if aad:
                    tmpl["aad"] = aad
                rndb = bytes(rnd.getrandbits(8) for _ in range(16))
                m2j.append(("menc\t%s\t%s\t%s\t%s" % (J(tmpl), J(key), rndb.hex(), pt.hex() or "-"), key, pt))
                if aad and not zip_:
                    # no protected header at all
                    t2 = {"unprotected": {"alg": "dir", "enc": enc}, "encrypted_key": "", "aad": aad}
                    m2j.append(("menc\t%s\t%s\t%s\t%s" % (J(t2), J(key), rndb.hex(), pt.hex() or "-"), key, pt))
    if ctx.get("driver"):
        mo = vlib.run_cases(ctx["driver"], [c for c, _, _ in m2j])
        dcases = []
        for (c, key, pt), o in zip(m2j, mo):
            if o == "ERR" or o.startswith("MODEL"):
                rep.violation("model-enc-failed", "the model's encryptor failed: " + o[:100], {"case": c}, found=False)
                continue
            dc = "jwedec\t%s\t-\t%s" % (o, J(key))
            expected[dc] = "OK " + (pt.hex() or "-")
            dcases.append(dc)
        for dc, o in zip(dcases, G.harness(bdir, dcases)):
            if o != expected[dc]:
                rep.violation("model-token-rejected:" + json.loads(dc.split("\t")[1]).get("protected", "no-protected-header")[:12],
                              "a JWE produced by the independent implementation does not decrypt in jose: " + o[:60], {"case": dc, "implementation": o})
        dist["model-produced tokens decrypted by jose"] = len(dcases)
    # ---- 4. RFC 7520 section 5 vectors
    vec = load_vectors()
    vcases = []
    for name, kname, tok, key, pt in vec:
        c = "jwedec\t%s\t-\t%s" % (J(tok), J(key))
        expected[c] = "OK " + (pt.hex() or "-")
        vcases.append((c, name, kname))
    vi = G.harness(bdir, [c for c, _, _ in vcases])
    # a vector with several recipients lists one key file per recipient: each must work; single-key vectors must work
    byname = collections.defaultdict(list)
    for (c, name, kname), o in zip(vcases, vi):
        byname[name].append((c, kname, o))
    for name, lst in byname.items():
        oks = [x for x in lst if x[2] == expected[x[0]]]
        if not oks or (len(lst) > 1 and len(oks) != len(lst)):
            bad = [x for x in lst if x[2] != expected[x[0]]][0]
            rep.violation("rfc-vector-rejected:" + name, "RFC 7520 example %s does not decrypt with %s: %s" % (name, bad[1], bad[2][:40]),
                          {"case": bad[0], "implementation": bad[2]})
    sym_vec = [c for c, n, k in vcases if ('"kty":"oct"' in c.split("\t")[3] or c.split("\t")[3].startswith('"'))
               and not (quick and n.startswith("rfc7520_5.3"))]      # 5.3 is PBES2 with 8192 iterations: thorough tier only on the model
    dist["RFC 7520 section 5 vectors"] = len(vcases)
    # ---- 5. several recipients and re-wrapping histories
    hist = []
    for _ in range(6 if quick else 60):
        enc = rnd.choice(ENCS)
        w1, w2 = rnd.choice(["A128KW", "A256KW", "A192GCMKW"]), rnd.choice(["A256KW", "A128GCMKW", "A192KW"])
        k1, k2, k3 = G.wrap_key(rnd, keys, w1, enc), G.wrap_key(rnd, keys, w2, enc), G.wrap_key(rnd, keys, "A128KW", enc)
        pt = rnd.choice(pts[:5])
        hist.append(("jweenc2\t%s\t%s\t%s\t%s" % (J({"protected": {"enc": enc}}), J(k1), J(k2), pt.hex() or "-"), k1, k2, k3, pt))
    ho = G.harness(bdir, [h[0] for h in hist])
    more = []
    for (c, k1, k2, k3, pt), o in zip(hist, ho):
        if o == "ERR" or o.startswith("CRASH"):
            rep.violation("enc2-failed", "encrypting to two recipients failed: " + o[:60], {"case": c})
            continue
        tok = o.split("\t")[0]
        for k in (k1, k2):
            dc = "jwedec\t%s\t-\t%s" % (tok, J(k))
            expected[dc] = "OK " + (pt.hex() or "-")
            sym_cases.append(dc)
        dc = "jwedec\t%s\t-\t%s" % (tok, J(k3))
        expected[dc] = "ERR"
        sym_cases.append(dc)
        more.append(("jwerewrap\t%s\t%s\t%s" % (tok, J(k1), J(k3)), k1, k2, k3, pt))
    ro = G.harness(bdir, [m[0] for m in more])
    for (c, k1, k2, k3, pt), o in zip(more, ro):
        if o == "ERR" or o.startswith("CRASH"):
            rep.violation("rewrap-failed", "re-wrapping a recovered CEK to a new recipient failed: " + o[:60], {"case": c})
            continue
        for k in (k1, k2, k3):
            dc = "jwedec\t%s\t-\t%s" % (o, J(k))
            expected[dc] = "OK " + (pt.hex() or "-")
            sym_cases.append(dc)
    dist["two-recipient and rewrap histories"] = len(hist)
    # ---- 5b. ONE call with a key SET (array and {"keys": ...}) x recipient template forms: every recipient key
    #          recovers the plaintext (symmetric families also on the model, ECDH-ES / mixed on the implementation)
    ksets = []
    for fam, ks in (("A128KW", [G.oct_key(rnd, 16) for _ in range(3)]),
                    ("A256GCMKW", [dict(G.oct_key(rnd, 32), alg="A256GCMKW") for _ in range(2)]),
                    ("ECDH-ES+A128KW", [k for k in (keys.get("P-256"), keys.get("P-384")) if k]),
                    ("mixed", [k for k in (G.oct_key(rnd, 16), keys.get("P-256"), G.oct_key(rnd, 32)) if k])):
        for tk, rcp in (("object with header", {"header": {"purpose": "c04"}}), ("empty object", {}), ("none", None)):
            for shape in ("array", "jwkset"):
                karg = ks if shape == "array" else {"keys": ks}
                ksets.append(("jweenc\t%s\t%s\t%s\t%s" % (J({"protected": {"enc": "A128GCM"}}), "-" if rcp is None else J(rcp), J(karg), b"key set".hex()), fam, ks, tk))
        if fam in ("A128KW", "A256GCMKW", "ECDH-ES+A128KW"):
            # the algorithm named once in the protected / shared unprotected header: no per-recipient header exists
            # when the object is migrated from the flattened to the general form
            for tk, tm in (("alg in protected", {"protected": {"alg": fam, "enc": "A128GCM"}}), ("alg in shared unprotected", {"protected": {"enc": "A128GCM"}, "unprotected": {"alg": fam}})):
                ks2 = [{m: v for m, v in k.items() if m != "alg"} for k in ks]
                ksets.append(("jweenc\t%s\t-\t%s\t%s" % (J(tm), J(ks2), b"key set".hex()), fam, ks2, tk))
    for (c, fam, ks, tk), o in zip(ksets, G.harness(bdir, [k[0] for k in ksets])):
        if o == "ERR" or o.startswith("CRASH"):
            rep.violation("keyset-enc-failed:%s:%s" % (fam, tk), "jose_jwe_enc to a key set (%s, template %s) failed: %s" % (fam, tk, o[:60]), {"case": c})
            continue
        for k in ks:
            dc = "jwedec\t%s\t-\t%s" % (o, J(k))
            expected[dc] = "OK " + b"key set".hex()
            (sym_cases if fam in ("A128KW", "A256GCMKW") else pk_cases).append(dc)
    dist["key sets x recipient template forms"] = len(ksets)
    st = runner.standard(ctx, sym_cases + sym_vec, oracle, lambda c, o: o.startswith("OK"), on_disagree=on_disagree,
                         rule="jose_jwe_enc over key-management x content-encryption x zip x aad x plaintext lengths (0, 1, 15, 16, 17, 4352[, 70000]) with parameters in protected or split headers; every recipient key decrypts in jose AND on the independent model; ciphertext and tag bit-identical to the model's re-encryption under the same CEK and IV; model-produced tokens decrypt in jose; RFC 7520 section 5 examples; two-recipient tokens, one call with a key set (array / JWKSet) x recipient template forms, a foreign key, and re-wrapping of a recovered CEK to a third recipient",
                         dist=dist)
    # ---- public-key recipients: jose decrypts (oracle); a sample also on the BigZ model
    impl = G.harness(bdir, pk_cases)
    for c, o in zip(pk_cases, impl):
        v = oracle(c, o)
        if v:
            rep.violation(v[0], v[1], {"case": c, "implementation": o})
    def z_leading_zero(c):
        """does the shared secret of this ECDH-ES token start with a zero octet?  (independent python arithmetic)"""
        import pyec
        try:
            f = c.split("\t")
            tok, key = json.loads(f[1]), json.loads(f[3])
            hdr = {}
            if "protected" in tok:
                hdr.update(json.loads(G.unb64(tok["protected"])))
            hdr.update(tok.get("unprotected") or {})
            hdr.update(tok.get("header") or (tok.get("recipients") or [{}])[0].get("header") or {})
            epk = hdr["epk"]
            cv = pyec.CURVES[key["crv"]]
            d = int.from_bytes(G.unb64(key["d"]), "big")
            Q = (int.from_bytes(G.unb64(epk["x"]), "big"), int.from_bytes(G.unb64(epk["y"]), "big"))
            zx = pyec.mul(cv, d, Q)[0]
            return zx.to_bytes(cv["size"], "big")[0] == 0
        except Exception:
            return None
    ecs = [c for c in pk_cases if json.loads(c.split("\t")[3]).get("kty") == "EC"]
    zz = [c for c in ecs if z_leading_zero(c)]
    nz = [c for c in ecs if c not in zz]
    dist["ECDH-ES tokens whose shared secret starts with a zero octet"] = len(zz)
    sample = (zz[:2] + nz[:2]) if quick else (zz[:20] + nz[:20])
    rsa_sample = [c for c in pk_cases if json.loads(c.split("\t")[3]).get("kty") == "RSA" and "d" in json.loads(c.split("\t")[3])][:3 if quick else 30]
    lines, wants = [], []
    for c in sample:
        f = c.split("\t")
        if len(json.loads(f[1]).get("ciphertext", "")) > 3000:
            continue
        lines.append("  pk_jwe_dec %s %s []" % (G.coq_bytes(f[1].encode()), G.coq_bytes(f[3].encode())))
        wants.append(expected[c])
    for c in rsa_sample:
        f = c.split("\t")
        tok, key = json.loads(f[1]), json.loads(f[3])
        if len(tok.get("ciphertext", "")) > 3000:
            continue
        n = int.from_bytes(G.unb64(key["n"]), "big")
        d = int.from_bytes(G.unb64(key["d"]), "big")
        ek = tok.get("encrypted_key") or (tok.get("recipients") or [{}])[0].get("encrypted_key", "")
        ct = int.from_bytes(G.unb64(ek), "big")
        k = (n.bit_length() + 7) // 8
        w = pow(ct, d, n).to_bytes(k, "big")
        lines.append("  pk_jwe_dec %s %s %s" % (G.coq_bytes(f[1].encode()), G.coq_bytes(f[3].encode()), G.coq_bytes(w)))
        wants.append(expected[c])
    if lines:
        body = ("From JoseV Require Import Jose.PkEncAlgs.\nFrom Coq Require Import List NArith. Import ListNotations. Local Open Scope N_scope.\n"
                "Definition results : list (option (option (list N))) := [\n" + ";\n".join(lines) + "\n].\nEval vm_compute in results.\n")
        rc, out = G.run_coq_cases("c04", body)
        got = re.findall(r"Some \(Some\s*(\[[0-9;\s]*\])\)|Some None|(?<![( ])None", out or "") if rc == 0 else None
        flat = []
        if rc == 0:
            for m in re.finditer(r"Some\s*\(\s*Some\s*\[([0-9;\s]*)\]\s*\)|Some\s+None|None", out.split("=", 1)[1] if "=" in out else ""):
                t = m.group(0)
                if m.group(1) is not None:
                    flat.append("OK " + (bytes(int(x) for x in m.group(1).replace("\n", " ").split(";") if x.strip()).hex() or "-"))
                else:
                    flat.append("ERR")
        if rc != 0 or len(flat) != len(lines):
            rep.violation("pk-model-run", "the BigZ model run failed: %s" % (out or "")[-300:], {"broken": "coqc cases for C04"}, found=False)
        else:
            for w, g, l in zip(wants, flat, lines):
                if w != g:
                    st["disagreements"] += 1
                    st["first_disagreements"].append({"case": l[:800], "implementation": w[:100], "model": g[:100]})
                    rep.violation("pk-product-not-rfc7516", "an ECDH-ES/RSA JWE produced by jose is not decrypted to the plaintext by the independent implementation",
                                  {"case": l[:2000], "want": w[:200], "model": g[:200]})
        st["dist"]["public-key tokens decrypted on the BigZ model"] = len(lines)
    st["evaluations"] += len(pk_cases) + len(vcases) + len(menc_cases) + len(m2j)
    st["distinct_nontrivial"] += len(set(pk_cases)) + len(vcases)
    return st
