"""C10 weak or invalid key material is refused (producing and consuming side of every operation)."""
import collections
import concurrent.futures
import hashlib
import hmac as pyhmac
import json
import os
import random

import jwsgen as G
import pyec
import runner
import vlib

PID = "C10"
PROP_FILE = "Props/Properties_C10.v"
LEVEL = "proof"
EXTRA_TARGETS = ["Jwk/KeyCheckPk.vo"]
ASSUMPTIONS = [
    "C10: proved: what passes the key tests of the model satisfies the RFC 7518 minimums / exact lengths / curve validity (C10_hmac_key, C10_cek_exact, C10_kw_*, C10_rsa_sig_key, C10_ec_key ...); the tests are the ones the models of sign/verify/encrypt/decrypt/wrap/unwrap/exchange go through (C01..C04, C13); that the C code performs the same tests is the correspondence: every key of the grid is offered to the real operation and to the model",
    "C10: EC_KEY_check_key is modelled as 'coordinates are field elements, curve equation holds, and a present d is in [1,n) with dG = (x,y)' (cofactor 1 curves); RSA key import is modelled by its public part and the modulus size",
    "C10: the public-key side of the model is evaluated over BigZ by vm_compute inside coqc (Int63 primitives); the expected verdict of the oracle is computed by independent python arithmetic (tools/pyec.py)",
    "C10: RSA moduli of 2041..2047 bits have 256 octets and are accepted (the code and the property both speak of the octet length)",
]

HS = {"HS256": ("sha256", 32), "HS384": ("sha384", 48), "HS512": ("sha512", 64)}
ES = {"P-256": ("ES256", "sha256"), "P-384": ("ES384", "sha384"), "P-521": ("ES512", "sha512"), "secp256k1": ("ES256K", "sha256")}


def okey(b, **extra):
    k = {"kty": "oct", "k": G.b64(b)}
    k.update(extra)
    return k


def rb(rnd, n):
    return bytes(rnd.getrandbits(8) for _ in range(n))


def length_grid(tier, rnd, special, hi=1100):
    """lengths 0..hi: all of them in the thorough tier; in the quick tier the neighbourhood of every special value"""
    if tier != "quick":
        return list(range(0, hi + 1)) + [2048, 4096]
    s = {0, 1, 2, 3, hi, 2048}
    for v in list(special) + [1024]:
        s.update(range(max(0, v - 2), v + 3))
    s.update(rnd.sample(range(0, hi), 12))
    return sorted(s)


def i2b(i, l=None):
    return i.to_bytes(l if l is not None else max(1, (i.bit_length() + 7) // 8), "big")


def ec_jwk(crv, x, y, d=None, xl=None, yl=None, dl=None):
    sz = pyec.CURVES.get(crv, {"size": 32})["size"]
    k = {"kty": "EC", "crv": crv, "x": G.b64(i2b(x, xl if xl is not None else max(sz, (x.bit_length() + 7) // 8))),
         "y": G.b64(i2b(y, yl if yl is not None else max(sz, (y.bit_length() + 7) // 8)))}
    if d is not None:
        k["d"] = G.b64(i2b(d, dl if dl is not None else max(sz, (d.bit_length() + 7) // 8)))
    return k


def py_ec_valid(k):
    """independent validity judgement: named curve, field elements on the curve, d in [1,n) with dG=(x,y)"""
    try:
        c = pyec.CURVES.get(k.get("crv"))
        if c is None or k.get("kty") != "EC":
            return False
        # EC_POINT_set_affine_coordinates reduces the coordinates modulo p: the point that is used is the reduced one
        x = int.from_bytes(G.unb64(k["x"]), "big") % c["p"]
        y = int.from_bytes(G.unb64(k["y"]), "big") % c["p"]
        if not pyec.on_curve(c, x, y):
            return False
        if "d" in k:
            d = int.from_bytes(G.unb64(k["d"]), "big")
            if not (1 <= d < c["n"]):
                return False
            if pyec.mul(c, d, pyec.base(c)) != (x, y):
                return False
        return True
    except Exception:
        return False


def py_ec_point(k):
    try:
        c = pyec.CURVES[k["crv"]]
        return (int.from_bytes(G.unb64(k["x"]), "big") % c["p"], int.from_bytes(G.unb64(k["y"]), "big") % c["p"])
    except Exception:
        return None


def ec_variants(rnd, crv, tier):
    """(tag, private-form jwk) variants around a true key; the public form is obtained with G.pub_of"""
    c = pyec.CURVES[crv]
    d = rnd.randrange(1, c["n"])
    x, y = pyec.mul(c, d, pyec.base(c))
    sz = c["size"]
    out = [("valid", ec_jwk(crv, x, y, d))]
    out.append(("y+1 off-curve", ec_jwk(crv, x, (y + 1) % c["p"], d)))
    out.append(("x+1 off-curve", ec_jwk(crv, (x + 1) % c["p"], y, d)))
    out.append(("x,y swapped", ec_jwk(crv, y, x, d)))
    out.append(("-y (other point, d mismatch)", ec_jwk(crv, x, c["p"] - y, d)))
    out.append(("x+p (same point after reduction mod p)", ec_jwk(crv, x + c["p"], y, d)))
    out.append(("y+p (same point after reduction mod p)", ec_jwk(crv, x, y + c["p"], d)))
    out.append(("x=0,y=0", ec_jwk(crv, 0, 0, d)))
    out.append(("leading zero octets (same numbers, wider)", ec_jwk(crv, x, y, d, xl=sz + 1, yl=sz + 2, dl=sz + 1)))
    out.append(("d+1", ec_jwk(crv, x, y, (d + 1) % c["n"] or 1)))
    out.append(("d=0", ec_jwk(crv, x, y, 0)))
    out.append(("d=n", ec_jwk(crv, x, y, c["n"])))
    out.append(("d+n (congruent, out of range)", ec_jwk(crv, x, y, d + c["n"])))
    for other in pyec.CURVES:
        if other != crv and (tier != "quick" or pyec.CURVES[other]["size"] == sz or rnd.random() < 0.4):
            out.append(("point of %s under this curve's name" % other, dict(ec_jwk(other, *pyec.mul(pyec.CURVES[other], 7 + len(out), pyec.base(pyec.CURVES[other])), 7 + len(out)), crv=crv)))
    k = ec_jwk(crv, x, y, d)
    for bad in ("P-224", "P-256K", "p-256", ""):
        out.append(("unknown curve name %r" % bad, dict(k, crv=bad)))
    kk = dict(k)
    kk.pop("crv")
    out.append(("no crv", kk))
    out.append(("x empty", dict(k, x="")))
    out.append(("y not a string", dict(k, y=5)))
    out.append(("x not base64url", dict(k, x=k["x"][:-1] + "*")))
    if tier != "quick":
        for _ in range(6):
            rx, ry = rnd.randrange(c["p"]), rnd.randrange(c["p"])
            out.append(("random pair (off-curve)", ec_jwk(crv, rx, ry, d)))
        # a point on the curve that is not d G
        d2 = rnd.randrange(1, c["n"])
        out.append(("another point on the curve, d kept", ec_jwk(crv, *pyec.mul(c, d2, pyec.base(c)), d)))
    return (d, (x, y)), out


def correspond(ctx):
    rep = ctx["rep"]
    rnd = random.Random(ctx["seed"])
    bdir = ctx["bdir"]
    tier = ctx["tier"]
    dist = collections.Counter()
    expected = {}
    cases = []

    def add(c, want, what):
        cases.append(c)
        expected[c] = (want, what)
        dist[what.split(":")[0]] += 1

    # ---- A/B: HMAC, producing and consuming side
    for alg, (hn, hl) in HS.items():
        for n in length_grid(tier, rnd, [32, 48, 64]):
            kb = rb(rnd, n)
            good = hl <= n <= 1024
            add("keyok\tsign\t%s\t%s" % (alg, G.dumps(okey(kb))), "A" if good else "R", "HMAC sign: key of %d octets" % n if False else "HMAC sign")
            prot = G.b64(G.dumps({"alg": alg}).encode())
            pay = G.b64(b"c10")
            mac = pyhmac.new(kb, (prot + "." + pay).encode(), hn).digest()
            tok = {"protected": prot, "payload": pay, "signature": G.b64(mac)}
            add("jwsver\t%s\t-\t%s\t0" % (G.dumps(tok), G.dumps(okey(kb))), "T" if good else "F", "HMAC verify (MAC computed with the offered key)")
            if n in (31, 47, 63) or (tier != "quick" and n < 64):
                # a MAC computed with the key zero-padded to the hash size (what a padding implementation would accept)
                pk = kb + b"\0" * (hl - n) if n < hl else kb
                mac2 = pyhmac.new(pk, (prot + "." + pay).encode(), hn).digest()
                tok2 = {"protected": prot, "payload": pay, "signature": G.b64(mac2)}
                add("jwsver\t%s\t-\t%s\t0" % (G.dumps(tok2), G.dumps(okey(kb))), "T" if good else "F", "HMAC verify (MAC computed with the padded key)")
    # malformed symmetric keys
    for alg in HS:
        for what, k in (("k not a string", {"kty": "oct", "k": 5}), ("k missing", {"kty": "oct"}), ("k not base64url", {"kty": "oct", "k": "A" * 43 + "*"}),
                        ("k with padding", {"kty": "oct", "k": G.b64(b"x" * 64) + "="}), ("k null", {"kty": "oct", "k": None})):
            add("keyok\tsign\t%s\t%s" % (alg, G.dumps(k)), "R", "HMAC sign: malformed k")

    # ---- C/D: content encryption keys
    tokens_req, tokens_meta = [], []
    for enc, L in G.ENC_KEYLEN.items():
        for n in length_grid(tier, rnd, [16, 24, 32, 48, 64], hi=80 if tier == "quick" else 140) + [1024, 1025]:
            add("keyok\tenc\t%s\t%s" % (enc, G.dumps(okey(rb(rnd, n)))), "A" if n == L else "R", "content encryption: CEK length grid")
        K = rb(rnd, L)
        tokens_req.append("jweenc\t%s\t-\t%s\t%s" % (G.dumps({"protected": {"alg": "dir", "enc": enc}}), G.dumps(okey(K)), b"c10 plaintext".hex()))
        tokens_meta.append(("dir", enc, K, L))
    # ---- E/F: key wrapping keys
    for wrap, L in G.KW_LEN.items():
        for n in length_grid(tier, rnd, [16, 24, 32], hi=48 if tier == "quick" else 80) + [1024, 1025]:
            add("keyok\twrap\t%s\t%s" % (wrap, G.dumps(okey(rb(rnd, n)))), "A" if n == L else "R", "key wrap: KEK length grid")
        K = rb(rnd, L)
        tokens_req.append("jweenc\t%s\t-\t%s\t%s" % (G.dumps({"protected": {"alg": wrap, "enc": "A128GCM"}}), G.dumps(okey(K)), b"c10 plaintext".hex()))
        tokens_meta.append((wrap, "A128GCM", K, L))
    for wrap in G.PBES2:
        for n in (0, 1, 8, 1023, 1024, 1025, 2048) + ((4096,) if tier != "quick" else ()):
            # password octets
            add("keyok\twrap\t%s\t%s" % (wrap, G.dumps(okey(rb(rnd, n)))), None if n <= 1024 else "R", "PBES2 wrap: password length")
    touts = G.harness(bdir, tokens_req)
    for r, o, (wrap, enc, K, L) in zip(tokens_req, touts, tokens_meta):
        if o == "ERR" or o.startswith("CRASH"):
            rep.violation("enc-failed:%s:%s" % (wrap, enc), "jose_jwe_enc failed with a key of exactly the required length: %s" % o, {"case": r})
            continue
        tok = json.loads(o)
        cmd = "jwedec" if wrap == "dir" else "jweunw"
        add("%s\t%s\t-\t%s" % (cmd, G.dumps(tok), G.dumps(okey(K))), "OK", "consume: the exact key (control)")
        ns = sorted(set(range(max(0, L - 3), L)) | {0, 1, L // 2}) if tier == "quick" else list(range(0, L))
        for n in ns:
            add("%s\t%s\t-\t%s" % (cmd, G.dumps(tok), G.dumps(okey(K[:n]))), "ERR", "consume: truncated key")
        for n in ([L + 1, L + 8, 2 * L, 1024, 1025] if tier == "quick" else list(range(L + 1, L + 40)) + [1024, 1025, 4096]):
            for pad in (b"\0", None):
                kk = K + (pad * (n - L) if pad else rb(rnd, n - L))
                add("%s\t%s\t-\t%s" % (cmd, G.dumps(tok), G.dumps(okey(kk))), "ERR", "consume: the key followed by extra octets")
                kk2 = (pad * (n - L) if pad else rb(rnd, n - L)) + K
                add("%s\t%s\t-\t%s" % (cmd, G.dumps(tok), G.dumps(okey(kk2))), "ERR", "consume: the key preceded by extra octets")

    def oracle(case, out):
        if out.startswith("CRASH"):
            return ("crash:" + case.split("\t")[0] + ":" + case.split("\t")[1][:12], "crash or sanitizer report: " + out[:300])
        want, what = expected.get(case, (None, ""))
        if want is None:
            return None
        f = case.split("\t")
        got = out
        if want == "OK":
            if out == "ERR":
                return ("consume-exact-key-refused:" + f[0], "%s refuses the exact key" % f[0])
            return None
        if want == "ERR":
            if out != "ERR":
                return ("weak-key-accepted:%s" % f[0], "%s: %s -- the operation succeeded (%s)" % (f[0], what, out[:80]))
            return None
        if got != want:
            if want in ("R", "F"):
                return ("weak-key-accepted:%s:%s" % (f[0], f[2] if f[0] == "keyok" else ""), "%s (%s): a key outside the RFC 7518 / supported range is accepted" % (what, "\t".join(f[:3])[:80]))
            return ("valid-key-refused:%s:%s" % (f[0], f[2] if f[0] == "keyok" else ""), "%s (%s): a valid key is refused" % (what, "\t".join(f[:3])[:80]))
        return None

    def normalize(case, out):
        f = case.split("\t")
        if f[0] in ("jwedec", "jweunw"):
            return "ERR" if out == "ERR" else ("CRASH" if out.startswith("CRASH") else "OK")
        return out

    def on_disagree(case, impl, model):
        f = case.split("\t")
        return ("key-test-differs:%s:%s" % (f[0], f[1] if f[0] == "keyok" else ""),
                "implementation and model disagree on a key-material decision: implementation %s, model %s" % (impl[:40], model[:40]))

    st = runner.standard(ctx, cases, oracle, lambda c, o: True, on_disagree=on_disagree, normalize=normalize,
                         rule="symmetric: HMAC keys of every length 0..1100 (+2048, 4096) offered to signing and to verification of a MAC computed with that very key (and with the key padded to the hash size); content keys and key-wrapping keys of every length around the exact one offered to encryption / wrapping; tokens produced with the exact key consumed with every truncation and with the key followed / preceded by extra octets (zero or random); PBES2 passwords up to 4 KiB; malformed k. Quick tier: neighbourhoods of every boundary plus a random sample",
                         dist=dist)

    # a key-wrapping key that DECLARES a content algorithm of another size (a former "dir" key): the A*GCMKW cipher is the one
    # the header names, so a key of the wrong length is refused whatever its own "alg" says (implementation only)
    gk = []
    for walg, need in (("A128GCMKW", 16), ("A192GCMKW", 24), ("A256GCMKW", 32)):
        for kalg, kl in (("A128GCM", 16), ("A192GCM", 24), ("A256GCM", 32)):
            if kl == need:
                continue
            for enc_ in ("A128GCM", kalg):
                gk.append(("jweenc\t%s\t-\t%s\t00" % (G.dumps({"protected": {"alg": walg, "enc": enc_}}), G.dumps(okey(rb(rnd, kl), alg=kalg))), "%s with a %d-octet key declaring %s (enc %s) [wrap]" % (walg, kl, kalg, enc_)))
        made = G.harness(bdir, ["jweenc\t%s\t-\t%s\t00" % (G.dumps({"protected": {"alg": walg, "enc": "A256GCM" if need != 32 else "A128GCM"}}), G.dumps(okey(rb(rnd, need))))])[0]
        if made.startswith("{"):
            other = 32 if need != 32 else 16
            gk.append(("jweunw\t%s\t-\t%s" % (made, G.dumps(okey(rb(rnd, other), alg="A256GCM" if other == 32 else "A128GCM"))), "%s token, %d-octet key declaring the token's enc [unwrap]" % (walg, other)))
    for (c_, what_), o in zip(gk, G.harness(bdir, [x[0] for x in gk])):
        if o.startswith("CRASH"):
            rep.violation("crash:gcmkw-key-alg", "crash: " + o[:200], {"case": c_[:2000]})
        elif o != "ERR":
            rep.violation("weak-key-accepted:gcmkw:key-declares-another-size", "%s: the operation succeeded with a key of the wrong length" % what_, {"case": c_[:2000], "implementation": o[:200]})
    st["evaluations"] += len(gk)
    dist["A*GCMKW with keys of another length that declare a content algorithm"] = len(gk)

    # ------------------------------------------------------------------ public-key material
    pk = []     # (harness case, model op, model alg, key json text, expected verdict token, python judgement, what)
    rsa = json.load(open(os.path.join(os.path.dirname(__file__), "..", "data", "rsa_small.json")))
    bits_list = sorted(int(b) for b in rsa)
    if tier == "quick":
        bits_list = [b for b in bits_list if b in (512, 1024, 2040, 2047, 2048) or rnd.random() < 0.15]
    for bits in bits_list:
        k = rsa[str(bits)]
        good = (bits + 7) // 8 >= 256
        key = {m: pyec_int(k[m]) for m in ("n", "d")}
        for alg, hn in (("RS256", "sha256"), ("PS384", None), ("RS512", "sha512")):
            if tier == "quick" and alg != "RS256" and bits not in (2040, 2048):
                continue
            pk.append(("keyok\tsign\t%s\t%s" % (alg, G.dumps(k)), "sign", alg, k, "A" if good else "R", "RSA sign: modulus of %d bits" % bits))
            if hn:
                prot = G.b64(G.dumps({"alg": alg}).encode())
                pay = G.b64(b"c10")
                sg = pyec.rsa_pkcs1_sign(key, hn, (prot + "." + pay).encode())
                if sg is None:
                    continue
                tok = {"protected": prot, "payload": pay, "signature": G.b64(sg)}
                pk.append(("jwsver\t%s\t-\t%s\t0" % (G.dumps(tok), G.dumps(G.pub_of(k))), "verify", alg, G.pub_of(k), "A" if good else "R",
                           "RSA verify (valid PKCS#1 v1.5 signature under the offered key): modulus of %d bits" % bits))
    # non-canonical encodings of a SMALL modulus: n left-padded with zero octets to 256 / 257 / 300 octets
    # (the size that counts is that of the number, not of its text)
    for bits in (1024, 2040):
        k = rsa[str(bits)]
        key = {m: pyec_int(k[m]) for m in ("n", "d")}
        nb = G.unb64(k["n"])
        for total in (256, 257, 300):
            kp = dict(k, n=G.b64(b"\0" * (total - len(nb)) + nb))
            for alg, hn in (("RS256", "sha256"), ("PS256", None)):
                pk.append(("keyok\tsign\t%s\t%s" % (alg, G.dumps(kp)), "sign", alg, kp, "R", "RSA sign: modulus of %d bits, n zero-padded to %d octets" % (bits, total)))
                if hn:
                    prot = G.b64(G.dumps({"alg": alg}).encode())
                    pay = G.b64(b"c10")
                    sg = pyec.rsa_pkcs1_sign(key, hn, (prot + "." + pay).encode())
                    tok = {"protected": prot, "payload": pay, "signature": G.b64(sg)}
                    pk.append(("jwsver\t%s\t-\t%s\t0" % (G.dumps(tok), G.dumps(G.pub_of(kp))), "verify", alg, G.pub_of(kp), "R",
                               "RSA verify (valid signature under the offered key): modulus of %d bits, n zero-padded to %d octets" % (bits, total)))
    # EC
    unw_req, unw_meta = [], []
    for crv in pyec.CURVES:
        (d, Q), variants = ec_variants(rnd, crv, tier)
        c = pyec.CURVES[crv]
        alg, hn = ES[crv]
        true_prv = variants[0][1]
        prot = G.b64(G.dumps({"alg": alg}).encode())
        pay = G.b64(b"c10")
        digest = hashlib.new(hn, (prot + "." + pay).encode()).digest()
        sg = pyec.ecdsa_sign(c, d, digest, rnd.randrange(1, c["n"]))
        tok = {"protected": prot, "payload": pay, "signature": G.b64(sg)}
        other_d = rnd.randrange(1, c["n"])
        other = ec_jwk(crv, *pyec.mul(c, other_d, pyec.base(c)), other_d)
        if crv != "secp256k1":
            unw_req.append("jweenc\t%s\t-\t%s\t%s" % (G.dumps({"protected": {"alg": "ECDH-ES+A128KW", "enc": "A128GCM"}}), G.dumps(G.pub_of(true_prv)), b"c10".hex()))
            unw_meta.append((crv, variants))
        for tag, k in variants:
            v = py_ec_valid(k)
            vp = py_ec_valid(G.pub_of(k))
            same = py_ec_point(k) == Q      # a valid key for ANOTHER point legitimately fails to verify / unwrap
            what = "EC %s: %s" % (crv, tag)
            pk.append(("keyok\tsign\t%s\t%s" % (alg, G.dumps(k)), "sign", alg, k, "A" if v else "R", what + " [sign]"))
            if same or not vp:
                pk.append(("jwsver\t%s\t-\t%s\t0" % (G.dumps(tok), G.dumps(G.pub_of(k))), "verify", alg, G.pub_of(k), "A" if vp else "R", what + " [verify, public form]"))
            if "d" in k and not tag.startswith("valid") and ("d" in tag) and (same or not v):
                pk.append(("jwsver\t%s\t-\t%s\t0" % (G.dumps(tok), G.dumps(k)), "verify", alg, k, "A" if v else "R", what + " [verify, private form]"))
            if crv != "secp256k1":
                pk.append(("keyok\twrap\tECDH-ES\t%s" % G.dumps(G.pub_of(k)), "wrap", "ECDH-ES", G.pub_of(k), "A" if vp else "R", what + " [ECDH-ES wrap to this public key]"))
            # exchange, both positions (the exchange algorithms support the NIST curves only)
            if crv == "secp256k1":
                continue
            pk.append(("exc\t%s\t%s" % (G.dumps(k), G.dumps(G.pub_of(other))), "unwrap", "ECDH-ES", k, "A" if v else "R", what + " [exchange, local]"))
            pk.append(("exc\t%s\t%s" % (G.dumps(other), G.dumps(G.pub_of(k))), "wrap", "ECDH-ES", G.pub_of(k), "A" if vp else "R", what + " [exchange, remote]"))
    uouts = G.harness(bdir, unw_req)
    for r, o, (crv, variants) in zip(unw_req, uouts, unw_meta):
        if o == "ERR" or o.startswith("CRASH"):
            rep.violation("enc-failed:ECDH-ES:" + crv, "jose_jwe_enc to a valid EC public key failed: " + o[:200], {"case": r})
            continue
        for tag, k in variants:
            if py_ec_valid(k) and py_ec_point(k) != py_ec_point(variants[0][1]):
                continue
            pk.append(("jweunw\t%s\t-\t%s" % (o, G.dumps(k)), "unwrap", "ECDH-ES+A128KW", k, "A" if py_ec_valid(k) else "R", "EC %s: %s [ECDH-ES unwrap with this private key]" % (crv, tag)))

    # ECDH-ES DIRECT agreement (no wrapped key whose integrity check would hide a wrong derivation): unwrapping (a) with
    # every private-key variant and (b) with the true private key after the token's epk was replaced by the public form of
    # every variant -- invalid material on either side must make jose_jwe_dec_jwk fail (python judgement; implementation only)
    dreq, dmeta = [], []
    for crv in pyec.CURVES:
        if crv == "secp256k1":
            continue
        dreq.append("jweenc\t%s\t-\t%s\t%s" % (G.dumps({"protected": {"enc": "A128GCM"}, "unprotected": {"alg": "ECDH-ES"}}), G.dumps(G.pub_of([v for c_, v in unw_meta if c_ == crv][0][0][1])), b"c10".hex()))
        dmeta.append(crv)
    extra, emeta = [], []
    for r, o, crv in zip(dreq, G.harness(bdir, dreq), dmeta):
        if o == "ERR" or o.startswith("CRASH"):
            rep.violation("enc-failed:ECDH-ES-direct:" + crv, "jose_jwe_enc (direct agreement) to a valid EC public key failed: " + o[:200], {"case": r})
            continue
        variants = [v for c_, v in unw_meta if c_ == crv][0]
        true_prv = variants[0][1]
        tok = json.loads(o)
        for tag, k in variants:
            if not (py_ec_valid(k) and py_ec_point(k) != py_ec_point(true_prv)):
                extra.append("jweunw\t%s\t-\t%s" % (o, G.dumps(k)))
                emeta.append(("A" if py_ec_valid(k) else "R", "EC %s: %s [ECDH-ES direct: unwrap with this private key]" % (crv, tag)))
            pubk = G.pub_of(k)
            if not isinstance(pubk, dict) or "d" in pubk:
                continue
            t2 = json.loads(o)
            hdr = t2.get("unprotected") if "epk" in (t2.get("unprotected") or {}) else t2.setdefault("header", {})
            hdr["epk"] = {m: v for m, v in pubk.items() if m in ("kty", "crv", "x", "y")}
            extra.append("jweunw\t%s\t-\t%s" % (G.dumps(t2), G.dumps(true_prv)))
            emeta.append(("A" if py_ec_valid(pubk) else "R", "EC %s: %s [ECDH-ES direct: epk replaced by this public key]" % (crv, tag)))
    for c_, o, (want, what) in zip(extra, G.harness(bdir, extra), emeta):
        got = "CRASH" if o.startswith("CRASH") else ("R" if o == "ERR" else "A")
        dist["public-key: " + what.split("[")[-1].rstrip("]")] += 1
        if got == "CRASH":
            rep.violation("crash:pk:jweunw", "crash or sanitizer report on invalid key material (%s): %s" % (what, o[:300]), {"case": c_[:3000]})
        elif got != want and want == "R":
            rep.violation("invalid-key-accepted:ECDH-ES:%s" % what.split("[")[-1].rstrip("]"), "%s: a content key is derived from invalid key material" % what, {"case": c_[:3000], "implementation": o[:200]})
        elif got != want:
            rep.violation("valid-key-refused:ECDH-ES:%s" % what.split("[")[-1].rstrip("]"), "%s: valid material is refused" % what, {"case": c_[:3000], "implementation": o[:200]})
    st["evaluations"] += len(extra)

    pcases = [p[0] for p in pk]
    impl = G.harness(bdir, pcases)

    def verdict(case, out):
        f = case.split("\t")
        if out.startswith("CRASH"):
            return "CRASH"
        if f[0] == "keyok":
            return out
        if f[0] == "jwsver":
            return {"T": "A", "F": "R"}.get(out, out)
        return "R" if out == "ERR" else "A"

    # the model over BigZ, sharded coqc runs
    shards = 12
    lines = [[] for _ in range(shards)]
    for i, p in enumerate(pk):
        op = {"sign": "KSignOp", "verify": "KVerifyOp", "wrap": "KWrapOp", "unwrap": "KUnwrapOp"}[p[1]]
        lines[i % shards].append("  keyok_pk_text %s %s %s" % (op, G.coq_bytes(p[2].encode()), G.coq_bytes(G.dumps(p[3]).encode())))

    def run_shard(s):
        if not lines[s]:
            return []
        body = ("From JoseV Require Import Jwk.KeyCheckPk.\nFrom Coq Require Import List NArith. Import ListNotations. Local Open Scope N_scope.\n"
                "Definition results : list (option bool) := [\n" + ";\n".join(lines[s]) + "\n].\nEval vm_compute in results.\n")
        rc, out = G.run_coq_cases("c10_%d" % s, body, timeout=1500)
        res = G.parse_bool_list(out) if rc == 0 else None
        if res is None or len(res) != len(lines[s]):
            return (out or "")[-400:]
        return res

    with concurrent.futures.ThreadPoolExecutor(shards) as ex:
        shard_res = list(ex.map(run_shard, range(shards)))
    model = [None] * len(pk)
    broken = None
    for s, res in enumerate(shard_res):
        if isinstance(res, str):
            broken = res
            continue
        for j, r in enumerate(res):
            model[s + j * shards] = r
    if broken is not None:
        rep.violation("pk-model-run", "the BigZ model run failed: %s" % broken, {"broken": "coqc cases for C10 (Jwk/KeyCheckPk.v)"}, found=False)
    ndis = 0
    for p, o, m in zip(pk, impl, model):
        case, _, alg, key, want, what = p
        got = verdict(case, o)
        dist["public-key: " + what.split("[")[-1].rstrip("]") if "[" in what else "public-key: RSA"] += 1
        if got == "CRASH":
            rep.violation("crash:pk:" + case.split("\t")[0], "crash or sanitizer report on an invalid key (%s): %s" % (what, o[:300]), {"case": case})
            continue
        if got != want:
            if want == "R":
                rep.violation("invalid-key-accepted:%s:%s" % (alg, what.split("[")[-1].rstrip("]")), "%s: the operation succeeded with invalid key material" % what, {"case": case, "implementation": o[:300]})
            else:
                rep.violation("valid-key-refused:%s:%s" % (alg, what.split("[")[-1].rstrip("]")), "%s: a valid key is refused" % what, {"case": case, "implementation": o[:300]})
        if broken is None and m is not None:
            mv = "A" if m is True else "R"
            if mv != got:
                ndis += 1
                st.setdefault("first_disagreements", []).append({"case": case[:300], "implementation": got, "model": mv})
                rep.violation("key-test-differs:pk:%s" % alg, "%s: implementation %s, model %s" % (what, got, mv), {"case": case, "implementation": o[:200], "model": mv})
    st["evaluations"] += len(pk)
    st["distinct_nontrivial"] += len(set(pcases))
    st["disagreements"] += ndis
    return st


def pyec_int(s):
    return int.from_bytes(G.unb64(s), "big")
