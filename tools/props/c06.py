"""C06 private key material never leaves: public export and produced objects."""
import collections
import itertools
import json
import random

import runner

PID = "C06"
PROP_FILE = "Props/Properties_C06.v"
LEVEL = "proof"
ASSUMPTIONS = [
    "C06: export theorems are about objects without duplicate member names; JSON as immutable trees",
    "C06: 'no produced JWS/JWE/exchange result contains a private member, the content key or a password' is checked on the implementation by scanning, at every depth and inside encoded headers, every object produced in this run for all signature and key-management algorithms (function products); that a ciphertext does not reveal a key is cryptography and not claimed",
]

PRIV = {"oct": ["k"], "RSA": ["d", "p", "q", "dp", "dq", "qi", "oth"], "EC": ["d"]}
PUBM = {"oct": [], "RSA": ["n", "e"], "EC": ["crv", "x", "y"]}
OPS = ["sign", "verify", "encrypt", "decrypt", "wrapKey", "unwrapKey", "deriveKey", "deriveBits"]
PRIVOPS = ["sign", "decrypt", "unwrapKey"]


def dumps(v):
    return json.dumps(v, separators=(",", ":"), sort_keys=True)


def case_variants(k):
    return sorted({k, k.lower(), k.upper(), k[0].lower() + k[1:].upper() if len(k) > 1 else k})


def gen(tier, seed):
    rnd = random.Random(seed)
    cases = []
    dist = collections.Counter()
    keys = []
    for kty in ("oct", "RSA", "EC"):
        members = PRIV[kty] + PUBM[kty]
        # all presence subsets of private members (all of them), public members all present or one missing
        for bits in range(1 << len(PRIV[kty])):
            for extra in ({}, {"kid": "k1", "x5c": ["a"], "use": "sig"}, {"alg": "RS256", "K": "upper", "D": "upper"}):
                for ko in (None, OPS, ["sign", 5, "verify", None, "decrypt"], "sign", [["sign"]], ["unwrapKey", "unwrapKey", "wrapKey"]):
                    if bits % 3 != 0 and ko not in (None, OPS):
                        continue
                    for ktyv in case_variants(kty):
                        j = {"kty": ktyv}
                        for i, m in enumerate(PRIV[kty]):
                            if bits >> i & 1:
                                j[m] = "cHJpdg" if m != "oth" else [{"r": "x", "d": "y", "t": "z"}]
                        for m in PUBM[kty]:
                            j[m] = "cHVi" if m != "crv" else "P-256"
                        j.update(extra)
                        if ko is not None:
                            j["key_ops"] = ko
                        keys.append(j)
    rnd.shuffle(keys)
    keys = keys if tier == "thorough" else keys[:2500]
    for j in keys:
        cases.append("pub\t%s" % dumps(j))
        dist["single keys: member subsets x extras x key_ops x kty case"] += 1
    # containers
    for n in (0, 1, 2, 5, 20):
        for _ in range(6):
            l = [rnd.choice(keys) for _ in range(n)]
            cases.append("pub\t%s" % dumps(l))
            cases.append("pub\t%s" % dumps({"keys": l, "other": 1}))
            dist["arrays and JWKSets"] += 2
    # failing / odd inputs
    odd = [{}, {"kty": "unknown", "d": "x"}, {"kty": 5}, {"kty": None, "k": "x"}, [], [[]], [5], {"keys": [{"kty": "oct", "k": "a"}, 5]},
           {"keys": {"kty": "oct"}}, {"keys": "x", "kty": "oct", "k": "s"}, "str", 5, None, {"kty": "oct\u0000x", "k": "a"}, {"kty": "OCT ", "k": "a"},
           [{"kty": "EC", "d": "x"}, {"kty": "nope"}], {"keys": [], "kty": "oct", "k": "top"}, {"keys": [{"keys": [{"kty": "oct", "k": "deep"}]}]}]
    for j in odd:
        cases.append("pub\t%s" % dumps(j))
        dist["odd inputs"] += 1
    return cases, dict(dist)


def key_problem(before, after):
    """checks one exported key (python, independent of jose)"""
    if not isinstance(after, dict):
        return "exported key is not an object"
    kty = after.get("kty")
    if not isinstance(kty, str):
        return None
    canon = {"oct": "oct", "rsa": "RSA", "ec": "EC"}.get(kty.split("\0")[0].lower())
    if canon is None:
        return None
    for m in PRIV[canon]:
        if m in after:
            return "private member '%s' survives the export of a %s key" % (m, canon)
    for k, v in before.items():
        if k in PRIV[canon] or k == "key_ops":
            continue
        if after.get(k, "\0missing") != v:
            return "member '%s' changed by the export" % k
    for k in after:
        if k not in before:
            return "member '%s' appeared in the export" % k
    ko = after.get("key_ops")
    if isinstance(ko, list):
        bad = OPS if canon == "oct" else PRIVOPS
        for v in ko:
            if isinstance(v, str) and v.split("\0")[0] in bad:
                return "key_ops still lists '%s' after export of a %s key" % (v, canon)
        bko = before.get("key_ops")
        want = [v for v in bko if not (isinstance(v, str) and v.split("\0")[0] in bad)]
        if ko != want:
            return "key_ops lost or reordered entries it should keep"
    return None


def oracle(case, out):
    if out.startswith("CRASH"):
        return ("crash:" + out[:80], "crash or sanitizer report: " + out)
    if out == "ERR":
        return None
    j = json.loads(case.split("\t")[1])
    r = json.loads(out)
    pairs = []
    if isinstance(j, list):
        if not isinstance(r, list) or len(r) != len(j):
            return ("pub-shape", "array export changed the number of keys")
        pairs = list(zip(j, r))
    elif isinstance(j, dict) and isinstance(j.get("keys"), list):
        if not isinstance(r, dict) or not isinstance(r.get("keys"), list) or len(r["keys"]) != len(j["keys"]):
            return ("pub-shape", "JWKSet export changed the number of keys")
        pairs = list(zip(j["keys"], r["keys"]))
    else:
        pairs = [(j, r)]
    for b, a in pairs:
        if not isinstance(b, dict):
            continue
        p = key_problem(b, a)
        if p:
            return ("pub:" + p.split("'")[0].strip()[:40], p)
    return None


def nontrivial(case, out):
    return out != "ERR" and ('"d"' in case or '"k"' in case or '"p"' in case)


PRIVATE_NAMES = {"d", "p", "q", "dp", "dq", "qi", "oth", "k"}


def scan_product(obj, secrets, path="$"):
    """every member name and string value of a produced object, at any depth, also inside base64url-encoded JSON"""
    import base64
    bad = []
    if isinstance(obj, dict):
        for k, v in obj.items():
            if k in PRIVATE_NAMES:
                bad.append("member '%s' at %s" % (k, path))
            bad += scan_product(v, secrets, path + "." + k)
    elif isinstance(obj, list):
        for i, v in enumerate(obj):
            bad += scan_product(v, secrets, "%s[%d]" % (path, i))
    elif isinstance(obj, str):
        if obj in secrets and len(obj) >= 8:
            bad.append("secret value of the key copied to %s" % path)
        if obj[:2] == "ey":
            try:
                inner = json.loads(base64.urlsafe_b64decode(obj + "=" * (-len(obj) % 4)))
                bad += scan_product(inner, secrets, path + "<decoded>")
            except Exception:
                pass
    return bad


def products(ctx, dist):
    """objects the library PRODUCES with private keys in hand: signatures, encryptions for every key-management
    algorithm (ECDH-ES ephemeral keys!), exchanges.  Returns the number of products scanned."""
    import jwsgen as G
    rep = ctx["rep"]
    bdir = ctx["bdir"]
    rnd = random.Random(ctx["seed"])
    keys = G.standard_keys(bdir)
    req, meta = [], []
    pay = {"payload": G.b64(b"c06")}
    for alg, kn in G.SIGN_KEY_FOR.items():
        k = keys.get(kn)
        if k:
            req.append("jwssig\t%s\t%s\t%s" % (G.dumps(pay), G.dumps({"protected": {"alg": alg}}), G.dumps(k)))
            meta.append(("sign " + alg, k))
    for alg, n in (("HS256", 32), ("HS384", 48), ("HS512", 64)):
        k = G.oct_key(rnd, n)
        req.append("jwssig\t%s\t%s\t%s" % (G.dumps(pay), G.dumps({"protected": {"alg": alg}}), G.dumps(k)))
        meta.append(("sign " + alg, k))
    encs = ["A128GCM", "A256CBC-HS512"]
    for wrap in G.SYM_WRAPS + G.PBES2 + G.EC_WRAPS + G.RSA_WRAPS:
        for enc in encs:
            for where in ("protected", "split", "none"):
                cands = [keys.get(c) for c in ("P-256", "P-384", "P-521")] if wrap in G.EC_WRAPS else [G.wrap_key(rnd, keys, wrap, enc)]
                for k in cands:
                    if k is None:
                        continue
                    tmpl = G.jwe_template(wrap, enc, False, None, where=where)
                    # the PRIVATE key is handed to the library on purpose: nothing of it may appear in the product
                    req.append("jweenc\t%s\t-\t%s\t%s" % (G.dumps(tmpl), G.dumps(k), b"c06".hex()))
                    meta.append(("encrypt %s/%s (%s)" % (wrap, enc, where), k))
    # key SETS (array and {"keys":[...]}) with every form of the recipient / signature template argument: nothing, one object,
    # an array with one template per key -- the secrets of EVERY key of the set are searched for in the product
    ecp, kw1, kw2 = keys.get("P-256"), G.oct_key(rnd, 16), G.oct_key(rnd, 32)
    sets = [[kw1, kw2]] + ([[ecp, kw1], [kw1, ecp, kw2]] if ecp else [])
    for ks in sets:
        for form in (ks, {"keys": ks}):
            for rcp in ("-", G.dumps({"header": {"kid": "one"}}), G.dumps([{"header": {"kid": "k%d" % i}} for i in range(len(ks))]), G.dumps([{} for _ in ks])):
                req.append("jweenc\t%s\t%s\t%s\t%s" % (G.dumps({"protected": {"enc": "A128GCM"}}), rcp, G.dumps(form), b"c06".hex()))
                meta.append(("encrypt to a key set (template argument: %s)" % ("none" if rcp == "-" else "array" if rcp.startswith("[") else "object"), {"k": None, "_all": ks}))
    hs1, hs2 = G.oct_key(rnd, 32), G.oct_key(rnd, 48)
    for form in ([hs1, hs2], {"keys": [hs1, hs2]}):
        for sg in ("-", G.dumps({"header": {"kid": "one"}}), G.dumps([{"header": {"kid": "a"}}, {"header": {"kid": "b"}}])):
            req.append("jwssig\t%s\t%s\t%s" % (G.dumps(pay), sg, G.dumps(form)))
            meta.append(("sign with a key set (template argument: %s)" % ("none" if sg == "-" else "array" if sg.startswith("[") else "object"), {"k": None, "_all": [hs1, hs2]}))
    # exchanges
    for c in ("P-256", "P-384", "P-521"):
        a = keys.get(c)
        if a:
            other = G.gen_keys(bdir, [{"kty": "EC", "crv": c, "key_ops": ["deriveKey"]}])[0]
            if other:
                req.append("exc\t%s\t%s" % (G.dumps(a), G.dumps(G.pub_of(G.strip_meta(other)))))
                meta.append(("exchange " + c, a))
                req.append("exc\t%s\t%s" % (G.dumps(a), G.dumps(G.strip_meta(other))))
                meta.append(("exchange " + c + " (remote private too)", a))
    outs = G.harness(bdir, req)
    n = 0
    for r, o, (what, k) in zip(req, outs, meta):
        if o.startswith("CRASH"):
            rep.violation("product-crash:" + what.split(" ")[0], "crash while producing: " + o[:200], {"case": r})
            continue
        if o == "ERR":
            continue
        try:
            obj = json.loads(o.split("\t")[0].replace("MUTATED ", ""))
        except Exception:
            continue
        n += 1
        dist["product: " + what.split(" ")[0]] = dist.get("product: " + what.split(" ")[0], 0) + 1
        secrets = {v for kk in (k.get("_all") or [k]) for m, v in kk.items() if m in PRIVATE_NAMES and isinstance(v, str)}
        allowed_k = what.startswith("exchange") and False
        bad = scan_product(obj, secrets)
        if bad:
            rep.violation("product-leaks-private:%s" % what.split(" (")[0], "%s: the produced object contains private material: %s" % (what, "; ".join(bad[:4])),
                          {"case": r, "implementation": o[:1500]})
    return n


def correspond(ctx):
    cases, dist = gen(ctx["tier"], ctx["seed"])
    nprod = products(ctx, dist)
    st = standard_part(ctx, cases, dist)
    st["evaluations"] += nprod
    st["distinct_nontrivial"] += nprod
    return st


def standard_part(ctx, cases, dist):
    return runner.standard(
        ctx, cases, oracle, nontrivial,
        rule="(a) every object the library PRODUCES while holding private keys -- JWS for all 13 signature algorithms, JWE for all 20 key-management algorithms x 2 content algorithms x 3 header placements (ECDH-ES direct and +KW on three curves: the ephemeral key in the header), key exchanges -- scanned at every depth, also inside encoded headers, for private member names and for copies of the key's secret values; (b) jose_jwk_pub on keys of the three types with every subset of private members present, extra members, key_ops variants (junk elements, duplicates, non-arrays), kty in four letter cases, nested in arrays and JWKSets of length 0..20, odd inputs of every JSON type; non-trivial = a private member was present and the export succeeded",
        dist=dist,
        exhaustive_subspaces=["all subsets of present private members per key type (2^1, 2^7, 2^1) x 3 extra-member sets x 4 kty spellings (thorough tier: all of them; quick: 2500 sampled)"])
