"""C06 private key material never leaves: public export (and, via C03/C04's runs, produced objects)."""
import collections
import itertools
import json
import random

import runner

PID = "C06"
PROP_FILE = "Props/Properties_C06.v"
LEVEL = "proof"
ASSUMPTIONS = [
    "C06: export theorems are about objects without duplicate member names; JSON as immutable trees",
    "C06: 'no produced JWS/JWE contains a private member, the content key or a password' is checked on the implementation by scanning every product of the C03/C04 correspondence runs (see those checks); that a ciphertext does not reveal a key is cryptography and not claimed",
]

PRIV = {"oct": ["k"], "RSA": ["d", "p", "q", "dp", "dq", "qi", "oth"], "EC": ["d"]}
PUBM = {"oct": [], "RSA": ["n", "e"], "EC": ["crv", "x", "y"]}
OPS = ["sign", "verify", "encrypt", "decrypt", "wrapKey", "unwrapKey", "deriveKey", "deriveBits"]
PRIVOPS = ["sign", "decrypt", "unwrapKey"]


def dumps(v):
    return json.dumps(v, separators=(",", ":"), sort_keys=True)


def case_variants(k):
    return sorted({k, k.lower(), k.upper(), k[0].lower() + k[1:].upper() if len(k) > 1 else k})


def gen(tier, seed):
    rnd = random.Random(seed)
    cases = []
    dist = collections.Counter()
    keys = []
    for kty in ("oct", "RSA", "EC"):
        members = PRIV[kty] + PUBM[kty]
        # all presence subsets of private members (all of them), public members all present or one missing
        for bits in range(1 << len(PRIV[kty])):
            for extra in ({}, {"kid": "k1", "x5c": ["a"], "use": "sig"}, {"alg": "RS256", "K": "upper", "D": "upper"}):
                for ko in (None, OPS, ["sign", 5, "verify", None, "decrypt"], "sign", [["sign"]], ["unwrapKey", "unwrapKey", "wrapKey"]):
                    if bits % 3 != 0 and ko not in (None, OPS):
                        continue
                    for ktyv in case_variants(kty):
                        j = {"kty": ktyv}
                        for i, m in enumerate(PRIV[kty]):
                            if bits >> i & 1:
                                j[m] = "cHJpdg" if m != "oth" else [{"r": "x", "d": "y", "t": "z"}]
                        for m in PUBM[kty]:
                            j[m] = "cHVi" if m != "crv" else "P-256"
                        j.update(extra)
                        if ko is not None:
                            j["key_ops"] = ko
                        keys.append(j)
    rnd.shuffle(keys)
    keys = keys if tier == "thorough" else keys[:2500]
    for j in keys:
        cases.append("pub\t%s" % dumps(j))
        dist["single keys: member subsets x extras x key_ops x kty case"] += 1
    # containers
    for n in (0, 1, 2, 5, 20):
        for _ in range(6):
            l = [rnd.choice(keys) for _ in range(n)]
            cases.append("pub\t%s" % dumps(l))
            cases.append("pub\t%s" % dumps({"keys": l, "other": 1}))
            dist["arrays and JWKSets"] += 2
    # failing / odd inputs
    odd = [{}, {"kty": "unknown", "d": "x"}, {"kty": 5}, {"kty": None, "k": "x"}, [], [[]], [5], {"keys": [{"kty": "oct", "k": "a"}, 5]},
           {"keys": {"kty": "oct"}}, {"keys": "x", "kty": "oct", "k": "s"}, "str", 5, None, {"kty": "oct\u0000x", "k": "a"}, {"kty": "OCT ", "k": "a"},
           [{"kty": "EC", "d": "x"}, {"kty": "nope"}], {"keys": [], "kty": "oct", "k": "top"}, {"keys": [{"keys": [{"kty": "oct", "k": "deep"}]}]}]
    for j in odd:
        cases.append("pub\t%s" % dumps(j))
        dist["odd inputs"] += 1
    return cases, dict(dist)


def key_problem(before, after):
    """checks one exported key (python, independent of jose)"""
    if not isinstance(after, dict):
        return "exported key is not an object"
    kty = after.get("kty")
    if not isinstance(kty, str):
        return None
    canon = {"oct": "oct", "rsa": "RSA", "ec": "EC"}.get(kty.split("\0")[0].lower())
    if canon is None:
        return None
    for m in PRIV[canon]:
        if m in after:
            return "private member '%s' survives the export of a %s key" % (m, canon)
    for k, v in before.items():
        if k in PRIV[canon] or k == "key_ops":
            continue
        if after.get(k, "\0missing") != v:
            return "member '%s' changed by the export" % k
    for k in after:
        if k not in before:
            return "member '%s' appeared in the export" % k
    ko = after.get("key_ops")
    if isinstance(ko, list):
        bad = OPS if canon == "oct" else PRIVOPS
        for v in ko:
            if isinstance(v, str) and v.split("\0")[0] in bad:
                return "key_ops still lists '%s' after export of a %s key" % (v, canon)
        bko = before.get("key_ops")
        want = [v for v in bko if not (isinstance(v, str) and v.split("\0")[0] in bad)]
        if ko != want:
            return "key_ops lost or reordered entries it should keep"
    return None


def oracle(case, out):
    if out.startswith("CRASH"):
        return ("crash:" + out[:80], "crash or sanitizer report: " + out)
    if out == "ERR":
        return None
    j = json.loads(case.split("\t")[1])
    r = json.loads(out)
    pairs = []
    if isinstance(j, list):
        if not isinstance(r, list) or len(r) != len(j):
            return ("pub-shape", "array export changed the number of keys")
        pairs = list(zip(j, r))
    elif isinstance(j, dict) and isinstance(j.get("keys"), list):
        if not isinstance(r, dict) or not isinstance(r.get("keys"), list) or len(r["keys"]) != len(j["keys"]):
            return ("pub-shape", "JWKSet export changed the number of keys")
        pairs = list(zip(j["keys"], r["keys"]))
    else:
        pairs = [(j, r)]
    for b, a in pairs:
        if not isinstance(b, dict):
            continue
        p = key_problem(b, a)
        if p:
            return ("pub:" + p.split("'")[0].strip()[:40], p)
    return None


def nontrivial(case, out):
    return out != "ERR" and ('"d"' in case or '"k"' in case or '"p"' in case)


def correspond(ctx):
    cases, dist = gen(ctx["tier"], ctx["seed"])
    return runner.standard(
        ctx, cases, oracle, nontrivial,
        rule="jose_jwk_pub on keys of the three types with every subset of private members present, extra members, key_ops variants (junk elements, duplicates, non-arrays), kty in four letter cases, nested in arrays and JWKSets of length 0..20, odd inputs of every JSON type; non-trivial = a private member was present and the export succeeded",
        dist=dist,
        exhaustive_subspaces=["all subsets of present private members per key type (2^1, 2^7, 2^1) x 3 extra-member sets x 4 kty spellings (thorough tier: all of them; quick: 2500 sampled)"])
