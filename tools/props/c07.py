"""C07 IO chains: chunking independence, failure and bound propagation."""
import collections
import itertools
import os
import random

import runner
import vlib
from props.c08 import py_enc, py_dec, hx, unhx

PID = "C07"
PROP_FILE = "Props/Properties_C07.v"
LEVEL = "proof"
ASSUMPTIONS = [
    "C07: stages backed by OpenSSL/zlib (hash, HMAC, signature, AEAD, deflate/inflate) enter the chunking theorem only through the stream law 'output depends on the concatenation of the input' (hypothesis stream_law of C07_chunking); for base64url stages, sinks and the multiplexer the law is proved",
    "C07: the model gives the semantics of a chain for a whole list of buffers at once (accepted count + verdict); its agreement with the per-call C code is what the correspondence checks",
]


def compositions(n):
    """all compositions of n (ordered partitions), 2^(n-1) of them"""
    if n == 0:
        yield []
        return
    for bits in range(1 << (n - 1)):
        parts = []
        cur = 1
        for i in range(n - 1):
            if bits >> i & 1:
                parts.append(cur)
                cur = 1
            else:
                cur += 1
        parts.append(cur)
        yield parts


def rand_chunks(rnd, n, maxparts=12):
    if n == 0:
        return rnd.choice([[], [0], [0, 0]])
    k = rnd.randint(1, min(maxparts, n))
    cuts = sorted(rnd.sample(range(1, n), k - 1)) if k > 1 else []
    parts = [b - a for a, b in zip([0] + cuts, cuts + [n])]
    # sprinkle empty feeds
    out = []
    for p in parts:
        if rnd.random() < 0.15:
            out.append(0)
        out.append(p)
    return out


SINKS = lambda n: ["malloc", "file", "buffer:%d" % n, "buffer:%d" % max(0, n - 1), "buffer:%d" % (n + 5)]


def shapes_for(rnd, kind, outlen):
    """a few chain shapes whose head is `kind`, sized around the expected output length"""
    base = []
    for s in SINKS(outlen):
        base.append("%s(%s)" % (kind, s))
    base.append("%s(plexany(malloc,buffer:%d))" % (kind, max(0, outlen - 2)))
    base.append("%s(plexall(malloc,buffer:%d))" % (kind, outlen))
    base.append("%s(plexall(malloc,buffer:%d,file))" % (kind, max(0, outlen - 1)))
    base.append("plexany(%s(malloc),%s(buffer:%d),file)" % (kind, kind, max(0, outlen - 1)))
    base.append("plexall(%s(malloc),malloc)" % kind)
    base.append("%s(plexany())" % kind)
    return base


def gen(tier, seed):
    rnd = random.Random(seed)
    cases = []
    dist = collections.Counter()

    def add(shape, chunks, data, tag):
        cases.append("chain\t%s\t%s\t%s" % (shape, ",".join(map(str, chunks)) if chunks else "-", hx(data)))
        dist[tag] += 1

    maxn = 9 if tier == "quick" else 12
    # 1. every composition of every length <= maxn, b64 stages over simple sinks
    for n in range(0, maxn + 1):
        data = bytes(rnd.getrandbits(8) for _ in range(n))
        text = py_enc(bytes(rnd.getrandbits(8) for _ in range(n)))[:n] if n else b""
        # make the text valid where possible
        valid = py_enc(bytes(rnd.getrandbits(8) for _ in range((n * 3) // 4 + 1)))
        text = valid[:n]
        if py_dec(text) is None and n >= 2:
            text = text[:-1] + b"A" if py_dec(text[:-1] + b"A") is not None else text
        for comp in compositions(n):
            add("b64enc(malloc)", comp, data, "exhaustive compositions b64enc")
            add("b64dec(malloc)", comp, text, "exhaustive compositions b64dec")
            add("plexany(b64dec(malloc),buffer:%d)" % max(0, n - 2), comp, text, "exhaustive compositions plex")
            add("plexall(b64enc(buffer:%d),malloc)" % (n + 1), comp, data, "exhaustive compositions plex")
    # 2. boundary-crossing lengths with random compositions, all shapes
    lens = [47, 48, 49, 63, 64, 65, 95, 96, 97, 127, 128, 129, 191, 192, 193]
    if tier == "thorough":
        lens += [4095, 4096, 4097, 65535, 65536, 65537]
    reps = 12 if tier == "quick" else 60
    for n in lens:
        # the extracted model needs seconds per 64 KiB input: a few repetitions only for the long lengths
        for _ in range(reps if n < 1000 else (6 if n < 10000 else 2)):
            data = bytes(rnd.getrandbits(8) for _ in range(n))
            text = py_enc(bytes(rnd.getrandbits(8) for _ in range(n)))[:n]
            m = rnd.random()
            if m < 0.25:
                t = bytearray(text)
                t[rnd.randrange(n)] = rnd.choice([61, 0, 32, 43, 47, 200])
                text = bytes(t)
            for kind, d, outlen in (("b64enc", data, (n + 2) // 3 * 4), ("b64dec", text, n * 3 // 4)):
                for shape in shapes_for(rnd, kind, outlen if kind == "b64dec" else len(py_enc(data))):
                    add(shape, rand_chunks(rnd, n, 40 if n < 1000 else 12), d, "boundary lengths random compositions")
    # 3. fault positions: every downstream call index and done, through 1-3 stages
    for n in (0, 1, 5, 50, 70, 130, 200):
        data = bytes(rnd.getrandbits(8) for _ in range(n))
        text = py_enc(data)
        for ff in list(range(-1, 8)):
            for fd in (0, 1):
                if ff == -1 and fd == 0:
                    continue
                ch = rand_chunks(rnd, n, 6)
                cht = rand_chunks(rnd, len(text), 6)
                add("faulty:%d:%d" % (ff, fd), ch, data, "fault positions")
                add("b64enc(faulty:%d:%d)" % (ff, fd), ch, data, "fault positions")
                add("b64dec(faulty:%d:%d)" % (ff, fd), cht, text, "fault positions")
                add("b64enc(b64dec(faulty:%d:%d))" % (ff, fd), ch, data, "fault positions")
                add("b64dec(b64enc(b64dec(faulty:%d:%d)))" % (ff, fd), cht, text, "fault positions")
                add("plexany(faulty:%d:%d,malloc)" % (ff, fd), ch, data, "fault positions plex")
                add("plexall(malloc,faulty:%d:%d,file)" % (ff, fd), ch, data, "fault positions plex")
                add("plexany(faulty:%d:%d,faulty:%d:%d)" % (ff, fd, ff + 1, 1 - fd), ch, data, "fault positions plex")
                add("plexany(plexall(malloc,faulty:%d:%d),b64enc(faulty:%d:0))" % (ff, fd, ff), ch, data, "fault positions nested plex")
                add("plexall(plexany(faulty:%d:%d,buffer:%d),malloc)" % (ff, fd, max(0, n - 3)), ch, data, "fault positions nested plex")
    # 3b. hash stages (emit at done): downstream capacity and faults
    for n in (0, 1, 55, 56, 64, 65, 200):
        data = bytes(rnd.getrandbits(8) for _ in range(n))
        for h, hl in (("S1", 20), ("S224", 28), ("S256", 32), ("S384", 48), ("S512", 64)):
            ch = rand_chunks(rnd, n, 6)
            for sink in ("malloc", "buffer:%d" % hl, "buffer:%d" % (hl - 1), "buffer:8", "faulty:0:0", "faulty:-1:1",
                         "b64enc(malloc)", "b64enc(buffer:%d)" % (hl + 2), "plexall(malloc,buffer:%d)" % (hl - 1)):
                add("hash:%s(%s)" % (h, sink), ch, data, "hash stages")
            add("plexany(hash:%s(buffer:3),b64enc(malloc))" % h, ch, data, "hash stages")
            add("b64dec(hash:%s(b64enc(malloc)))" % h, rand_chunks(rnd, len(py_enc(data)), 5), py_enc(data), "hash stages")
    # 4. random shapes
    def rshape(depth, n):
        r = rnd.random()
        if depth <= 0 or r < 0.3:
            return rnd.choice(["malloc", "file", "buffer:%d" % rnd.choice([0, 1, n // 2, n, n + 1, 2 * n + 3]),
                               "faulty:%d:%d" % (rnd.randint(-1, 4), rnd.random() < 0.3)])
        if r < 0.5:
            return "b64enc(%s)" % rshape(depth - 1, n * 4 // 3 + 3)
        if r < 0.7:
            return "b64dec(%s)" % rshape(depth - 1, n)
        k = rnd.randint(0, 3)
        return "%s(%s)" % (rnd.choice(["plexany", "plexall"]), ",".join(rshape(depth - 1, n) for _ in range(k)))
    nr = 3000 if tier == "quick" else 40000
    for _ in range(nr):
        n = rnd.choice([0, 1, 2, 3, 4, 5, 7, 8, 16, 47, 48, 49, 64, 100])
        if rnd.random() < 0.5:
            d = bytes(rnd.getrandbits(8) for _ in range(n))
        else:
            d = py_enc(bytes(rnd.getrandbits(8) for _ in range(n)))
        add(rshape(3, len(d)), rand_chunks(rnd, len(d), 8), d, "random shapes")
    return cases, dict(dist)


# ---- implementation-only oracle: metamorphic (chunked vs one-shot) + reference evaluation of simple shapes

def ref_eval(shape, data):
    """reference verdict/content for fault-free linear shapes: (verdict, content) or None if not simple"""
    if "faulty" in shape or "plex" in shape or "def(" in shape or "inf(" in shape:
        return None
    cur = data
    s = shape
    ok = True
    while True:
        if s.startswith("b64enc("):
            cur = py_enc(cur)
            s = s[7:-1]
        elif s.startswith("hash:"):
            import hashlib
            name, rest = s[5:].split("(", 1)
            cur = hashlib.new({"S1": "sha1", "S224": "sha224", "S256": "sha256", "S384": "sha384", "S512": "sha512"}[name], cur).digest()
            s = rest[:-1]
        elif s.startswith("b64dec("):
            d = py_dec(cur)
            if d is None:
                return (False, None)
            cur = d
            s = s[7:-1]
        else:
            break
    if s.startswith("buffer:"):
        cap = int(s[7:])
        if len(cur) > cap:
            return (False, None)
    return (True, cur)


class Oracle:
    def __init__(self):
        self.by_key = {}

    def __call__(self, case, out):
        f = case.split("\t")
        shape, chunks, data = f[1], f[2], unhx(f[3])
        if out.startswith("CRASH"):
            return ("crash:" + out[:80], "crash or sanitizer report: " + out)
        o = out.split(" ")
        if "OVERFLOW" in out:
            return ("buffer-overflow", "a fixed-size buffer sink stored more than its capacity")
        nchunks = 0 if chunks == "-" else len(chunks.split(","))
        verdict = (o[1] == "T")
        if int(o[0]) < nchunks and o[1] != "-":
            return ("protocol", "harness protocol")
        # buffer sinks never exceed capacity (content length check)
        # metamorphic: same shape + same data under another chunking must give the same verdict and,
        # when successful, the same sink contents (dropped branches may differ: only for plexany)
        key = (shape, f[3])
        if "faulty" not in shape:
            prev = self.by_key.get(key)
            if prev is None:
                self.by_key[key] = (verdict, o[2:], case)
            else:
                pv, pc, pcase = prev
                if pv != verdict:
                    return ("chunking-verdict:" + shape.split("(")[0], "verdict depends on the chunking: %s vs %s" % (pcase.split("\t")[2], chunks))
                if verdict and "plexany" not in shape and pc != o[2:]:
                    return ("chunking-content:" + shape.split("(")[0], "delivered bytes depend on the chunking: %s vs %s" % (pcase.split("\t")[2], chunks))
        v = branch_oracle(case, out)
        if v:
            return v
        r = ref_eval(shape, data)
        if r is not None:
            rv, rc = r
            if rv != verdict:
                return ("oneshot-verdict", "verdict %s differs from the one-shot reference %s" % (verdict, rv))
            if rv and len(o) > 2 and unhx(o[2]) != rc:
                return ("oneshot-content", "delivered bytes differ from the one-shot reference")
        return None


def split_top(shape):
    """plexany(a,b(c),d) -> ('plexany', ['a','b(c)','d']); None for other shapes"""
    for kind in ("plexany", "plexall"):
        if shape.startswith(kind + "(") and shape.endswith(")"):
            body = shape[len(kind) + 1:-1]
            parts, depth, cur = [], 0, ""
            for ch in body:
                if ch == "," and depth == 0:
                    parts.append(cur)
                    cur = ""
                    continue
                depth += ch == "("
                depth -= ch == ")"
                cur += ch
            if cur:
                parts.append(cur)
            return kind, parts
    return None


def nsinks(shape):
    import re
    return len(re.findall(r"malloc|buffer:\d+|file|faulty:", shape))


ALONE = {}      # (branch shape, chunks, data hex) -> result line of the branch run on its own


def branch_oracle(case, out):
    """every branch of a multiplexer that succeeds on its own must have delivered, inside the multiplexer, exactly
    what it delivers on its own (a live branch is fed everything and is finished)"""
    f = case.split("\t")
    st = split_top(f[1])
    if st is None or "faulty" in f[1] or out.startswith("CRASH"):
        return None
    kind, parts = st
    o = out.split(" ")
    # the head's verdict is the any / all composition of what each branch does on its own (same feeds)
    nchunks0 = 0 if f[2] == "-" else len(f[2].split(","))
    alone = [ALONE.get((b, f[2], f[3])) for b in parts]
    if parts and all(a is not None and not a.startswith("CRASH") for a in alone):
        oks = [(a.split(" ")[1] == "T" and int(a.split(" ")[0]) == nchunks0) for a in alone]
        want = any(oks) if kind == "plexany" else all(oks)
        got = (o[1] == "T" and int(o[0]) == nchunks0)
        if want != got:
            return ("plex-verdict:%s" % kind, "%s reports %s although its branches on their own give %s (any-mode: success iff some branch succeeds; all-mode: iff every branch does)" %
                    (f[1], "success" if got else "failure", ["ok" if x else "fail" for x in oks]))
    if o[1] != "T":
        return None
    sinks = o[2:]
    pos = 0
    for b in parts:
        n = nsinks(b)
        mine = sinks[pos:pos + n]
        pos += n
        a = ALONE.get((b, f[2], f[3]))
        if a is None or a.startswith("CRASH"):
            continue
        ao = a.split(" ")
        nchunks = 0 if f[2] == "-" else len(f[2].split(","))
        if ao[1] == "T" and int(ao[0]) == nchunks and ao[2:] != mine:
            return ("plex-branch-differs:%s:%s" % (kind, b.split("(")[0]),
                    "branch %s of %s delivered %s inside the multiplexer but %s on its own (same feeds)" % (b, f[1], " ".join(mine)[:80], " ".join(ao[2:])[:80]))
    return None


def compression_stages(ctx, dist):
    """deflate / inflate stages (zlib-backed: no Gallina counterpart, implementation only): chunking independence of
    what is delivered after inflation, exact capacity boundary of a buffer sink behind the compressor (the overflow
    happens inside done()), downstream faults reach the head"""
    import zlib
    rep = ctx["rep"]
    rnd = random.Random(ctx["seed"] + 7)
    h = os.path.join(ctx["bdir"], "h")
    datas = [b"", b"a", b"abc" * 200, bytes(rnd.getrandbits(8) for _ in range(3000)), (b"compressible " * 1600)[:20000],
             (b"the stage's own buffer holds 4096 octets; " * 120)[:4096], bytes(rnd.getrandbits(3) for _ in range(9000))]
    if ctx["tier"] != "quick":
        datas += [bytes(rnd.getrandbits(8) for _ in range(70000)), b"z" * 300000]

    def chunkings(n):
        out = ["-" if n == 0 else str(n)]
        if n > 1:
            out += [",".join(["1"] * n) if n <= 64 else ",".join(str(x) for x in rand_chunks(rnd, n, 30)), ",".join(str(x) for x in rand_chunks(rnd, n, 5)), "%d,%d" % (1, n - 1)]
        if n > 4096:
            out += ["4096,%d" % (n - 4096), "4095,%d" % (n - 4095), "100,%d" % (n - 100)]
        return out
    first = ["chain\tdef(malloc)\t%s\t%s" % (c, hx(d)) for d in datas for c in chunkings(len(d))]
    fo = vlib.run_cases(h, first)
    comp = {}
    n = len(first)
    for c, o in zip(first, fo):
        f = c.split("\t")
        d = unhx(f[3])
        oo = o.split(" ")
        if o.startswith("CRASH") or len(oo) < 3 or oo[1] != "T":
            rep.violation("deflate-stage-failed", "def(malloc) fed as %s did not succeed: %s" % (f[2], o[:80]), {"case": c[:400]})
            continue
        z = unhx(oo[2])
        try:
            ok = zlib.decompress(z, -15) == d
        except Exception:
            ok = False
        if not ok:
            rep.violation("deflate-stream-wrong", "what def(malloc) fed as %s delivers does not inflate to the input" % f[2], {"case": c[:400], "implementation": o[:200]})
        if comp.setdefault(f[3], z) != z:
            rep.violation("deflate-output-depends-on-chunking", "def(malloc) delivers other bytes (%d) for the feeds %s than for one feed of everything (%d): what goes downstream must depend on the concatenation only"
                          % (len(z), f[2][:40], len(comp[f[3]])), {"case": c[:400], "implementation": o[:200]})
    second, want = [], {}

    def add(shape, chunks, data, verdict, content=None, what=""):
        c = "chain\t%s\t%s\t%s" % (shape, chunks, hx(data))
        second.append(c)
        want[c] = (verdict, content, what)
    for d in datas:
        z = comp.get(hx(d))
        if z is None:
            continue
        L = len(z)
        for ch in chunkings(len(d))[:3]:
            add("def(buffer:%d)" % L, ch, d, "T", None, "buffer of exactly the compressed size")
            if L > 0:
                add("def(buffer:%d)" % (L - 1), ch, d, "F", None, "buffer one octet too small: the overflow happens inside done()")
                add("def(buffer:0)", ch, d, "F", None, "buffer of capacity 0")
            add("def(inf(malloc))", ch, d, "T", d, "compress then decompress")
            add("def(faulty:0:0)", ch, d, "F", None, "sink rejects the first buffer")
            add("def(faulty:-1:1)", ch, d, "F", None, "sink fails at done")
            add("def(b64enc(faulty:-1:1))", ch, d, "F", None, "sink fails at done behind another stage")
        for ch in chunkings(L)[:4]:
            add("inf(malloc)", ch, z, "T", d, "inflate, chunked")
            if len(d) > 0:
                add("inf(buffer:%d)" % (len(d) - 1), ch, z, "F", None, "inflate into a buffer one octet too small")
                add("inf(faulty:0:0)", ch, z, "F", None, "sink rejects the first buffer")
            add("inf(faulty:-1:1)", ch, z, "F", None, "sink fails at done")
    so = vlib.run_cases(h, second)
    for c, o in zip(second, so):
        verdict, content, what = want[c]
        f = c.split("\t")
        if o.startswith("CRASH"):
            rep.violation("crash:compression:" + f[1].split("(")[0], "crash: " + o[:200], {"case": c[:400]})
            continue
        oo = o.split(" ")
        nchunks = 0 if f[2] == "-" else len(f[2].split(","))
        got = "T" if (oo[1] == "T" and int(oo[0]) == nchunks) else "F"
        if got != verdict:
            rep.violation("compression-stage-verdict:%s:%s" % (f[1], "accepts" if got == "T" else "refuses"),
                          "%s (%s) fed as %s: the head reports %s, expected %s" % (f[1], what, f[2][:40], "success" if got == "T" else "failure", "success" if verdict == "T" else "failure"),
                          {"case": c[:600], "implementation": o[:200]})
        elif verdict == "T" and content is not None and (len(oo) < 3 or unhx(oo[2]) != content):
            rep.violation("compression-stage-content:" + f[1], "%s (%s) fed as %s delivers other bytes than the one-shot result" % (f[1], what, f[2][:40]), {"case": c[:600], "implementation": o[:200]})
    dist["deflate / inflate stages (implementation only)"] = n + len(second)
    return n + len(second)


def jwe_stream_producer(ctx, dist):
    """the streaming content encryptor (jose_jwe_enc_io), with and without the deflate stage in front, fed the plaintext
    in arbitrary chunks: the product decrypts (one-shot jose_jwe_dec, and the Gallina decryptor for symmetric wraps) to
    exactly the plaintext, whatever the chunking"""
    import json
    import jwsgen as G
    rep = ctx["rep"]
    rnd = random.Random(ctx["seed"] + 11)
    bdir = ctx["bdir"]
    keys = G.standard_keys(bdir)
    quick = ctx["tier"] == "quick"
    lens = [0, 1, 15, 16, 17, 31, 32, 33, 47, 48, 64, 100, 255, 256, 1000, 4095, 4096, 4097, 0, 16, 32, 48]
    wraps = ["dir", "A128KW"] + [w for w in ("ECDH-ES", "RSA-OAEP") if G.wrap_key(rnd, keys, w, "A128GCM") is not None]
    req, meta = [], []
    nper = 3 if quick else 12
    for enc in G.ENC_KEYLEN:
        for zip_ in (False, True):
            for _ in range(nper):
                wrap = rnd.choice(wraps if not quick else wraps[:2] * 3 + wraps[2:])
                key = G.wrap_key(rnd, keys, wrap, enc)
                if key is None:
                    continue
                n = rnd.choice(lens + [rnd.randrange(0, 6000)])
                pt = bytes(rnd.getrandbits(8) for _ in range(n)) if rnd.random() < 0.5 else (b"stream me " * (n // 10 + 1))[:n]
                aad = rnd.choice([None, None, "YWFk"])
                tmpl = G.jwe_template(wrap, enc, zip_, aad, where=rnd.choice(["protected", "split"]))
                forms = ["-" if n == 0 else str(n), "-"]
                if n > 1:
                    forms += [",".join(["1"] * n) if n <= 300 else ",".join(str(x) for x in rand_chunks(rnd, n, 40)),
                              ",".join(str(x) for x in rand_chunks(rnd, n, 4)), "1,%d" % (n - 1), "%d,1" % (n - 1), "0,%d,0" % n]
                    for blk in (16, 48, 64, 4096):
                        if n > blk:
                            forms.append("%d,%d" % (blk, n - blk))
                            forms.append("%d,1,%d" % (blk - 1, n - blk))
                for ch in (forms if not quick else rnd.sample(forms, min(len(forms), 4))):
                    req.append("jweencio\t%s\t-\t%s\t%s\t%s" % (G.dumps(tmpl), G.dumps(key), ch, pt.hex() or "-"))
                    meta.append((wrap, enc, zip_, key, pt, ch))
    outs = G.harness(bdir, req)
    dreq, dmeta = [], []
    for c, o, m in zip(req, outs, meta):
        wrap, enc, zip_, key, pt, ch = m
        if o.startswith("CRASH"):
            rep.violation("crash:jwe-enc-io:" + o[:60], "crash in the streaming encryptor: " + o[:200], {"case": c[:3000]})
            continue
        if o == "ERR":
            rep.violation("stream-enc:fails:%s:%s" % (enc, "zip" if zip_ else "plain"), "jose_jwe_enc_io fails for %s/%s zip=%s with %d octets fed as %s" % (wrap, enc, zip_, len(pt), ch[:40]), {"case": c[:3000]})
            continue
        dreq.append("jwedec\t%s\t-\t%s" % (o, G.dumps(key)))
        dmeta.append((c, m))
    # the decrypting stage with a FURTHER stage behind it: a base64url encoder (whose tail is flushed in done()) and a
    # sink whose done() fails -- what arrives is the encoding of the whole plaintext, and the head reports the failure
    creq, cmeta = [], []
    for d_, (c_, m_) in zip(dreq, dmeta):
        tokt = d_.split("\t")[1]
        ctl = len(json.loads(tokt).get("ciphertext", ""))
        if len(m_[4]) > 600 or m_[0] not in ("dir", "A128KW"):
            continue
        for chs in ("%d" % ctl if ctl else "-", ",".join(["1"] * ctl) if 0 < ctl <= 120 else "%d,%d" % (ctl // 3, ctl - ctl // 3)):
            for mode in ("b64", "faildone"):
                creq.append("jwedecchain\t%s\t%s\t%s\t%s" % (tokt, G.dumps(m_[3]), chs, mode))
                cmeta.append((m_, mode))
    for c_, o, (m_, mode) in zip(creq, G.harness(bdir, creq), cmeta):
        wrap, enc, zip_, key, pt, ch = m_
        if o.startswith("CRASH"):
            rep.violation("crash:jwe-dec-chain", "crash: " + o[:200], {"case": c_[:3000]})
        elif mode == "b64" and o != "T " + (hx(py_enc(pt)) or "-"):
            rep.violation("stream-dec:downstream-stage:%s" % enc, "streaming decryption (%s, %d plaintext octets%s) into a base64url encoder: %s arrives instead of the encoding of the plaintext"
                          % (enc, len(pt), ", zip" if zip_ else "", "nothing / a failure" if not o.startswith("T ") else "%d characters" % (len(o) // 2 - 1)), {"case": c_[:3000], "implementation": o[:200]})
        elif mode == "faildone" and not o.startswith("F"):
            rep.violation("stream-dec:downstream-done-lost:%s" % enc, "streaming decryption (%s, %d plaintext octets) into a sink whose done() fails: the head of the chain reports success" % (enc, len(pt)),
                          {"case": c_[:3000], "implementation": o[:100]})
    dist["streaming decryption with a stage / failing sink behind it"] = len(creq)
    douts = G.harness(bdir, dreq)
    sym = []
    for d, o, (c, m) in zip(dreq, douts, dmeta):
        wrap, enc, zip_, key, pt, ch = m
        if o != "OK " + (pt.hex() or "-"):
            rep.violation("stream-enc:product-wrong:%s:%s" % (enc, "zip" if zip_ else "plain"),
                          "the JWE made by jose_jwe_enc_io (%s/%s zip=%s, %d octets fed as %s) does not decrypt to the plaintext: %s" % (wrap, enc, zip_, len(pt), ch[:40], o[:60]),
                          {"case": c[:3000], "decrypt": d[:3000], "implementation": o[:300]})
        elif wrap in ("dir", "A128KW") and len(pt) <= 1100:
            sym.append((d, "OK " + (pt.hex() or "-"), c))
    nmodel = 0
    if ctx.get("driver") and sym:
        sym = sym if not quick else sym[:60]
        mo = vlib.run_cases(ctx["driver"], [x[0] for x in sym])
        nmodel = len(sym)
        for (d, want, c), o in zip(sym, mo):
            if o != want:
                rep.violation("stream-enc:product-not-rfc7516", "the JWE made by jose_jwe_enc_io is not decrypted to the plaintext by the independent implementation: " + o[:60],
                              {"case": c[:3000], "decrypt": d[:3000], "model": o[:300]})
    dist["streaming encryptor products (chunked plaintext, with and without zip) decrypted"] = len(req)
    dist["... of which also decrypted by the Gallina model"] = nmodel
    return len(req) + len(dreq) + nmodel + len(creq)


def after_failure(ctx, dist):
    """what a multiplexer does AFTER one of its branches has failed (the ordinary chain cases stop at the first refused
    feed): every further chunk is fed and done() is called all the same.  A multiplexer that needs all branches -- or has
    only one -- refuses everything from then on and its done() fails; one that needs any goes on with the others; the failed
    branch receives NOTHING further (its sink holds exactly what it had accepted).  Implementation only."""
    rep = ctx["rep"]
    rnd = random.Random(ctx["seed"] + 21)
    h = os.path.join(ctx["bdir"], "h")
    data = b"abcdefghijkl"
    chunkings = [[3, 2, 1, 1, 1], [6, 1, 1], [1] * 8, [4, 1, 1, 1], [2, 2, 2, 2], [5, 0, 1, 2], [12], [3, 9], [0, 5, 1]]
    sinks = ["buffer:4", "buffer:0", "faulty:1:0", "faulty:0:0", "faulty:2:0"]

    def fail_at(sink, chunks):
        """index of the feed the sink refuses (None: it refuses none), and what it holds then"""
        if sink.startswith("buffer:"):
            cap, have = int(sink.split(":")[1]), 0
            for i, c in enumerate(chunks):
                if c > cap - have:
                    return i, have
                have += c
            return None, have
        k = int(sink.split(":")[1])
        if k < len(chunks):
            return k, sum(chunks[:k])
        return None, sum(chunks)
    shapes = {"plexall(%s)": "solo", "plexany(%s)": "solo", "plexall(%s,malloc)": "all", "plexall(malloc,%s)": "all", "plexany(%s,malloc)": "any",
              "plexany(malloc,%s)": "any", "plexall(plexany(%s))": "solo", "plexany(plexall(%s),malloc)": "any", "b64enc(plexall(%s))": None}
    cases, meta = [], []
    for sh, mode in shapes.items():
        if mode is None:
            continue
        for sk in sinks:
            for ch in chunkings:
                cases.append("chainx\t%s\t%s\t%s" % (sh % sk, ",".join(map(str, ch)), hx(data[:sum(ch)])))
                meta.append((sh, mode, sk, ch))
    outs = vlib.run_cases(h, cases)
    # the same session on the per-call (small-step) model Io/Step.v: exact agreement of verdicts and sink contents
    if ctx.get("driver"):
        extra_shapes = ["plexall(plexall(buffer:2,malloc),plexany(faulty:1:0,file))", "plexany(plexall(buffer:3),plexall(faulty:0:0,malloc),file)", "plexall()", "plexany()",
                        "plexany(faulty:-1:1,buffer:2)", "plexall(malloc,faulty:-1:1)", "buffer:4", "faulty:1:1"]
        mcases = cases + ["chainx\t%s\t%s\t%s" % (sh_, ",".join(map(str, ch_)), hx(data[:sum(ch_)])) for sh_ in extra_shapes for ch_ in chunkings]
        io_ = outs + vlib.run_cases(h, mcases[len(cases):])
        for c_, oi, om in zip(mcases, io_, vlib.run_cases(ctx["driver"], mcases)):
            if oi != om:
                ctx.setdefault("step_disagreements", []).append({"case": c_, "implementation": oi[:300], "model": om[:300]})
        dist["chainx sessions also run on the per-call model Io/Step.v"] = len(mcases)
    for c, o, (sh, mode, sk, ch) in zip(cases, outs, meta):
        if o.startswith("CRASH") or o.startswith("BUILD"):
            rep.violation("after-failure:crash", "crash / build failure: " + o[:160], {"case": c})
            continue
        f = o.split(" ")
        verd, done = f[0], f[1]
        sinks_out = f[2:]
        pos = [i for i, x in enumerate(sh.replace("%s", "S").replace("malloc", "M")) if x in "SM"]
        order = [x for x in sh.replace("%s", "S").replace("malloc", "M") if x in "SM"]
        s_hex = sinks_out[order.index("S")] if len(sinks_out) == len(order) else None
        i, held = fail_at(sk, ch)
        d = data[:sum(ch)]
        if i is None:
            want_v, want_d = "T" * len(ch), "T"
        elif mode in ("solo", "all"):
            want_v, want_d = "T" * i + "F" * (len(ch) - i), "F"
        else:
            want_v, want_d = "T" * len(ch), "T"
        if verd != want_v or done != want_d:
            rep.violation("after-failure:verdicts:%s:%s" % (mode, sk.split(":")[0]),
                          "%s fed %s: feeds answered %s and done %s where %s / %s is due (branch %s refuses feed %s)" % (sh % sk, ch, verd, done, want_v, want_d, sk, i),
                          {"case": c, "implementation": o[:300]})
        elif s_hex is not None and i is not None and unhx(s_hex.replace("OVERFLOW:", "")) != d[:held]:
            rep.violation("after-failure:failed-branch-fed-again:%s:%s" % (mode, sk.split(":")[0]),
                          "%s fed %s: the branch %s refused feed %d but its sink holds %r afterwards instead of %r: a failed branch must receive no further data" % (sh % sk, ch, sk, i, unhx(s_hex.replace("OVERFLOW:", "")), d[:held]),
                          {"case": c, "implementation": o[:300]})
        elif mode == "any" and len(sinks_out) == len(order) and unhx(sinks_out[order.index("M")]) != d:
            rep.violation("after-failure:surviving-branch-starved", "%s fed %s: the surviving branch did not receive all the data" % (sh % sk, ch), {"case": c, "implementation": o[:300]})
    dist["multiplexers fed on after a branch failure (chainx)"] = len(cases)
    return len(cases)


def nontrivial(case, out):
    f = case.split("\t")
    return f[3] != "-" and f[2] != "-"


def correspond(ctx):
    cases, dist = gen(ctx["tier"], ctx["seed"])
    # every branch of a fault-free top-level multiplexer also runs on its own with the same feeds (implementation only)
    alone = []
    for c in cases:
        f = c.split("\t")
        stp = split_top(f[1])
        if stp and "faulty" not in f[1]:
            for b in stp[1]:
                if (b, f[2], f[3]) not in ALONE:
                    ALONE[(b, f[2], f[3])] = None
                    alone.append((b, f[2], f[3]))
    outs = vlib.run_cases(os.path.join(ctx["bdir"], "h"), ["chain\t%s\t%s\t%s" % a for a in alone])
    for a, o in zip(alone, outs):
        ALONE[a] = o
    dist["multiplexer branches also run on their own"] = len(alone)
    ncomp = compression_stages(ctx, dist)
    ncomp += jwe_stream_producer(ctx, dist)
    ncomp += after_failure(ctx, dist)
    st = runner.standard(
        ctx, cases, Oracle(), nontrivial,
        rule="chain shapes from the public constructors (+ a harness fault-injecting sink) x data x compositions of the length into feed sizes; non-trivial = non-empty data and at least one feed; distinct = distinct case lines",
        dist=dist,
        exhaustive_subspaces=["all compositions of every length <= %d for b64enc/b64dec/2 plex shapes" % (9 if ctx["tier"] == "quick" else 12),
                              "fault at every downstream feed index 0..7 and at done for 10 shapes"])
    st["evaluations"] += ncomp
    for d_ in ctx.get("step_disagreements", []):
        st["disagreements"] += 1
        st["first_disagreements"].append(d_)
        ctx["rep"].violation("after-failure:model-differs", "a session that goes on after a refused feed: implementation and the per-call model (coq/Io/Step.v) differ", dict(d_))
    return st
