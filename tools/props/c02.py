"""C02 JWE decryption is authenticated over protected, aad, iv, ciphertext, tag."""
import collections
import json
import os
import random

import jwsgen as G
import pyec
import runner
import vlib

PID = "C02"
PROP_FILE = "Props/Properties_C02.v"
LEVEL = "proof"
ASSUMPTIONS = [
    "C02: proved: jose's decryption verdict and output are EXACTLY 'the key unwraps a CEK from the targeted recipient (per algorithm) and AEAD-open under that CEK over the AAD input protected [|| '.' || aad] (in full), iv, ciphertext, tag succeeds (then inflate when zip is in the protected header)'; that a changed member makes AEAD-open fail is the integrity of AES-GCM / AES-CBC-HMAC / AES-KW / OAEP and is not proved",
    "C02: primitives on the model side are the independent Gallina implementations (AES, GCM, CBC, HMAC, RFC 3394, PBKDF2, inflate), extracted; ECDH-ES and RSA recipients are exercised on the implementation with the mutation oracle only in this check (their model evaluation through BigZ belongs to C04)",
    "C02: the CBC-HMAC path reads aad/protected as C strings: bytes after an embedded NUL are not authenticated; unreachable through JSON text (jansson rejects \\u0000) and modelled as such",
]

ALPH = "ABCDEFGHIJKLMNOPQRSTUVWXYZabcdefghijklmnopqrstuvwxyz0123456789-_"
ENCS = list(G.ENC_KEYLEN)


def mutate_char(rnd, s):
    i = rnd.randrange(len(s))
    c = rnd.choice([x for x in ALPH if x != s[i]])
    return s[:i] + c + s[i + 1:]


def make_tokens(bdir, rnd, tier):
    keys = G.standard_keys(bdir)
    req, meta = [], []
    pts = [b"", b"x", b"fifteen bytes!!", b"sixteen bytes!!!", b"seventeen bytes!!", bytes(range(256)) * 2]
    wraps = G.SYM_WRAPS + G.PBES2[:1] + G.EC_WRAPS + G.RSA_WRAPS
    for wrap in wraps:
        for enc in ENCS:
            if wrap not in ("dir", "A128KW", "A256GCMKW") and enc not in ("A128GCM", "A256CBC-HS512") and tier == "quick":
                continue
            for zip_ in (False, True):
                for aadk in ("none", "short", "equal", "long"):
                    if wrap in G.PBES2 and (tier == "quick") and not (enc == "A128GCM" and not zip_ and aadk in ("none", "long")):
                        continue      # PBKDF2 with >= 1000 iterations is slow on the model side
                    if tier == "quick" and wrap not in ("dir", "A128KW") and (zip_ or aadk in ("short", "equal")) and rnd.random() < 0.7:
                        continue
                    key = G.wrap_key(rnd, keys, wrap, enc)
                    if key is None:
                        continue
                    tmpl = G.jwe_template(wrap, enc, zip_, None)
                    plen = len(G.b64(G.dumps(tmpl["protected"]).encode()))
                    aad = {"none": None, "short": "YWFk", "equal": "A" * plen, "long": "B" * (plen + 37)}[aadk]
                    where = rnd.choice(["protected", "protected", "split"])
                    if not zip_ and (aadk != "none") and rnd.random() < 0.5:
                        where = "none"           # aad is then the only authenticated header-side input
                    tmpl = G.jwe_template(wrap, enc, zip_, aad, where=where)
                    pt = rnd.choice(pts)
                    req.append("jweenc\t%s\t-\t%s\t%s" % (G.dumps(tmpl), G.dumps(key), pt.hex() or "-"))
                    meta.append((wrap, enc, zip_, aadk, key, pt))
    # ECDH-ES with PartyUInfo / PartyVInfo of DIFFERENT lengths carried in an unauthenticated header (only the key
    # derivation binds them)
    for wrap in G.EC_WRAPS[:2]:
        for ul, vl, hn in ((5, 3, "unprotected"), (3, 9, "unprotected"), (17, 1, "header"), (2, 12, "header")):
            key = G.wrap_key(rnd, keys, wrap, "A128GCM")
            if key is None:
                continue
            tmpl = G.jwe_template(wrap, "A128GCM", False, None)
            info = {"apu": G.b64(bytes(rnd.getrandbits(8) for _ in range(ul))), "apv": G.b64(bytes(rnd.getrandbits(8) for _ in range(vl)))}
            rcp = "-"
            if hn == "unprotected":
                tmpl["unprotected"] = info
            else:
                rcp = G.dumps({"header": info})
            req.append("jweenc\t%s\t%s\t%s\t%s" % (G.dumps(tmpl), rcp, G.dumps(key), b"party info".hex()))
            meta.append((wrap, "A128GCM", False, "none", key, b"party info"))
    outs = G.harness(bdir, req)
    toks = []
    fails = []
    for r, o, m in zip(req, outs, meta):
        if o == "ERR" or o.startswith("CRASH"):
            fails.append((r, o, m))
        else:
            toks.append((json.loads(o), m))
    return toks, fails, keys


def mutations(rnd, tok, meta, n):
    """integrity-relevant single-member mutations; every one must make decryption fail"""
    wrap = meta[0]
    out = []
    members = ["protected", "iv", "ciphertext", "tag"]
    if tok.get("aad"):
        members.append("aad")
    if tok.get("encrypted_key"):
        members.append("encrypted_key")
    for _ in range(n):
        t = json.loads(json.dumps(tok))
        m = rnd.choice(members + ["hdr"])
        if m == "hdr":
            # key-agreement / derivation parameters in the unprotected / per-recipient header
            h = t.get("header") or t.get("unprotected")
            cands = [k for k in ("p2s", "iv", "tag") if h and isinstance(h.get(k), str) and h[k]]
            if h and "epk" in h:
                h["epk"]["x"] = mutate_char(rnd, h["epk"]["x"])
            elif h and "p2c" in h and rnd.random() < 0.5:
                h["p2c"] = h["p2c"] + 1
            elif cands:
                k = rnd.choice(cands)
                h[k] = mutate_char(rnd, h[k])
            else:
                continue
        else:
            if not t.get(m):
                continue
            t[m] = mutate_char(rnd, t[m])
        out.append((t, m))
    # PartyUInfo / PartyVInfo of different lengths in an unauthenticated header: every octet of both enters the key derivation
    for hn in ("header", "unprotected"):
        h0 = tok.get(hn) or {}
        for m in ("apu", "apv"):
            if isinstance(h0.get(m), str) and h0[m]:
                b = G.unb64(h0[m])
                for pos, nm in ((0, "first"), (len(b) - 1, "last"), (len(b) // 2, "middle")):
                    t = json.loads(json.dumps(tok))
                    t[hn][m] = G.b64(b[:pos] + bytes([b[pos] ^ 1]) + b[pos + 1:])
                    out.append((t, "%s-%s-octet" % (m, nm)))
                t = json.loads(json.dumps(tok))
                t[hn][m] = G.b64(b[:-1])
                out.append((t, "%s-shortened" % m))
    # the other point with the same x coordinate: epk.y replaced by p - y (ECDH uses the x coordinate only)
    hh = tok.get("header") or tok.get("unprotected") or {}
    if isinstance(hh.get("epk"), dict) and hh["epk"].get("crv") in pyec.CURVES:
        t = json.loads(json.dumps(tok))
        h2 = t.get("header") if "epk" in (t.get("header") or {}) else t.get("unprotected")
        cv = pyec.CURVES[h2["epk"]["crv"]]
        y = int.from_bytes(G.unb64(h2["epk"]["y"]), "big")
        h2["epk"]["y"] = G.b64(((cv["p"] - y) % cv["p"]).to_bytes(cv["size"], "big"))
        out.append((t, "epk-y-negated"))
    # structural
    for m in ("tag", "iv", "ciphertext"):
        t = json.loads(json.dumps(tok))
        t.pop(m, None)
        out.append((t, "del-" + m))
    t = json.loads(json.dumps(tok))
    t["tag"] = ""
    out.append((t, "empty-tag"))
    # length changes: canonical prefixes of the tag (whole octets dropped from the end: 1, 2, 4 and down to 12, 8 octets),
    # an octet appended; the same for the iv, the wrapped key and a key-wrap tag/iv carried in the header
    def shorter(v, drop):
        b = G.unb64(v)
        return G.b64(b[:len(b) - drop]) if len(b) > drop else None

    def length_variants(v):
        b = G.unb64(v)
        res = [("cut%d" % d, shorter(v, d)) for d in (1, 2, 4)]
        res += [("to%d" % k, G.b64(b[:k])) for k in (12, 8) if len(b) > k]
        res.append(("plus1", G.b64(b + b"\x00")))
        return [(n_, x) for n_, x in res if x is not None and x != v]
    for m in ("tag", "iv", "encrypted_key"):
        if isinstance(tok.get(m), str) and tok[m]:
            for n_, x in rnd.sample(length_variants(tok[m]), 2) if n < 10 else length_variants(tok[m]):
                t = json.loads(json.dumps(tok))
                t[m] = x
                out.append((t, "len-%s-%s" % (m, n_)))
    for hn in ("header", "unprotected"):
        h0 = tok.get(hn) or {}
        for m in ("tag", "iv"):
            if isinstance(h0.get(m), str) and h0[m]:
                for n_, x in length_variants(h0[m]):
                    t = json.loads(json.dumps(tok))
                    t[hn][m] = x
                    out.append((t, "len-hdr-%s-%s" % (m, n_)))
    if tok.get("aad"):
        t = json.loads(json.dumps(tok))
        t.pop("aad")
        out.append((t, "del-aad"))
        t = json.loads(json.dumps(tok))
        t["aad"] = tok["aad"][:-1]
        out.append((t, "aad-truncated"))
        t = json.loads(json.dumps(tok))
        t["aad"] = tok["aad"] + "A"
        out.append((t, "aad-extended"))
    else:
        t = json.loads(json.dumps(tok))
        t["aad"] = "YQ"
        out.append((t, "aad-added"))
    return out


def correspond(ctx):
    rep = ctx["rep"]
    rnd = random.Random(ctx["seed"])
    bdir = ctx["bdir"]
    dist = collections.Counter()
    toks, fails, keys = make_tokens(bdir, rnd, ctx["tier"])
    for r, o, m in fails:
        rep.violation("enc-failed:%s:%s" % (m[0], m[1]), "jose_jwe_enc failed for a valid combination %s/%s zip=%s aad=%s: %s" % (m[0], m[1], m[2], m[3], o), {"case": r})
    expected = {}
    special = {}
    sym_cases, pk_cases = [], []
    nm = 6 if ctx["tier"] == "quick" else 40
    for tok, m in toks:
        wrap, enc, zip_, aadk, key, pt = m
        sym = wrap in G.SYM_WRAPS or wrap in G.PBES2
        bucket = sym_cases if sym else pk_cases
        dkey = key
        c = "jwedec\t%s\t-\t%s" % (G.dumps(tok), G.dumps(dkey))
        expected[c] = "OK " + (pt.hex() or "-")
        bucket.append(c)
        dist["valid: %s" % ("symmetric/PBES2 key management" if sym else "ECDH-ES / RSA key management")] += 1
        # a key that belongs to no recipient
        other = G.wrap_key(rnd, keys, wrap, enc) if sym else G.oct_key(rnd, 16)
        if G.dumps(other) != G.dumps(key):
            c = "jwedec\t%s\t-\t%s" % (G.dumps(tok), G.dumps(other))
            expected[c] = "ERR"
            bucket.append(c)
            dist["wrong key"] += 1
        nmut = nm if not (wrap in G.PBES2) else 2
        for t, what in mutations(rnd, tok, m, nmut):
            c = "jwedec\t%s\t-\t%s" % (G.dumps(t), G.dumps(dkey))
            expected[c] = "ERR"
            if what == "epk-y-negated":
                special[c] = what
            bucket.append(c)
            dist["mutation: " + what.split("-")[0]] += 1
        # key sets and the any-semantics of decryption
        if sym and wrap not in G.PBES2:
            # 'dir' cannot tell a foreign key at unwrap time (the key IS the CEK), so the first key of a set decides
            first = [key, other] if wrap == "dir" else [other, key]
            for ks, e in ((first, "OK " + (pt.hex() or "-")), ([other], "ERR"), ([], "ERR")):
                c = "jwedec\t%s\t-\t%s" % (G.dumps(tok), G.dumps({"keys": ks}))
                expected[c] = e
                bucket.append(c)
                dist["key sets"] += 1

    # PBES2 at the MAXIMUM iteration count (what jose writes by default), p2c in an unauthenticated header: every
    # change of the count, upwards too, must make unwrapping fail (implementation only: 32768 iterations of the
    # Gallina PBKDF2 would take minutes)
    pw = G.oct_key(rnd, 20)
    t0 = G.jwe_template(G.PBES2[0], "A128GCM", False, None, where="split", p2c=32768)
    o0 = G.harness(bdir, ["jweenc\t%s\t-\t%s\t%s" % (G.dumps(t0), G.dumps(pw), b"p2c".hex())])[0]
    if o0 == "ERR" or o0.startswith("CRASH"):
        rep.violation("enc-failed:PBES2:p2c-max", "jose_jwe_enc with p2c=32768 failed: " + o0[:100], {"template": G.dumps(t0)})
    else:
        tk = json.loads(o0)
        c = "jwedec\t%s\t-\t%s" % (G.dumps(tk), G.dumps(pw))
        expected[c] = "OK " + b"p2c".hex()
        pk_cases.append(c)
        for newc in (32769, 32778, 42768, 65536, 327680, 1000000000, 32767, 16384):
            t = json.loads(json.dumps(tk))
            hh = t.get("unprotected") if "p2c" in (t.get("unprotected") or {}) else t.get("header")
            if hh is None or "p2c" not in hh:
                break
            hh["p2c"] = newc
            c = "jwedec\t%s\t-\t%s" % (G.dumps(t), G.dumps(pw))
            expected[c] = "ERR"
            pk_cases.append(c)
            dist["mutation: p2c at the maximum"] += 1

    # a JWE encrypted directly under a content key, relabelled (unauthenticated header) as an RSA1_5 / RSA-OAEP /
    # A128KW / ECDH-ES recipient whose encrypted_key is the raw content key: the key offered belongs to no recipient
    rsak = keys.get("RSA2048")
    for enc in ("A128GCM", "A256CBC-HS512"):
        K = G.oct_key(rnd, G.ENC_KEYLEN[enc])
        t0 = {"protected": {"enc": enc}, "unprotected": {"alg": "dir"}}
        o0 = G.harness(bdir, ["jweenc\t%s\t-\t%s\t%s" % (G.dumps(t0), G.dumps(K), b"forged".hex())])[0]
        if o0 == "ERR" or o0.startswith("CRASH"):
            continue
        for alg, dk in (("RSA1_5", rsak), ("RSA-OAEP", rsak), ("A128KW", G.oct_key(rnd, 16)), ("ECDH-ES+A128KW", keys.get("P-256"))):
            if dk is None:
                continue
            t = json.loads(o0)
            t["unprotected"]["alg"] = alg
            for ek in (K["k"], K["k"] + "AA", G.b64(b"\0" * 256)):
                t2 = json.loads(json.dumps(t))
                t2["encrypted_key"] = ek
                c = "jwedec\t%s\t-\t%s" % (G.dumps(t2), G.dumps(dk))
                expected[c] = "ERR"
                pk_cases.append(c)
                dist["forged recipient: raw content key as encrypted_key"] += 1

    def oracle(case, out):
        if out.startswith("CRASH"):
            return ("crash:" + out[:80], "crash or sanitizer report: " + out)
        want = expected.get(case)
        if want is not None and out != want:
            f = case.split("\t")
            if want == "ERR" and case in special:
                return ("dec-accepts-modified:" + special[case], "decryption succeeds after epk.y was replaced by p - y (the other point with the same x): ECDH-ES derives the key from the x coordinate of the shared point only, so this change of the epk member is not detected")
            if want == "ERR":
                return ("dec-accepts-modified", "decryption reports success although an integrity-relevant member was changed / the key belongs to no recipient")
            return ("dec-rejects-valid", "decryption of an unmodified token with its recipient key fails")
        return None

    def on_disagree(case, impl, model):
        if impl.startswith("OK") and model == "ERR":
            return ("accepts-what-rfc7516-rejects", "jose decrypts a token that the independent RFC 7516 implementation (Gallina model) rejects")
        if impl == "ERR" and model.startswith("OK"):
            return ("rejects-what-rfc7516-accepts", "jose rejects a token that the independent RFC 7516 implementation (Gallina model) decrypts")
        return None

    # ---- several recipients and the rcp argument: a named recipient is opened only by ITS key
    for _ in range(4 if ctx["tier"] == "quick" else 30):
        enc = rnd.choice(ENCS)
        k1, k2, k3 = G.oct_key(rnd, 16), G.oct_key(rnd, 32), G.oct_key(rnd, 16)
        k2 = dict(k2, alg="A256KW")
        o2 = G.harness(bdir, ["jweenc2\t%s\t%s\t%s\t%s" % (G.dumps({"protected": {"enc": enc}}), G.dumps(k1), G.dumps(k2), b"two".hex())])[0]
        if o2 == "ERR" or o2.startswith("CRASH"):
            rep.violation("enc2-failed", "encrypting to two recipients failed: " + o2[:80], {"enc": enc})
            continue
        tok2 = json.loads(o2.split("\t")[0])
        rc = tok2.get("recipients") or []
        if len(rc) != 2:
            continue
        OK2 = "OK " + b"two".hex()
        # (rcp is ONE recipient object; the library has no array form for it)
        for rcp, key, want in ((rc[0], k1, OK2), (rc[1], k2, OK2), (rc[0], k2, "ERR"), (rc[1], k1, "ERR"),
                               (rc[0], [k3, k1], OK2), (rc[1], {"keys": [k3, k1]}, "ERR"), (rc[1], [k1, k2], OK2), ({}, k1, "ERR")):
            c = "jwedec\t%s\t%s\t%s" % (G.dumps(tok2), G.dumps(rcp), G.dumps(key))
            expected[c] = want
            sym_cases.append(c)
            dist["named recipients (rcp argument)"] += 1

    # ---- streaming decryption (jose_jwe_dec_io, ciphertext text fed in chunks): the verdict of the final done() and the
    #      bytes delivered must be those of the one-shot call -- for valid tokens, mutated ones, wrong keys
    stream_cases, stream_ref = [], {}
    rs = random.Random(ctx["seed"] + 2)
    allc = sym_cases + pk_cases
    for c in (allc if len(allc) < 400 else rs.sample(allc, 400)):
        f = c.split("\t")
        try:
            tj = json.loads(f[1])
            if not isinstance(tj.get("ciphertext"), str):
                continue      # streaming: the caller feeds the ciphertext; an object without the member has none to feed
            n = len(tj["ciphertext"])
        except Exception:
            continue
        if n > 6000:
            continue
        def sizes_from_cuts(cuts):
            out, prev = [], 0
            for q in sorted(set(cuts)) + [n]:
                out.append(q - prev)
                prev = q
            return ",".join(str(x) for x in out)
        forms = ["-" if n == 0 else str(n)]
        if 0 < n <= 48:
            forms.append(",".join(["1"] * n))
        if n > 1:
            forms.append(sizes_from_cuts([1]))
            forms.append(sizes_from_cuts([n - 1]))
        if n > 4:
            forms.append(sizes_from_cuts(rs.sample(range(1, n), 3)))
        for chunks in forms:
            sc = "jwedecio\t%s\t%s\t%s\t%s" % (f[1], f[2], f[3], chunks)
            stream_cases.append(sc)
            stream_ref[sc] = c
    one = dict(zip(allc, G.harness(bdir, allc))) if stream_cases else {}
    for sc, o in zip(stream_cases, G.harness(bdir, stream_cases)):
        ref = one.get(stream_ref[sc], "")
        if o.startswith("CRASH"):
            rep.violation("stream:crash", "crash in streaming decryption: " + o[:200], {"case": sc[:3000]})
            continue
        oo = o.split(" ")
        ok_stream = len(oo) >= 3 and oo[1] == "T"
        if ref.startswith("OK"):
            want_hex = ref[3:] if ref[3:] != "-" else ""
            got_hex = (oo[2] if len(oo) > 2 and oo[2] not in ("x", "-") else "") if ok_stream else None
            if not ok_stream or got_hex != want_hex:
                rep.violation("stream:differs-from-one-shot", "streaming decryption fed as %s gives %s where the one-shot call returns the plaintext" % (sc.split("\t")[4][:40], o[:60]), {"case": sc[:3000]})
        elif ref == "ERR" and ok_stream:
            rep.violation("stream:accepts-what-one-shot-rejects", "streaming decryption fed as %s ends with done() = true although the one-shot call rejects the same object (modified member / foreign key)" % sc.split("\t")[4][:40],
                          {"case": sc[:3000], "implementation": o[:200]})
    dist["streaming decryption vs one-shot"] = len(stream_cases)

    st = runner.standard(ctx, sym_cases, oracle, lambda c, o: True, on_disagree=on_disagree,
                         rule="tokens produced by jose_jwe_enc for key-management x content-encryption x zip x aad (absent/shorter/equal/longer than protected) with parameters in the protected header, split between protected and unprotected, or with no protected header at all (aad alone authenticated); decryption with the recipient key, with a foreign key, in key sets; single-character mutations of protected, aad, iv, ciphertext, tag, encrypted_key and of p2s/p2c/epk/wrapped iv/tag; structural mutations (member removed, tag emptied, aad removed/truncated/extended/added). Symmetric and PBES2 cases also run on the extracted model; ECDH-ES and RSA cases on the implementation with the oracle",
                         dist=dist)
    impl = G.harness(bdir, pk_cases)
    for c, o in zip(pk_cases, impl):
        v = oracle(c, o)
        if v:
            rep.violation(v[0], v[1], {"case": c, "implementation": o})
    st["evaluations"] += len(pk_cases) + len(stream_cases)
    st["distinct_nontrivial"] += len(set(pk_cases))
    return st
