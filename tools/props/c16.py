"""C16 serialization shape across any history of additions (add_entity / encode_protected)."""
import collections
import itertools
import os
import vlib
import json
import random

import runner

PID = "C16"
PROP_FILE = "Props/Properties_C16.v"
LEVEL = "proof"
ASSUMPTIONS = [
    "C16: JSON values are modelled as immutable trees: the aliasing jansson keeps between the appended object and the caller's object is not represented (the caller's later mutations are outside the property)",
    "C16: theorems are about objects without duplicate member names (jansson objects cannot have any) and additions that carry at least one entry member (a signature always does; a 'dir' recipient whose algorithm lives in the protected header does not and is outside C16_history's premise)",
    "C16: 'earlier entries remain valid' is shown as 'earlier entries are moved/kept unchanged' (C16_step); validity of an unchanged entry is C01/C02's subject",
]

KEYS = {"sig": ("signatures", ["signature", "protected", "header"]),
        "rcp": ("recipients", ["header", "encrypted_key"])}


def dumps(v):
    return json.dumps(v, separators=(",", ":"), sort_keys=True)


def templates(kind):
    if kind == "sig":
        return [
            {"signature": "c2ln"},
            {"signature": "czI", "protected": "eyJhbGciOiJIUzI1NiJ9"},
            {"signature": "czM", "header": {"kid": "k3"}},
            {"signature": "czQ", "protected": "e30", "header": {"alg": "HS256"}, "extra": [1, 2]},
            {"protected": "eyJ4IjoxfQ"},
        ]
    return [
        {"encrypted_key": "ZWsx"},
        {"header": {"alg": "A128KW"}, "encrypted_key": "ZWsy"},
        {"header": {"alg": "dir"}},
        {"header": {"alg": "ECDH-ES", "epk": {"kty": "EC"}}, "encrypted_key": "ZWs0", "extra": None},
        {"encrypted_key": ""},
    ]


def starts(kind):
    pl, keys = KEYS[kind]
    t = templates(kind)
    base = {"payload": "cGF5"} if kind == "sig" else {"protected": "e30", "iv": "aXY", "ciphertext": "Y3Q", "tag": "dGFn"}
    out = [dict(base), dict(base, **{pl: []})]
    flat = dict(base)
    flat.update({k: v for k, v in t[1].items() if k in keys})
    out.append(flat)
    out.append(dict(base, **{pl: [t[0]]}))
    out.append(dict(base, **{pl: [t[2], t[1], t[0]]}))
    out.append({})
    return out


def gen(tier, seed):
    rnd = random.Random(seed)
    cases = []
    dist = collections.Counter()
    maxlen = 4 if tier == "quick" else 5
    for kind in ("sig", "rcp"):
        ts = templates(kind)
        for st in starts(kind):
            for n in range(1, maxlen + 1):
                for combo in itertools.product(range(len(ts)), repeat=n):
                    cases.append("entity\t%s\t%s\t%s" % (kind, dumps(st), "\t".join(dumps(ts[i]) for i in combo)))
                    dist["exhaustive histories len<=%d" % maxlen] += 1
        # malformed roots / lists / objects
        pl, keys = KEYS[kind]
        weird_roots = [[], "x", 5, None, {pl: {}}, {pl: "x"}, {pl: 5}, {pl: None}, {pl: [1]}, {pl: [ts[0]], keys[0]: "top"},
                       {pl: [], keys[0]: "top"}, {pl: [[]]}, {keys[0]: None}, {keys[0]: 0, keys[1]: False}]
        weird_objs = [{}, [], "s", 7, None, {pl: []}, {pl: [ts[0]]}, {"zzz": 1}, {keys[0]: None}]
        for r in weird_roots + starts(kind):
            for o in weird_objs + ts:
                cases.append("entity\t%s\t%s\t%s" % (kind, dumps(r), dumps(o)))
                cases.append("entity\t%s\t%s\t%s\t%s" % (kind, dumps(r), dumps(o), dumps(ts[0])))
                dist["malformed roots/objects"] += 2
        # long random histories
        for _ in range(150 if tier == "quick" else 3000):
            n = rnd.randint(5, 40)
            objs = []
            for i in range(n):
                t = dict(rnd.choice(ts))
                if "signature" in t:
                    t["signature"] = "s%d" % i
                if "encrypted_key" in t:
                    t["encrypted_key"] = "k%d" % i
                objs.append(t)
            cases.append("entity\t%s\t%s\t%s" % (kind, dumps(rnd.choice(starts(kind))), "\t".join(dumps(o) for o in objs)))
            dist["random long histories"] += 1
    # encode_protected
    import base64 as _b
    enc = lambda t: _b.urlsafe_b64encode(t).rstrip(b"=").decode()
    # already-encoded headers of every flavour: canonical, RFC 7515 A.1 (CRLF + unsorted), unsorted keys, blanks, escapes,
    # duplicate members, a non-canonical number, not JSON at all, not base64url at all -- all must be kept verbatim
    encoded = [enc(b'{"typ":"JWT",\r\n "alg":"HS256"}'), enc(b'{"kid":"second","alg":"ES256"}'), enc(b'{ "alg" : "HS256" }'),
               enc(b'{"alg":"HS256","x":"\\u0041"}'), enc(b'{"a":1,"a":2}'), enc(b'{"n":1.0}'), enc(b'not json'), "!!!", "e30="]
    prots = [None, "e30", "", {"alg": "HS256"}, {}, {"b": [1, {"c": "é\n"}], "a": None}, [], 5, True, 1.5, {"z": "\u0001"}] + encoded
    for p in prots:
        for extra in ({}, {"header": {"x": 1}}, {"signature": "s"}):
            o = dict(extra)
            if p is not None or True:
                if p is not None:
                    o["protected"] = p
            cases.append("encprot\t%s" % dumps(o))
            dist["encode_protected"] += 1
    for o in ([], "x", 5, None):
        cases.append("encprot\t%s" % dumps(o))
        dist["encode_protected"] += 1
    return cases, dict(dist)


def view(keys, o):
    return {k: o[k] for k in keys if isinstance(o, dict) and k in o}


def entries(pl, keys, root):
    l = root.get(pl)
    if isinstance(l, list) and l:
        return l, "general"
    if any(k in root for k in keys):
        return [view(keys, root)], "flat"
    return [], "empty"


def well_formed(pl, keys, root):
    if not isinstance(root, dict):
        return False
    if pl not in root:
        return True
    l = root[pl]
    if not isinstance(l, list):
        return False
    if l and any(k in root for k in keys):
        return False
    return True


def oracle(case, out):
    if out.startswith("CRASH"):
        return ("crash:" + out[:80], "crash or sanitizer report: " + out)
    f = case.split("\t")
    if f[0] != "entity":
        if f[0] == "encprot":
            o = json.loads(f[1])
            if isinstance(o, dict) and isinstance(o.get("protected"), str):
                if out == "ERR":
                    return ("encprot-encoded-refused", "encode_protected refuses an object whose protected header is already text (it has nothing to do)")
                if json.loads(out) != o:
                    return ("encprot-reencoded", "an already encoded protected header was altered: %s -> %s" % (o["protected"][:40], json.loads(out).get("protected", "")[:40]))
        return None
    pl, keys = KEYS[f[1]]
    root = json.loads(f[2])
    if not well_formed(pl, keys, root):
        return None
    outs = out.split("\t")
    cur = root
    for i, js in enumerate(f[3:]):
        obj = json.loads(js)
        if i >= len(outs):
            return ("protocol", "missing step output")
        addable = isinstance(obj, dict) and any(k in obj for k in keys) and pl not in obj
        if outs[i] == "ERR":
            if addable:
                return ("entity-refused", "a well-formed addition to a well-formed object was refused")
            return None
        new = json.loads(outs[i])
        if not addable:
            return None
        e0, _ = entries(pl, keys, cur)
        e1, form = entries(pl, keys, new)
        if not well_formed(pl, keys, new):
            return ("entity-two-forms", "result is in both flattened and general form (step %d)" % (i + 1))
        want = [view(keys, e) for e in e0] + [view(keys, obj)]
        got = [view(keys, e) for e in e1]
        if got != want:
            return ("entity-entries", "entries after step %d are not the earlier ones followed by the new one" % (i + 1))
        if (len(got) == 1) != (form == "flat"):
            return ("entity-form", "form does not match the number of entries (step %d)" % (i + 1))
        if len(got) >= 2 and form != "general":
            return ("entity-form", "form does not match the number of entries (step %d)" % (i + 1))
        if pl in new and not new[pl]:
            return ("entity-empty-list", "an empty list was left in the object")
        cur = new
    return None


def nontrivial(case, out):
    return case.startswith("entity") and not out.startswith("ERR")


def usable_after_additions(ctx, dist):
    """end to end, through the public entry points: objects with several signatures / recipients produced (a) by
    one call with a key set and ONE template object, (b) by one call with per-key templates, (c) by successive calls;
    every key must still verify / decrypt afterwards, the shape must be the general form, and no two entries may
    carry the same per-recipient parameters (epk, iv/tag, p2s)"""
    import jwsgen as G
    rep = ctx["rep"]
    bdir = ctx["bdir"]
    rnd = random.Random(ctx["seed"] + 16)
    keys = G.standard_keys(bdir)
    J = G.dumps
    ec = [keys["P-256"], G.strip_meta(G.gen_keys(bdir, [{"kty": "EC", "crv": "P-256", "key_ops": ["deriveKey"]}])[0])]
    families = {
        "ECDH-ES+A128KW": ec,
        "A128GCMKW": [G.oct_key(rnd, 16) for _ in range(3)],
        "A128KW": [G.oct_key(rnd, 16) for _ in range(3)],
        "PBES2-HS256+A128KW": [G.oct_key(rnd, 12) for _ in range(2)],
        "mixed": [G.oct_key(rnd, 16), keys["P-256"], G.oct_key(rnd, 32)],
    }
    # direct key agreement dictates the content key, so it can only be the FIRST recipient: added after another one it
    # must be refused -- or, if an implementation serves it, every earlier recipient must still decrypt
    ecdir = dict(keys["P-256"], alg="ECDH-ES")
    may_refuse = {"ECDH-ES direct as second recipient": [G.oct_key(rnd, 16), ecdir],
                  "ECDH-ES direct as third recipient": [G.oct_key(rnd, 16), G.oct_key(rnd, 32), ecdir],
                  "ECDH-ES direct after ECDH-ES+A128KW": [ec[1], ecdir]}
    families.update(may_refuse)
    req, meta = [], []
    for fam, ks in families.items():
        for tmpl_kind, rcp in (("one template with header", {"header": {"purpose": "c16"}}), ("one empty template", {}), ("no template", None),
                               ("template per key", [{"header": {"n": i}} for i in range(len(ks))])):
            jwe = {"protected": {"enc": "A128GCM"}}
            if fam == "PBES2-HS256+A128KW":
                jwe["protected"]["p2c"] = 1000
                ks2 = [dict(k, alg=fam) for k in ks]
            elif fam in ("A128GCMKW",):
                ks2 = [dict(k, alg=fam) for k in ks]
            else:
                ks2 = ks
            req.append("jweenc\t%s\t%s\t%s\t%s" % (J(jwe), "-" if rcp is None else J(rcp), J(ks2), b"c16".hex()))
            meta.append((fam, tmpl_kind, ks2))
    outs = G.harness(bdir, req)
    dec, dmeta = [], []
    for r, o, (fam, kind, ks) in zip(req, outs, meta):
        if o.startswith("CRASH"):
            rep.violation("usable:crash:" + fam, "crash: " + o[:200], {"case": r})
            continue
        if o == "ERR" and fam in may_refuse:
            continue
        if o == "ERR":
            rep.violation("usable:enc-failed:%s:%s" % (fam, kind), "jose_jwe_enc with a key set (%s, %s) failed" % (fam, kind), {"case": r})
            continue
        tok = json.loads(o)
        rc = tok.get("recipients")
        if not isinstance(rc, list) or len(rc) != len(ks) or any(m in tok for m in ("header", "encrypted_key")):
            rep.violation("usable:shape:%s:%s" % (fam, kind), "%d keys did not give the general form with %d recipients" % (len(ks), len(ks)), {"case": r, "implementation": o[:800]})
            continue
        seen = {}
        for i, e in enumerate(rc):
            hd = e.get("header") or {}
            for m in ("epk", "iv", "tag", "p2s"):
                if m in hd:
                    v = J(hd[m])
                    if (m, v) in seen:
                        rep.violation("usable:shared-recipient-parameter:%s:%s" % (fam, m), "recipients %d and %d of one object carry the same %s: entries alias each other (%s, %s)" % (seen[(m, v)], i, m, fam, kind),
                                      {"case": r, "implementation": o[:1200]})
                    seen[(m, v)] = i
        for i, k in enumerate(ks):
            dec.append("jwedec\t%s\t-\t%s" % (o, J(k)))
            dmeta.append((fam, kind, i, r))
    for c, o, (fam, kind, i, r) in zip(dec, G.harness(bdir, dec), dmeta):
        if o != "OK " + b"c16".hex():
            rep.violation("usable:recipient-unusable:%s:%s" % (fam, kind), "recipient %d of an object made with a key set (%s, %s) cannot decrypt it any more: %s" % (i, fam, kind, o[:40]),
                          {"case": c[:3000], "produced_by": r[:1500]})
    dist["end-to-end: key sets x template forms, every recipient decrypts"] = len(dec)
    nsig = jws_order(ctx, dist)
    return len(req) + len(dec) + nsig


def jws_order(ctx, dist):
    """signatures made by ONE call with a key set (the library signs through a multiplexer) appear in the order of the keys,
    after whatever was there before; every signer still verifies (implementation only)"""
    import jwsgen as G
    rep = ctx["rep"]
    bdir = ctx["bdir"]
    rnd = random.Random(ctx["seed"] + 17)
    keys = G.standard_keys(bdir)
    J = G.dumps
    pool = [("HS256", G.oct_key(rnd, 32)), ("HS384", G.oct_key(rnd, 48)), ("HS512", G.oct_key(rnd, 64))]
    if keys.get("P-256"):
        pool.append(("ES256", keys["P-256"]))
    first = G.harness(bdir, ["jwssig\t%s\t%s\t%s" % (J({"payload": G.b64(b"order")}), J({"protected": {"alg": "HS256"}, "header": {"n": "first"}}), J(pool[0][1]))])[0]
    starts = [("empty", J({"payload": G.b64(b"order")}), [])]
    if first.startswith("{"):
        starts.append(("flattened", first, ["first"]))
    req, meta = [], []
    for sname, start, before in starts:
        for _ in range(6):
            sel = rnd.sample(pool, rnd.choice([2, 3, len(pool)]))
            for form in ("array", "jwkset"):
                ks = [k for _, k in sel]
                tm = [{"protected": {"alg": a}, "header": {"n": "k%d" % i}} for i, (a, _) in enumerate(sel)]
                req.append("jwssig\t%s\t%s\t%s" % (start, J(tm), J(ks if form == "array" else {"keys": ks})))
                meta.append((sname, before + ["k%d" % i for i in range(len(sel))], [a for a, _ in sel]))
    n = 0
    for r, o, (sname, want, algs) in zip(req, G.harness(bdir, req), meta):
        n += 1
        if o == "ERR" or o.startswith("CRASH"):
            rep.violation("jws-order:sign-failed:" + sname, "jose_jws_sig with a key set (%s) failed: %s" % (",".join(algs), o[:80]), {"case": r[:3000]})
            continue
        got = [(e.get("header") or {}).get("n") for e in json.loads(o).get("signatures") or []]
        if got != want:
            rep.violation("jws-order:%s" % sname, "one call with the keys %s on a %s object: the signatures appear as %s, the order of addition is %s" % (",".join(algs), sname, got, want),
                          {"case": r[:3000], "implementation": o[:1200]})
    dist["JWS: one call with a key set, order of the signatures"] = n
    return n


def cli_additions(ctx, dist):
    """`jose jws sig` adding a signature to an EXISTING JWS given in every input form (inline JSON, JSON file, compact
    string, compact file, compact on stdin): general form only, the earlier entry moved unchanged, both keys verify"""
    import subprocess
    import tempfile
    import hashlib
    import hmac as pyhmac
    import jwsgen as G
    rep = ctx["rep"]
    bdir = ctx["bdir"]
    rnd = random.Random(ctx["seed"] + 161)
    J = G.dumps
    k1, k2 = G.oct_key(rnd, 32), G.oct_key(rnd, 48)
    prot = G.b64(J({"alg": "HS256"}).encode())
    pay = G.b64(b"c16 cli")
    sig = G.b64(pyhmac.new(G.unb64(k1["k"]), (prot + "." + pay).encode(), hashlib.sha256).digest())
    flat = {"payload": pay, "protected": prot, "signature": sig}
    compact = "%s.%s.%s" % (prot, pay, sig)
    env = dict(os.environ, ASAN_OPTIONS="detect_leaks=0")
    n = 0
    with tempfile.TemporaryDirectory(dir=vlib.WORK) as d:
        open(os.path.join(d, "k2.jwk"), "w").write(J(k2))
        open(os.path.join(d, "flat.json"), "w").write(J(flat))
        open(os.path.join(d, "tok.compact"), "w").write(compact)
        forms = [("inline JSON", ["-i", J(flat)], None), ("JSON file", ["-i", "flat.json"], None), ("compact string", ["-i", compact], None),
                 ("compact file", ["-i", "tok.compact"], None), ("compact on stdin", ["-i", "-"], compact), ("JSON on stdin", ["-i", "-"], J(flat))]
        vcases, vmeta = [], []
        for what, args, stdin in forms:
            n += 1
            r = subprocess.run([os.path.join(bdir, "jose"), "jws", "sig"] + args + ["-k", "k2.jwk"], cwd=d, input=stdin, capture_output=True, text=True, env=env)
            cmd = "jose jws sig %s -k k2.jwk%s" % (" ".join("'%s'" % a for a in args), " < (the token)" if stdin else "")
            if r.returncode != 0:
                rep.violation("cli-add:failed:" + what, "`%s` (adding a signature to an existing JWS, %s) exits %d" % (cmd, what, r.returncode), {"stderr": r.stderr[:300]})
                continue
            try:
                out = json.loads(r.stdout)
            except Exception:
                rep.violation("cli-add:not-json:" + what, "`%s` does not print a JSON object" % cmd, {"stdout": r.stdout[:300]})
                continue
            extra = [m for m in ("signature", "protected", "header") if m in out]
            sigs = out.get("signatures")
            if extra or not isinstance(sigs, list) or len(sigs) != 2:
                rep.violation("cli-add:shape:" + what, "`%s`: the result is not the general form with two entries (top-level %s, signatures: %s)" % (cmd, extra, J(sigs)[:200]), {"stdout": r.stdout[:800]})
                continue
            if sigs[0] != {"protected": prot, "signature": sig}:
                rep.violation("cli-add:earlier-entry-changed:" + what, "`%s`: the entry added earlier was not moved unchanged: %s" % (cmd, J(sigs[0])[:200]), {"stdout": r.stdout[:800]})
                continue
            vcases.append("jwsver\t%s\t-\t%s\t1" % (J(out), J([k1, k2])))
            vmeta.append((what, cmd))
        for c, o, (what, cmd) in zip(vcases, G.harness(bdir, vcases), vmeta):
            if o != "T":
                rep.violation("cli-add:unverifiable:" + what, "`%s`: not every signature of the result verifies" % cmd, {"case": c[:1500]})
    dist["CLI: second signature added to an existing JWS, six input forms"] = n
    return n


def correspond(ctx):
    cases, dist = gen(ctx["tier"], ctx["seed"])
    n = usable_after_additions(ctx, dist) + cli_additions(ctx, dist)
    st = standard_part(ctx, cases, dist)
    st["evaluations"] += n
    return st


def standard_part(ctx, cases, dist):
    return runner.standard(
        ctx, cases, oracle, nontrivial,
        rule="end to end: jose_jwe_enc with key sets (ECDH-ES, GCMKW, KW, PBES2, mixed) x one template object / empty / none / one per key -- general form, no shared per-recipient parameters, every recipient still decrypts; histories of add_entity calls (signature and recipient flavours) from 6 start shapes over 5 templates, malformed roots/objects, long random histories, encode_protected on every JSON type; non-trivial = first addition succeeded",
        dist=dist,
        exhaustive_subspaces=["all histories of length <= %d over 5 templates from 6 start shapes, both flavours" % (4 if ctx["tier"] == "quick" else 5)])
