"""C09 no memory-safety violation and no leak for any JSON input to the API.

PARTIAL by nature (see ASSUMPTIONS): the Coq part proves the reference-count discipline of the modelled
glue and the buffer-size obligations; the C text itself is observed under ASan/UBSan (use-after-scope on)
and LeakSanitizer, with jansson's allocator replaced by a counting, poisoning one and the reference count of
every caller node compared before/after each call."""
import collections
import json
import os
import random
import re

import jwsgen as G
import runner
import vlib

PID = "C09"
PROP_FILE = "Props/Properties_C09.v"
LEVEL = "proof"
VARIANT = "full"
ASSUMPTIONS = [
    "C09: PARTIAL: absence of out-of-bounds access, use-after-free and undefined behaviour in the C text is NOT proved (no C semantics available: VST/CompCert are not installed); it is observed under ASan/UBSan/LSan on the generated inputs; what is proved is the reference-count discipline of the modelled glue and the buffer-size obligations",
    "C09: proved on the model (coq/Mem/Own.v: a heap of reference-counted JSON nodes with jansson's ownership rules; Stuck = use or release of a freed node): jose_jws_hdr, jose_jwe_hdr, the prt/hdr prologue of jose_jwe_dec_cek_io, zip_in_protected_header, the zip epilogue of jose_jwe_enc_cek_io and encode_protected are balanced for EVERY JSON tree (every type of every member at every depth, present or absent) and every base64 decoder: never Stuck, the caller's heap is restored exactly after the result is released, nothing the function created stays alive; jwe_hdr_set_new is checked for every combination of member kinds by computation in the kernel (NOT for arbitrary subtrees: the full statement is in C09_NOTES.md); find_alg and the ios_auto arrays are not modelled; the texts repaired while this check was written (530be9d, cba5ab8, cd23cd6) are kept as regression witnesses that the model does see those defects",
    "C09: the model's programs are hand translations of the C text (line by line, the C statement next to each line); jansson's semantics (json_object_get borrows, set_new steals also on failure, set increfs, update_missing increfs the values it adds, decref at 1 frees and releases the children, json_auto_t releases what the variable holds at scope exit) is the model's definition, not verified against jansson; allocation failure is not modelled (C20)",
    "C09: buffer obligations (coq/Mem/Buffers.v): the list of jose_b64_dec/_buf call sites with a non-NULL output is written by hand and compared with a regex scan of /repo/lib on every run (a new or changed site fails the check); the theorem is 'under the recorded guard the requested length is at most the destination capacity', combined with dec_buf_bounds (every write index < requested length); that the recorded capacity / guard are what the C text says is read off the source, not proved",
    "C09: dynamic side: 'every JSON input' is the generated family only (valid objects of every registered algorithm produced by the library, then single structured mutations: deletion, 8-way type substitution at every depth including inside the encoded protected header, string edits (incl. values decoding to exactly 1024/1025/1040/1041 octets for every member that feeds a fixed buffer), nesting changes, on every argument position); RSA key generation is excluded from the mutation stream (cost) unless the template fails before generating",
    "C09: the harness pins every argument node (one extra reference) so that a dropped borrowed reference is seen as a wrong count instead of a crash elsewhere; LeakSanitizer's reachability analysis is conservative (a stale pointer on the stack hides a leak until a later case; the allocation site, not the case, identifies the finding)",
]

HUGE = "A" * 70000
ALPH = "ABCDEFGHIJKLMNOPQRSTUVWXYZabcdefghijklmnopqrstuvwxyz0123456789-_"

# functions whose verdict one of the functional models decides (ocaml/d_mem.ml)
MODELLED = {"jose_jws_hdr", "jose_jwe_hdr", "jose_jwk_pub", "jose_jwk_thp", "jose_jwk_thp_buf", "jose_jwk_eql", "jose_jwk_prm",
            "jose_b64_dec", "jose_b64_dec_load", "jose_b64_enc_dump", "zip_in_protected_header", "encode_protected"}
INTERNAL = {"zip_in_protected_header", "encode_protected"}


def dumps(v):
    return json.dumps(v, separators=(",", ":"), sort_keys=True)


class _Null:
    """a NULL pointer argument (not a JSON value; JSON null is None)"""
    def __repr__(self):
        return "NULL"


NUL = _Null()


# ---------------------------------------------------------------------------- source scans

def exported_json_functions(repo):
    """names exported by lib/libjose.map whose prototype (include/jose/*.h) mentions json_t"""
    txt = open(os.path.join(repo, "lib/libjose.map")).read()
    names = re.findall(r"^\s*(jose_\w+);", txt, flags=re.M)
    hdr = ""
    d = os.path.join(repo, "include/jose")
    for f in [os.path.join(d, x) for x in sorted(os.listdir(d)) if x.endswith((".h", ".h.in"))] + [os.path.join(repo, "lib/hooks.h")]:
        hdr += re.sub(r"/\*.*?\*/", "", open(f).read(), flags=re.S)
    out, unknown = [], []
    for n in names:
        m = re.search(r"([\w\s\*]+?)\b%s\s*\(([^;{]*?)\)\s*;" % re.escape(n), hdr, flags=re.S)
        if not m:
            unknown.append(n)
            continue
        if "json_t" in m.group(1) or "json_t" in m.group(2):
            out.append(n)
    return out, unknown, names


# exports that take or return json_t but are not "consumers of a JSON input" in the sense of C09:
# constructors from OpenSSL objects / raw bytes (driven by C12, C07)
NOT_CONSUMERS = {"jose_openssl_jwk_from_EC_KEY", "jose_openssl_jwk_from_EC_POINT", "jose_openssl_jwk_from_EVP_PKEY",
                 "jose_openssl_jwk_from_RSA", "jose_b64_enc"}

CALL_RE = re.compile(r"\b(jose_b64_dec(?:_buf)?)\s*\(")


def split_args(s):
    args, depth, cur = [], 0, ""
    for ch in s:
        if ch in "([{":
            depth += 1
        elif ch in ")]}":
            depth -= 1
        if ch == "," and depth == 0:
            args.append(cur.strip())
            cur = ""
        else:
            cur += ch
    if cur.strip():
        args.append(cur.strip())
    return args


def b64_dec_callsites(repo):
    """(file, function, callee, destination, length) of every call of jose_b64_dec / jose_b64_dec_buf in lib/ whose
    output argument is not NULL"""
    sites = []
    for path in vlib.lib_sources():
        rel = os.path.relpath(path, repo)
        src = open(path).read()
        src = re.sub(r"/\*.*?\*/", lambda m: " " * len(m.group(0)), src, flags=re.S)
        # function starts: "name(args)\n{" at column 0 (the project's style)
        funcs = [(m.start(), m.group(1)) for m in re.finditer(r"^(\w+)\s*\([^;{]*?\)\s*\n\{", src, flags=re.M)]
        for m in CALL_RE.finditer(src):
            # skip the definitions themselves
            line_start = src.rfind("\n", 0, m.start()) + 1
            if line_start == m.start():
                continue
            i = m.end()
            depth = 1
            while i < len(src) and depth:
                depth += src[i] == "("
                depth -= src[i] == ")"
                i += 1
            args = split_args(re.sub(r"\s+", " ", src[m.end():i - 1]))
            out = args[-2] if len(args) >= 2 else "?"
            ol = args[-1] if args else "?"
            if out == "NULL":
                continue
            fn = "?"
            for pos, name in funcs:
                if pos < m.start():
                    fn = name
            sites.append((rel, fn, m.group(1), out, ol))
    return sorted(sites)


def buffers_in_coq():
    """the records of coq/Mem/Buffers.v: (file, function, callee, destination, length)"""
    txt = open(os.path.join(vlib.COQ, "Mem", "Buffers.v")).read()
    recs = re.findall(r'mk_site\s+"([^"]*)"\s+"([^"]*)"\s+"([^"]*)"\s+"([^"]*)"\s+"([^"]*)"', txt)
    return sorted(recs)


# ---------------------------------------------------------------------------- valid objects

SIGN_ALGS = ["HS256", "HS384", "HS512", "RS256", "RS384", "RS512", "PS256", "PS384", "PS512", "ES256", "ES384", "ES512", "ES256K"]
HS_LEN = {"HS256": 32, "HS384": 48, "HS512": 64}
THP_ALGS = ["S1", "S224", "S256", "S384", "S512"]


def sign_key(rnd, keys, alg):
    if alg in HS_LEN:
        return G.oct_key(rnd, HS_LEN[alg])
    return keys.get(G.SIGN_KEY_FOR[alg])


def build_templates(bdir, rnd, tier):
    """valid (function, json args, extra fields) tuples, produced with the library itself"""
    keys = G.standard_keys(bdir)
    payload = b"The true sign of intelligence is not knowledge but imagination."
    T = []          # (function, [json args or None], [extra string fields], tag)
    problems = []

    # ---- JWS
    req, meta = [], []
    for alg in SIGN_ALGS:
        k = sign_key(rnd, keys, alg)
        if k is None:
            problems.append("no key for " + alg)
            continue
        for where in ("protected", "header"):
            sig = {where: {"alg": alg}}
            req.append("jwssig\t%s\t%s\t%s" % (dumps({"payload": G.b64(payload)}), dumps(sig), dumps(k)))
            meta.append((alg, where, k, sig))
    outs = G.harness(bdir, req)
    jws_list = []
    for (alg, where, k, sig), o in zip(meta, outs):
        if o == "ERR" or o.startswith("CRASH"):
            problems.append("jwssig %s %s: %s" % (alg, where, o[:80]))
            continue
        jws = json.loads(o)
        jws_list.append((alg, where, k, sig, jws))
    # a general-form JWS with two signatures
    if len(jws_list) >= 2:
        a = jws_list[0]
        b = [x for x in jws_list if x[0] == "ES256" and x[1] == "protected"]
        if b:
            b = b[0]
            o = G.harness(bdir, ["jwssig\t%s\t%s\t%s" % (dumps(a[4]), dumps(b[3]), dumps(b[2]))])[0]
            if o != "ERR" and not o.startswith("CRASH"):
                multi = json.loads(o)
                T.append(("jose_jws_ver", [multi, NUL, {"keys": [G.pub_of(a[2]) if a[2]["kty"] != "oct" else a[2], G.pub_of(b[2])]}], ["1"], "jws:multi"))
                T.append(("jose_jws_ver", [multi, NUL, b[2]], ["0"], "jws:multi"))
                if "signatures" in multi:
                    T.append(("jose_jws_hdr", [multi["signatures"][0]], [], "jws:multi"))
    for alg, where, k, sig, jws in jws_list:
        tag = "jws:%s:%s" % (alg, where)
        pk = k if k["kty"] == "oct" else G.pub_of(k)
        T.append(("jose_jws_hdr", [jws], [], tag))
        T.append(("jose_jws_ver", [jws, NUL, pk], ["0"], tag))
        T.append(("jose_jws_ver_io", [jws, NUL, pk], ["0", payload_b64_hex(jws)], tag))
        T.append(("jose_jws_sig", [{"payload": G.b64(payload)}, sig, k], [], tag))
        T.append(("jose_jws_sig_io", [{"payload": G.b64(payload)}, sig, k], [G.b64(payload).encode().hex()], tag))
        if alg in ("HS256", "ES256", "RS256"):
            # start objects that already carry a (possibly empty) list of signatures, or one flattened signature
            T.append(("jose_jws_sig", [{"payload": G.b64(payload), "signatures": []}, sig, k], [], tag + ":empty-list"))
            T.append(("jose_jws_sig", [dict(jws), sig, k], [], tag + ":second"))
            if "signature" in jws:
                gen = {"payload": jws["payload"], "signatures": [{m: jws[m] for m in ("protected", "header", "signature") if m in jws}]}
                T.append(("jose_jws_sig", [gen, sig, k], [], tag + ":third"))
        if where == "protected":
            T.append(("encode_protected", [sig], [], tag))

    # ---- JWE
    wraps = G.SYM_WRAPS + G.PBES2 + G.EC_WRAPS + G.RSA_WRAPS
    encs = list(G.ENC_KEYLEN)
    req, meta = [], []
    combos = []
    for i, wrap in enumerate(wraps):
        es = encs if wrap == "dir" else [encs[i % len(encs)], encs[(i + 3) % len(encs)]]
        for j, enc in enumerate(es):
            zip_ = (i + j) % 3 == 0
            aad = "YWFk" if (i + j) % 4 == 1 else None
            where = "split" if (i + j) % 5 == 2 else "protected"
            combos.append((wrap, enc, zip_, aad, where))
    for wrap, enc, zip_, aad, where in combos:
        k = G.wrap_key(rnd, keys, wrap, enc)
        if k is None:
            problems.append("no key for " + wrap)
            continue
        tmpl = G.jwe_template(wrap, enc, zip_, aad, where=where)
        req.append("jweenc\t%s\t-\t%s\t%s" % (dumps(tmpl), dumps(k), payload.hex()))
        meta.append((wrap, enc, zip_, aad, where, k, tmpl))
    outs = G.harness(bdir, req)
    jwes = []
    for m, o in zip(meta, outs):
        if o == "ERR" or o.startswith("CRASH"):
            problems.append("jweenc %s %s: %s" % (m[0], m[1], o[:80]))
            continue
        jwes.append((m, json.loads(o)))
    ceks = G.harness(bdir, ["jweunw\t%s\t-\t%s" % (dumps(j), dumps(m[5])) for m, j in jwes])
    for (m, jwe), c in zip(jwes, ceks):
        wrap, enc, zip_, aad, where, k, tmpl = m
        tag = "jwe:%s:%s%s" % (wrap, enc, ":zip" if zip_ else "")
        dk = k
        T.append(("jose_jwe_hdr", [jwe, jwe], [], tag))
        T.append(("jose_jwe_hdr", [jwe, NUL], [], tag))
        T.append(("jose_jwe_dec", [jwe, NUL, dk], [], tag))
        T.append(("jose_jwe_dec_io", [jwe, NUL, dk], [], tag))
        T.append(("jose_jwe_dec_jwk", [jwe, NUL, dk], [], tag))
        T.append(("zip_in_protected_header", [jwe], [], tag))
        # keys that DECLARE an algorithm: the recipient key naming the header's alg (for "dir": the enc, as the library
        # documents), and key sets that also hold a key made for another algorithm -- the comparisons of the key's alg
        # with header members then run on every mutated header, also when "enc" / "alg" have been deleted from it
        if isinstance(dk, dict) and (wrap in ("dir", "A128KW", "A256GCMKW", "ECDH-ES", "ECDH-ES+A128KW", "RSA-OAEP") or wrap.startswith("PBES2-HS256")):
            named = dict(dk, alg=enc if wrap == "dir" else wrap)
            foreign = G.oct_key(rnd, 32, alg="A256KW")
            T.append(("jose_jwe_dec", [jwe, NUL, named], [], tag + ":key-alg"))
            T.append(("jose_jwe_dec_jwk", [jwe, NUL, named], [], tag + ":key-alg"))
            T.append(("jose_jwe_dec", [jwe, NUL, {"keys": [foreign, dk]}], [], tag + ":keyset-foreign-alg"))
            T.append(("jose_jwe_dec_io", [jwe, NUL, [foreign, named]], [], tag + ":keyset-foreign-alg"))
            T.append(("jose_jwe_dec_jwk", [jwe, NUL, [foreign, dk]], [], tag + ":keyset-foreign-alg"))
        ek = k if k["kty"] == "oct" else G.pub_of(k)
        T.append(("jose_jwe_enc", [tmpl, NUL, ek], [payload.hex()], tag))
        T.append(("jose_jwe_enc_io", [tmpl, NUL, ek], [payload.hex()], tag))
        T.append(("jose_jwe_enc_jwk", [tmpl, NUL, ek, {}], [], tag))
        if wrap in ("A128KW", "ECDH-ES+A128KW", "RSA-OAEP", "A128GCMKW"):
            # a (possibly empty) recipients list is already there; a recipient template object / per-key array is given
            T.append(("jose_jwe_enc_jwk", [dict(tmpl, recipients=[]), NUL, ek, {}], [], tag + ":empty-list"))
            T.append(("jose_jwe_enc_jwk", [tmpl, {"header": {"kid": "r"}}, ek, {}], [], tag + ":rcp"))
            T.append(("jose_jwe_enc_jwk", [tmpl, {"header": {"kid": "r"}}, [ek, ek], {}], [], tag + ":keyset"))
            T.append(("jose_jwe_enc_jwk", [tmpl, [{"header": {"kid": "a"}}, {}], {"keys": [ek, ek]}, {}], [], tag + ":keyset-templates"))
        if wrap not in ("dir", "ECDH-ES"):
            T.append(("jose_jwe_enc_jwk", [tmpl, NUL, ek, G.oct_key(rnd, G.ENC_KEYLEN[enc])], [], tag))
        if c != "ERR" and not c.startswith("CRASH"):
            cek = json.loads(c)
            T.append(("jose_jwe_dec_cek", [jwe, cek], [], tag))
            T.append(("jose_jwe_dec_cek_io", [jwe, cek], [], tag))
            ck = {"kty": "oct", "k": cek.get("k")}
            et = {"protected": {"enc": enc}}
            if zip_:
                et["protected"]["zip"] = "DEF"
            if aad:
                et["aad"] = aad
            T.append(("jose_jwe_enc_cek", [et, ck], [payload.hex()], tag))
            T.append(("jose_jwe_enc_cek_io", [et, ck], [payload.hex()], tag))
        else:
            problems.append("jweunw %s %s: %s" % (wrap, enc, c[:80]))

    # ---- JWK
    allkeys = []
    for name, k in sorted(keys.items()):
        allkeys.append((name, k))
    allkeys.append(("oct16", G.oct_key(rnd, 16)))
    allkeys.append(("oct64", G.oct_key(rnd, 64, use="sig", alg="HS512")))
    for name, k in allkeys:
        tag = "jwk:" + name
        T.append(("jose_jwk_pub", [k], [], tag))
        T.append(("jose_jwk_prm", [dict(k, use="sig", key_ops=["sign", "verify"]), ], ["0", "sign"], tag))
        T.append(("jose_jwk_prm", [k], ["1", "decrypt"], tag))
        T.append(("jose_jwk_eql", [k, G.pub_of(k)], [], tag))
        for h in (THP_ALGS if name in ("P-256", "oct16") else ["S256"]):
            T.append(("jose_jwk_thp", [k], [h], tag))
        T.append(("jose_jwk_thp_buf", [k], ["S256", "32"], tag))
        T.append(("jose_jwk_thp_buf", [k], ["S512", "NULL"], tag))
        T.append(("jose_openssl_jwk_to_EVP_PKEY", [k], [], tag))
        T.append(("jose_openssl_jwk_to_EVP_PKEY", [G.pub_of(k)] if k["kty"] != "oct" else [k], [], tag))
        if k["kty"] == "RSA":
            T.append(("jose_openssl_jwk_to_RSA", [k], [], tag))
            T.append(("jose_openssl_jwk_to_RSA", [G.pub_of(k)], [], tag))
        if k["kty"] == "EC":
            T.append(("jose_openssl_jwk_to_EC_KEY", [k], [], tag))
            T.append(("jose_openssl_jwk_to_EC_KEY", [G.pub_of(k)], [], tag))
    ec = [(n, k) for n, k in allkeys if k["kty"] == "EC" and k["crv"].startswith("P-")]
    for n, k in ec:
        other = G.gen_keys(bdir, [{"kty": "EC", "crv": k["crv"]}])[0]
        if other:
            T.append(("jose_jwk_exc", [k, G.pub_of(G.strip_meta(other))], [], "jwk:" + n))
            T.append(("jose_jwk_exc", [dict(k, alg="ECMR"), dict(G.pub_of(G.strip_meta(other)), alg="ECMR")], [], "jwk:" + n))
    # generation templates (RSA: the template-validation stage only)
    gens = [{"alg": a} for a in SIGN_ALGS if not a.startswith(("RS", "PS"))] + \
           [{"alg": a} for a in G.SYM_WRAPS[1:] + G.PBES2 + G.EC_WRAPS + list(G.ENC_KEYLEN)] + \
           [{"kty": "oct", "bytes": 32}, {"kty": "EC", "crv": "P-521"}, {"kty": "EC", "crv": "secp256k1", "use": "sig"},
            {"alg": "ECMR"}, {"kty": "oct", "bytes": 16, "key_ops": ["sign"]}]
    for g in gens:
        T.append(("jose_jwk_gen", [g], [], "gen"))
    T.append(("jose_jwk_gen", [{"alg": "RS256"}], [], "gen:rsa"))
    T.append(("jose_jwk_gen", [{"kty": "RSA", "bits": 2048, "e": 65537}], [], "gen:rsa"))
    T.append(("jose_jwk_gen", [{"kty": "RSA", "e": "AQAB"}], [], "gen:rsa"))

    # ---- base64url
    for v in ("", "QQ", "QUI", "QUJD", "eyJhIjoxfQ", "e30", "W10", "NQ", "ImEi", "bnVsbA"):
        T.append(("jose_b64_dec", [v], ["x"], "b64"))
        T.append(("jose_b64_dec", [v], ["q"], "b64"))
        T.append(("jose_b64_dec", [v], ["2"], "b64"))
        T.append(("jose_b64_dec_load", [v], [], "b64"))
    for v in ({}, {"a": [1, 2.5, None, True, "x"]}, [], [1], "s", 5, None, True, 1.5):
        T.append(("jose_b64_enc_dump", [v], [], "b64"))
    return T, problems, keys


def payload_b64_hex(jws):
    p = jws.get("payload", "")
    return p.encode().hex() if isinstance(p, str) and p else "-"


# ---------------------------------------------------------------------------- mutation

SUBST = [("null", None), ("true", True), ("int", 0), ("real", 1.5), ("str", "str"), ("arr", []), ("obj", {}), ("huge", HUGE)]


def paths(v, pre=()):
    """every member / element position at every depth"""
    out = []
    if isinstance(v, dict):
        for k in v:
            out.append(pre + (k,))
            out.extend(paths(v[k], pre + (k,)))
    elif isinstance(v, list):
        for i in range(len(v)):
            out.append(pre + (i,))
            out.extend(paths(v[i], pre + (i,)))
    return out


def get_at(v, p):
    for k in p:
        v = v[k]
    return v


def set_at(v, p, new, delete=False):
    v = json.loads(json.dumps(v))
    if not p:
        return new
    c = v
    for k in p[:-1]:
        c = c[k]
    if delete:
        if isinstance(c, list):
            c.pop(p[-1])
        else:
            del c[p[-1]]
    else:
        c[p[-1]] = new
    return v


BUFFER_MEMBERS = {"k", "encrypted_key", "p2s", "apu", "apv", "x", "y", "d", "iv", "tag", "signature"}


def string_edits(s, rnd):
    out = []
    if s:
        out.append(("trunc-half", s[:len(s) // 2]))
        out.append(("trunc-1", s[:-1]))
        i = rnd.randrange(len(s))
        out.append(("flip", s[:i] + rnd.choice([c for c in ALPH if c != s[i]]) + s[i + 1:]))
        out.append(("nonalpha", s[:i] + rnd.choice(["!", "=", "+", "/", " ", "é", "."]) + s[i:]))
    out.append(("empty", ""))
    out.append(("ext-1100", s + "A" * 1100))
    out.append(("ext-66000", s + "A" * 66000))
    out.append(("pad=", s + "="))
    return out


def mutations_of(v, rnd, inner=True):
    """(kind, path label, mutated value) for one JSON argument: every position, every mutation kind"""
    out = []
    for kind, new in SUBST:
        out.append(("root:" + kind, "", new))
    for p in paths(v):
        label = "/".join("*" if isinstance(k, int) else k for k in p)
        old = get_at(v, p)
        out.append(("delete", label, set_at(v, p, None, delete=True)))
        for kind, new in SUBST:
            out.append(("subst:" + kind, label, set_at(v, p, new)))
        out.append(("wrap-array", label, set_at(v, p, [old])))
        if isinstance(old, str):
            out.append(("obj-for-string", label, set_at(v, p, {"x": old})))
            for kind, new in string_edits(old, rnd):
                out.append(("edit:" + kind, label, set_at(v, p, new)))
            if p and p[-1] in BUFFER_MEMBERS:
                # values that decode to exactly the capacity of the fixed buffers (KEYMAX, KEYMAX+16) and one step beyond
                for nbytes in (1024, 1025, 1040, 1041):
                    out.append(("edit:len-%d" % nbytes, label, set_at(v, p, G.b64(b"\x5a" * nbytes))))
            # the encoded protected header (or any member that is base64url of a JSON object): mutate inside
            if inner and p[-1] in ("protected",) and old:
                try:
                    h = json.loads(G.unb64(old))
                except Exception:
                    h = None
                if isinstance(h, dict):
                    for kind, lab, hv in mutations_of(h, rnd, inner=False):
                        if kind.startswith("root:"):
                            continue
                        out.append(("inner:" + kind, label + "~" + lab, set_at(v, p, G.b64(dumps(hv).encode()))))
        elif isinstance(old, (int, float)) and not isinstance(old, bool):
            for kind, new in (("neg", -1), ("big", 2 ** 31), ("bigger", 2 ** 53), ("zero", 0)):
                out.append(("num:" + kind, label, set_at(v, p, new)))
    return out


def rsa_gen_would_generate(t):
    """True when jose_jwk_gen on this template reaches RSA_generate_key_ex (slow): excluded from the stream"""
    if not isinstance(t, dict):
        return False
    kty, alg = t.get("kty"), t.get("alg")
    rsa = kty == "RSA" or (kty is None and isinstance(alg, str) and (alg.startswith(("RS", "PS", "RSA"))))
    if not rsa:
        return False
    bits = t.get("bits", 2048)
    if not isinstance(bits, int) or isinstance(bits, bool) or bits < 2048:
        return False
    e = t.get("e", 65537)
    if isinstance(e, bool) or e is None or isinstance(e, (float, list, dict)):
        return False        # fails (or crashes) before generating
    if isinstance(e, str):
        try:
            e = int.from_bytes(G.unb64(e), "big") if re.fullmatch(r"[A-Za-z0-9_-]*", e) and len(e) % 4 != 1 else 0
        except Exception:
            e = 0
    return e == 3 or (e % 2 == 1 and 65537 <= e < 2 ** 256)


def line(fn, args, extra):
    return "mem\t%s\t%s%s" % (fn, "\t".join("-" if a is NUL else dumps(a) for a in args), "".join("\t" + x for x in extra))


def gen(ctx, T, masked=()):
    tier, seed = ctx["tier"], ctx["seed"]
    rnd = random.Random(seed)
    dist = collections.Counter()
    cases, info = [], {}
    # stage 1: the valid calls themselves
    for fn, args, extra, tag in T:
        c = line(fn, args, extra)
        if c not in info:
            cases.append(c)
            info[c] = (fn, "valid", "", -1, tag)
            dist["valid calls"] += 1
    # stage 2: single structured mutations, stratified by (function, argument, member, mutation kind)
    strata = collections.defaultdict(list)
    skipped_rsa = 0
    nmasked = 0
    for ti, (fn, args, extra, tag) in enumerate(T):
        if ti in masked:
            nmasked += 1
            continue
        for ai, a in enumerate(args):
            if a is NUL:
                # an optional argument that was NULL: try every JSON type there too
                for kind, new in SUBST[:7]:
                    strata[(fn, ai, "", "null-arg:" + kind)].append((ti, ai, new))
                continue
            for kind, label, mv in mutations_of(a, random.Random(seed * 1000003 + ti * 31 + ai)):
                if fn == "jose_jwk_gen" and rsa_gen_would_generate(mv):
                    skipped_rsa += 1
                    continue
                strata[(fn, ai, label, kind)].append((ti, ai, mv))
    budget = 20000 if tier == "quick" else 500000
    keys_ = sorted(strata, key=lambda k: (k[0], k[1], k[2], k[3]))
    huge_budget = 400 if tier == "quick" else 20000
    for k in keys_:
        rnd.shuffle(strata[k])
    # round r takes the r-th candidate of every stratum: every stratum is covered before any gets a second case
    r = 0
    while len(cases) < budget:
        ks = [k for k in keys_ if len(strata[k]) > r]
        if not ks:
            break
        if len(cases) + len(ks) > budget:
            rnd.shuffle(ks)
            ks = ks[:budget - len(cases)] if r > 0 else ks
        for k in ks:
            is_huge = k[3].endswith("huge") or k[3].endswith("ext-66000")
            if is_huge:
                if huge_budget <= 0 or (r > 0 and tier == "quick"):
                    continue
                huge_budget -= 1
            ti, ai, mv = strata[k][r]
            fn, args, extra, tag = T[ti]
            a2 = list(args)
            a2[ai] = mv
            c = line(fn, a2, extra)
            if c in info:
                continue
            cases.append(c)
            info[c] = (fn, k[3], k[2], ai, tag)
            dist["mut " + k[3].split(":")[0]] += 1
        r += 1
        if r > 200:
            break
    # stage 3 (thorough): two mutations at once
    if tier == "thorough":
        n = min(60000, max(0, budget - len(cases)))     # the single mutations are exhausted around 120 000 cases
        allm = [(k, x) for k in keys_ for x in strata[k][:3] if not (k[3].endswith("huge") or k[3].endswith("ext-66000"))]
        for _ in range(n):
            (k1, (ti, ai, mv)) = rnd.choice(allm)
            fn, args, extra, tag = T[ti]
            a2 = list(args)
            a2[ai] = mv
            if isinstance(mv, (dict, list)) and paths(mv):
                ms = mutations_of(mv, rnd, inner=False)
                kind2, lab2, mv2 = rnd.choice(ms)
                if not kind2.endswith(("huge", "ext-66000")) and not (fn == "jose_jwk_gen" and rsa_gen_would_generate(mv2)):
                    a2[ai] = mv2
            c = line(fn, a2, extra)
            if c not in info:
                cases.append(c)
                info[c] = (fn, "double", k1[2], ai, tag)
                dist["double mutation"] += 1
    dist["excluded: RSA key generation"] = skipped_rsa
    dist["templates not mutated (valid call aborts)"] = nmasked
    return cases, info, dict(dist), len(keys_)


# ---------------------------------------------------------------------------- oracle

RAW = {}


def normalize(case, out):
    """drop what only one side can know: the verdict of functions without a functional model, the details of
    deltas, block counts (jansson blocks per node are an implementation detail), leak sites"""
    if case not in RAW:
        RAW[case] = out           # first call per case = the implementation's line (runner.standard)
    if out.startswith(("CRASH", "MISSING", "MODEL", "STUCK")):
        return out
    f = dict(x.split("=", 1) for x in out.split("\t") if "=" in x)
    fields = case.split("\t")
    fn = fields[1]
    # the model side does not evaluate very long inputs (quadratic extracted decoder): see ocaml/d_mem.ml
    v = f.get("V", "?") if (fn in MODELLED and sum(len(x) for x in fields) <= 4000) else "*"
    d = f.get("D", "?").split(":")[0]
    l = f.get("L", "?")
    l = "0" if l == "0" else ("?" if l == "?" else "+")
    m = "+" if f.get("LEAK") else "0"
    return "V=%s\tD=%s\tL=%s\tM=%s" % (v, d, l, m)


_DETAIL = {}


def crash_detail(hbin, env, case, raw, fn):
    """The runner keeps only the sanitizer's SUMMARY line.  To name the code site (and not the entry point that
    happened to reach it) the case is replayed once per distinct summary and the report is read: kind of fault,
    innermost frame, innermost frame inside lib/, and for stack-use-after-scope the function whose frame holds the
    variable."""
    key = (re.sub(r"0x[0-9a-f.]+|\(BuildId: \w+\)", "", raw), fn)
    if key in _DETAIL:
        return _DETAIL[key]
    sig = None
    try:
        import subprocess
        p = subprocess.run([hbin], input=case + "\n", stdout=subprocess.PIPE, stderr=subprocess.PIPE, text=True, env=env,
                           errors="replace", timeout=120)
        err = p.stderr
        m = re.search(r"ERROR: (?:AddressSanitizer|LeakSanitizer): ([\w-]+)", err)
        kind = m.group(1) if m else None
        if kind is None:
            m = re.search(r"runtime error: ([^\n]*)", err)
            kind = "ubsan:" + re.sub(r"0x[0-9a-f]+|\d+", "N", m.group(1))[:60].strip().replace(" ", "-") if m else None
        frames = re.findall(r"#\d+ 0x[0-9a-f]+ in (\S+) (\S+)", err)
        trace = []
        for f, path in frames:
            if f.startswith("__interceptor_") or f.startswith("__asan") or f.startswith("__sanitizer"):
                continue
            trace.append((f, path))
            if f == "c_mem" or "/harness/" in path:
                break
        lib = [f for f, path in trace if "/lib/" in path and ".c:" in path and "/harness/" not in path and not path.startswith("(")]
        top = trace[0][0] if trace else None
        parts = []
        for x in ([top] if top else []) + lib[:1]:
            if x and x not in parts:
                parts.append(x)
        m = re.search(r"in frame\s*\n\s*#0 0x[0-9a-f]+ in (\w+) (\S+)", err)
        if kind and parts:
            fr = ""
            if m:
                fr = ":frame=%s@%s" % (m.group(1), os.path.basename(m.group(2)).split(":")[0])
            sig = "san:%s:%s%s" % (kind, "<".join(parts), fr)
    except Exception:
        sig = None
    _DETAIL[key] = sig
    return sig


_NDETAIL = [0]
_KNOWN_SITES = set()


def leak_detail(hbin, env, case):
    """The main run uses ASan's fast (frame-pointer) unwinder, which stops at the first frame of jansson / libcrypto
    (built without frame pointers): a leak found there is replayed alone with the slow unwinder to name the site."""
    _NDETAIL[0] += 1
    if _NDETAIL[0] > 40:
        return {}
    try:
        import subprocess
        e = dict(env)
        e["ASAN_OPTIONS"] = e["ASAN_OPTIONS"] + ":fast_unwind_on_malloc=0"
        p = subprocess.run([hbin], input=case + "\n", stdout=subprocess.PIPE, stderr=subprocess.PIPE, text=True, env=e,
                           errors="replace", timeout=120)
        f = dict(x.split("=", 1) for x in p.stdout.strip().split("\t") if "=" in x)
        return f
    except Exception:
        return {}


def make_oracle(rep, info, hbin=None, env=None):
    def oracle(case, out):
        raw = RAW.get(case, out)
        fn, kind, label, ai, tag = info.get(case, (case.split("\t")[1], "?", "", -1, "?"))
        where = "%s(arg %d%s, %s)" % (fn, ai, " member " + label if label else "", kind)
        if raw.startswith("CRASH"):
            sig = crash_detail(hbin, env, case, raw, fn) if hbin and "TIMEOUT" not in raw else None
            if sig is None:
                m = re.match(r"CRASH SAN (\w+):? ([\w-]+) (\S+?)(?::\d+)*(?: .*?)? in (\w+)", raw)
                if m:
                    sig = "san:%s:%s:%s" % (m.group(2), m.group(4), fn)
                else:
                    sig = "crash:%s:%s" % (fn, re.sub(r"0x[0-9a-f.]+|\d{3,}|\(BuildId: \w+\)", "N", raw[6:90]))
            return (sig, "sanitizer report / crash in %s: %s" % (where, raw[:300]))
        if raw.startswith(("MISSING", "UNBOUND", "USAGE")):
            return ("harness:" + raw[:20], "harness problem for " + case[:100])
        f = dict(x.split("=", 1) for x in raw.split("\t") if "=" in x)
        d = f.get("D", "0")
        if d.split(":")[0] != "0":
            det = d.split(":", 1)[1] if ":" in d else ""
            first = det.split(";")[0]
            node, delta = (first.rsplit("=", 1) + ["?"])[:2]
            node = re.sub(r"/\d+", "/*", node)
            sig = "refcount:%s:%s:%s" % (fn, node, "dropped" if delta.startswith("-") else "extra")
            return (sig, "reference count of a caller-owned node changed by %s in %s: %s" % (delta, where, det[:300]))
        res = None
        if hbin and any("?" in f.get(k, "") for k in ("JLEAK", "LEAK")):
            g = leak_detail(hbin, env, case)
            for k in ("JLEAK", "LEAK"):
                if g.get(k) and "?" not in g[k]:
                    f[k] = g[k]
        for fld, what in (("JLEAK", "jansson value"), ("LEAK", "malloc'ed block")):
            for site in [s for s in f.get(fld, "").split(",") if s]:
                if site == "?" and (_KNOWN_SITES or res):
                    # found by the fast unwinder only (no frame of lib/ in the truncated stack) and not reproduced
                    # by replaying the case alone: LeakSanitizer noticed it late; a named leak is already reported
                    continue
                _KNOWN_SITES.add(site)
                sig = "leak:%s" % site
                desc = "%s allocated at %s (innermost lib/ frame < first lib/ frame outside b64.c, io.c, openssl/misc.c; H: = allocated by the harness itself and kept alive by a library object) is never released; seen after %s" % (what, site, where)
                if res is None:
                    res = (sig, desc)
                else:
                    rep.violation(sig, desc, {"case": case[:4000], "implementation": raw[:1000]})
        if res:
            return res
        if f.get("L", "0") not in ("0", "?"):
            return ("leak:jansson-blocks:%s" % fn, "%s jansson block(s) allocated during the call are still alive after everything was released: %s" % (f.get("L"), where))
        return None
    return oracle


def nontrivial(case, out):
    return out.startswith("V=") and "D=0" in out


def correspond(ctx):
    rep = ctx["rep"]
    bdir = ctx["bdir"]
    # 1. every JSON-consuming export has a binding
    exported, unknown, allnames = exported_json_functions(vlib.REPO)
    consumers = [n for n in exported if n not in NOT_CONSUMERS]
    bound = vlib.run_cases(os.path.join(bdir, "h"), ["mem\t?list"], shards=1)[0].split()
    missing = [n for n in consumers if n not in bound]
    if missing or unknown:
        rep.violation("binding:" + ",".join(missing + unknown)[:80],
                      "exported function(s) that take or return JSON and have no binding in harness/h_mem.c (or no prototype found): %s" % ", ".join(missing + unknown),
                      {"broken": "harness coverage of lib/libjose.map", "missing": missing, "no_prototype": unknown}, found=False)
    # 2. the hand-written list of decoder call sites is the list in the source
    src_sites = b64_dec_callsites(vlib.REPO)
    coq_sites = buffers_in_coq()
    if [tuple(x) for x in src_sites] != [tuple(x) for x in coq_sites]:
        new = [s for s in src_sites if tuple(s) not in set(map(tuple, coq_sites))]
        gone = [s for s in coq_sites if tuple(s) not in set(map(tuple, src_sites))]
        rep.violation("buffers:callsites",
                      "the call sites of jose_b64_dec/_buf with an output buffer in lib/ are not the ones proved in coq/Mem/Buffers.v: new/changed %s ; no longer present %s" % (new[:5], gone[:5]),
                      {"broken": "coq/Mem/Buffers.v call-site list", "new": new, "gone": gone}, found=False)
    # 3. the calls
    rnd = random.Random(ctx["seed"])
    # the valid objects are produced with the default sanitizer build: in the 'full' build every one-shot
    # encryption aborts (use-after-scope in jose_jwe_enc_cek), which the mem run reports by itself
    tb = ctx.get("template_bdir")
    if not tb:
        try:
            tb = vlib.build("san")
        except vlib.BuildError:
            tb = bdir
    T, problems, keys = build_templates(tb, rnd, ctx["tier"])
    env_extra = {"ASAN_OPTIONS": vlib.SAN_ENV["ASAN_OPTIONS"].replace("detect_leaks=0", "detect_leaks=1") + ":leak_check_at_exit=0:report_objects=1"}
    hbin = os.path.join(bdir, "h")
    # when the VALID call of a template already aborts (sanitizer report), its mutations would all abort the same
    # way (one process restart and one symbolized report each): the valid call is reported, they are not run, and counted
    masked = set()
    aborted = {}
    order = random.Random(ctx["seed"] + 7)
    if True:
        valid = [line(fn, args, extra) for fn, args, extra, tag in T]
        idx = list(range(len(valid)))
        order.shuffle(idx)                      # spread the aborting calls over the shards
        vo = vlib.run_cases(hbin, [valid[i] for i in idx], env_extra=env_extra)
        for i, o in zip(idx, vo):
            if o.startswith("CRASH"):
                masked.add(i)
                aborted[valid[i]] = o
    cases, info, dist, nstrata = gen(ctx, T, masked)
    dist["template problems"] = len(problems)
    dist["valid calls that abort (reported; they and their mutations are not run again)"] = len(masked)
    RAW.clear()
    _NDETAIL[0] = 0
    _KNOWN_SITES.clear()
    _DETAIL.clear()
    env = dict(os.environ)
    env.update(vlib.SAN_ENV)
    env.update(env_extra)
    oracle = make_oracle(rep, info, hbin, env)
    for c, o in sorted(aborted.items()):
        RAW[c] = o
        v = oracle(c, o)
        if v:
            rep.violation(v[0], v[1], {"case": c, "implementation": o[:4000], "model": None})
    cases = [c for c in cases if c not in aborted]
    order.shuffle(cases)                        # balance the shards (huge inputs, aborting cases)
    st = runner.standard(
        ctx, cases, oracle, nontrivial,
        rule="valid JWS/JWE/JWK objects of every registered algorithm produced by the library, then single structured mutations (deletion, 8-way type substitution of every member at every depth incl. inside the encoded protected header, string edits (incl. values decoding to exactly 1024/1025/1040/1041 octets for every member that feeds a fixed buffer), nesting changes, NULL-able arguments of every type) on every argument position of the %d JSON-consuming exports + 2 internal glue functions; %d strata (function, argument, member, mutation kind), every stratum sampled; per call: ASan+UBSan(use-after-scope)+LSan, jansson allocator counted/poisoned, reference counts of all caller nodes compared; non-trivial = call completed with all counts intact" % (len(consumers), nstrata),
        dist=dist, normalize=normalize, env_extra=env_extra,
        exhaustive_subspaces=["every (function, argument position, member path, mutation kind) stratum of the template set has at least one case (except the strata of templates whose valid call aborts: those are reported and counted)"])
    # the same calls WITHOUT the harness' extra references (every valid call and a tenth of the mutations): a node that
    # the library releases once too often is then really freed, and the sanitizer reports the later access
    rnp = random.Random(ctx["seed"] + 9)
    np_cases = ["memnp" + c[3:] for c in cases if c.startswith("mem\t") and (info[c][1] == "valid" or rnp.random() < 0.1)]
    for c, o in zip(np_cases, vlib.run_cases(hbin, np_cases, env_extra=env_extra)):
        if o.startswith("CRASH"):
            fn = c.split("\t")[1]
            m = re.search(r"SAN \w+ ([\w-]+)", o)
            rep.violation("unpinned:%s:%s" % (m.group(1) if m else "crash", fn),
                          "%s on arguments owned by the caller alone (no extra references held by the harness): %s" % (fn, o[:300]),
                          {"case": c[:3000], "implementation": o[:600]})
        else:
            pinned = RAW.get("mem" + c[5:], "")
            vp, vn = re.search(r"V=(\w+)", pinned), re.search(r"V=(\w+)", o)
            if vp and vn and vp.group(1) != vn.group(1):
                fn = c.split("\t")[1]
                rep.violation("unpinned:verdict-differs:" + fn,
                              "%s returns %s when the harness holds extra references to the arguments and %s when the caller alone owns them: the call's behaviour depends on memory it has already released (the counting allocator poisons freed blocks)" % (fn, vp.group(1), vn.group(1)),
                              {"case": c[:3000], "implementation": o[:300], "pinned": pinned[:300]})
                continue
            m = re.search(r"L=(\d+)", o)
            if m and m.group(1) != "0":
                fn = c.split("\t")[1]
                rep.violation("unpinned:leak:" + fn, "%s leaves %s jansson block(s) allocated after everything was released" % (fn, m.group(1)), {"case": c[:3000], "implementation": o[:300]})
    st["evaluations"] += len(np_cases)
    st["dist"]["calls repeated without the harness' pins"] = len(np_cases)
    # members of several MEGABYTES (12 Mi characters: more than a thread's stack): signature, encrypted_key, tag, iv, the key's
    # own members -- a buffer sized by such a member must come from the heap (or be refused), never from the stack
    huge = "A" * (12 << 20)
    hcases, seen_h = [], set()
    for fn, args, extra, tag in T:
        if fn not in ("jose_jws_ver", "jose_jws_ver_io", "jose_jwe_dec", "jose_jwe_dec_jwk", "jose_jwe_dec_io") or ":" in tag.split(":", 2)[-1] and tag.count(":") > 2:
            continue
        a0 = args[0]
        if not isinstance(a0, dict):
            continue
        for m in ("signature", "encrypted_key", "tag", "iv"):
            if isinstance(a0.get(m), str) and (fn, tag.split(":")[1] if ":" in tag else tag, m) not in seen_h:
                seen_h.add((fn, tag.split(":")[1] if ":" in tag else tag, m))
                hcases.append((line(fn, [dict(a0, **{m: huge})] + list(args[1:]), extra), fn, tag, m))
    hcases = hcases[:40] if ctx["tier"] == "quick" else hcases
    for (c, fn, tag, m), o in zip(hcases, vlib.run_cases(hbin, [x[0] for x in hcases], env_extra=env_extra, timeout_case=120)):
        if o.startswith("CRASH TIMEOUT"):
            # slow is not unsafe: A*GCMKW decrypts the whole wrapped key octet by octet (minutes under ASan for 9 MB);
            # the time bound is C14's subject, memory safety is what is judged here
            st["dist"]["calls with a member of 12 Mi characters that ran into the time limit (no verdict)"] = st["dist"].get("calls with a member of 12 Mi characters that ran into the time limit (no verdict)", 0) + 1
            continue
        if o.startswith("CRASH"):
            mm = re.search(r"SAN \w+ ([\w-]+)", o)
            rep.violation("huge-member:%s:%s:%s" % (mm.group(1) if mm else "crash", fn, m),
                          "%s (%s) with a \"%s\" member of 12 Mi characters: %s" % (fn, tag, m, o[:300]), {"case": c[:300] + " ... (member %s = 12582912 x 'A')" % m, "implementation": o[:600]})
    st["evaluations"] += len(hcases)
    st["dist"]["calls with a member of 12 Mi characters"] = len(hcases)
    # valid templates must be valid: a refused valid call means the generator (not the library) is wrong
    bad = [c for c in cases if info[c][1] == "valid" and info[c][0] not in ("jose_b64_dec", "jose_b64_dec_load", "jose_b64_enc_dump", "jose_jwk_prm", "jose_jwk_eql", "zip_in_protected_header")
           and "V=fail" in RAW.get(c, "")]
    st["dist"]["valid calls refused"] = len(bad)
    if problems or bad:
        rep.notes.append("template problems: %s ; refused valid calls: %s" % (problems[:5], [b[:120] for b in bad[:5]]))
    st["evaluations"] += len(aborted)
    st["refuted"] = [t for t in vlib.theorems_of(PROP_FILE) if t.endswith("_refuted")]
    st["bound_functions"] = bound
    return st
