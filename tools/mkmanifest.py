#!/usr/bin/env python3
"""Writes MANIFEST.json from the per-property table below (kept in one place so
that it stays valid and consistent)."""
import json, os
ROOT = os.path.dirname(os.path.dirname(os.path.abspath(__file__)))

CLAIMED = {
    "C08": dict(
        category="proof",
        text="Theorems in coq/Props/Properties_C08.v (proved for all byte strings / texts / output sizes, no hypotheses) about a shape-for-shape Gallina model of lib/b64.c over the alphabet and block sizes regenerated from the source on every run: round trips, canonicity, rejection classes, length maps, refinement of the C loops to the RFC 4648 specification, write bounds, look-ahead in range, size query. Tie: extracted model vs jose_b64_{enc,dec}_buf on canaried buffers (exhaustive small sub-spaces + seeded random to 64 KiB), plus an independent Python oracle for the search. Also exercised: the JSON-string / load / encode / dump forms on the same texts (embedded NUL, non-strings, documents of 400..70000 octets), all two-feed splits of the streaming encoder and decoder on texts longer than the internal blocks.",
        design_ref="DESIGN.md section 3 C08",
        note="Coq kernel + vm_compute sweeps; no axioms; C compiler/ABI and the ol = SIZE_MAX corner not modelled; correspondence is differential testing.",
        technique="Coq proof (induction by 3/4-byte groups, vm_compute digit sweeps) + extracted-model correspondence",
    ),
}

CLAIMED["C07"] = dict(
    category="proof",
    text="Theorems in coq/Props/Properties_C07.v about an executable Gallina model of lib/io.c (sinks, multiplexer) and of the staging loops of lib/b64.c: the streaming base64url stages equal the one-shot codec for EVERY split into feeds (induction over chunk lists, no bound); the chunking theorem C07_chunking for every chain of lawful stages, sinks and arbitrarily nested multiplexers (structural induction on the chain); failure propagation; buffer capacity invariant; any/all multiplexer verdicts and dropped branches. OpenSSL/zlib-backed stages enter through the stream law (accumulate-then-emit stages proved outright; incremental ones under the prefix-extension hypothesis). Tie: extracted model vs chains built from the public constructors plus a fault-injecting sink, all compositions of short inputs, boundary lengths, every fault position. Also exercised: per-branch metamorphic oracle (a branch inside a multiplexer delivers what it delivers alone) and verdict oracle (any = OR, all = AND); deflate / inflate stages (implementation only): chunkings, exact buffer capacity behind the compressor, faults at feed and done. The streaming content encryptor jose_jwe_enc_io (with and without the deflate stage) is fed the plaintext in chunkings around the block sizes 16/48/64/4096 and its product decrypted by jose and by the Gallina decryptor. What a multiplexer does AFTER a branch has failed (all-mode stays failed, a released branch receives nothing further, any-mode goes on with the rest) is proved on the per-call model coq/Io/Step.v (C07_step_*, incl. agreement with the whole-run model up to the first refusal) and compared with the code by chainx sessions that feed on after a refusal.",
    design_ref="DESIGN.md section 3 C07",
    note="Coq kernel; no axioms; hypothesis of C07_prefix_stream (output of a cipher/deflate stage for a longer input extends that for a prefix) is a property of OpenSSL/zlib, not proved; the model's list-at-once semantics is tied to the per-call C code by the correspondence only.",
    technique="Coq proof (induction on chunk lists and on chain structure) + extracted-model correspondence with fault injection",
)

CLAIMED["C16"] = dict(
    category="proof",
    text="Theorems in coq/Props/Properties_C16.v about a Gallina model of add_entity() (lib/openssl/misc.c) and encode_protected() (lib/misc.c): one step (C16_step) and any history (C16_history, induction over the list of additions, unbounded) keep the object in exactly one RFC form -- flattened iff one entry, general iff more, an empty list counts as absent --, entries appear in the order added, migration moves the existing entry unchanged, other members are untouched, an encoded protected header is never altered. Tie: extracted model vs the real add_entity/encode_protected on all histories of length <= 4 over 5 templates from 6 start shapes (both flavours), malformed inputs of every JSON type, long random histories; independent Python oracle for the search. Also exercised: end-to-end jose_jwe_enc with key sets x template forms (general form, no shared per-recipient parameters, every recipient decrypts); `jose jws sig` adding a signature to an existing JWS in six input forms; already-encoded protected headers of every flavour (CRLF, unsorted, spaced, escaped, duplicate members, not JSON, not base64url) kept verbatim.",
    design_ref="DESIGN.md section 3 C16",
    note="Coq kernel; no axioms; JSON modelled as immutable trees (jansson aliasing between appended object and caller's object not represented); premises: no duplicate member names, each addition carries an entry member.",
    technique="Coq proof (case analysis on forms, induction over histories) + extracted-model correspondence",
)

CLAIMED["C05"] = dict(
    category="proof",
    text="Theorems in coq/Props/Properties_C05.v: jose_jwk_prm (model over the operation table regenerated from the running registry) EQUALS the RFC 7517 grant formula of the property for every JSON object and operation name (C05_prm_spec; the table itself is proved to be RFC 7517's eight operations); at sign, verify, unwrap, content encryption, content decryption and exchange the decision models refuse EVERY pair of different strings (header/peer alg vs key alg), independent of the registered algorithms and of lexicographic order; an operation that proceeds was granted. Tie: the decision models run with ideal primitives built from the regenerated registry vs the real entry points on complete grids (all ordered name pairs incl. foreign names; all 2^8 key_ops subsets x use x op x req), objects produced by the library with keys valid for the header algorithm so that a skipped comparison shows as acceptance. Also exercised: use/key_ops enforced at every entry point (sign, verify, wrap, unwrap for five families, content encryption, both keys of ECDH and ECMR) over 10 metadata shapes; content decryption with enc in the unauthenticated shared header only. The operation every registered algorithm asks for is compared with a documented table (independent of the registry of the code under test), and every symmetric key-wrapping algorithm is in the entry-point grid.",
    design_ref="DESIGN.md section 3 C05",
    note="Coq kernel; no axioms; the models of the entry points' decision prefixes are hand-written and tied by correspondence; jose_jwe_enc_jwk (wrapping) is not in the property's list.",
    technique="Coq proof (boolean case analysis over the generated table; unfolding of decision prefixes) + exhaustive-grid correspondence",
)

CLAIMED["C06"] = dict(
    category="proof",
    text="Theorems in coq/Props/Properties_C06.v about a Gallina model of jwk_clean/jose_jwk_pub over the type and operation tables regenerated from the running registry: after a successful export no key holds any private member of its type (and the generated lists are proved to cover RFC 7518 section 6: oct k; RSA d p q dp dq qi oth; EC d), every other member is unchanged, key_ops loses exactly the private operations (all eight for symmetric keys), the export is idempotent, the RFC 7638 thumbprint input of asymmetric keys is unchanged, arrays and JWKSets of any length are exported element-wise (induction on the list). Tie: extracted model vs jose_jwk_pub on all subsets of present private members x extras x key_ops variants x kty spellings x nestings, with an independent Python oracle. Produced JWS/JWE objects are scanned for key material by the C03/C04 runs. Also exercised (implementation only): every object the library produces while holding private keys -- all signature and key-management algorithms x header placements, ECDH-ES ephemeral keys, exchanges -- scanned at every depth and inside encoded headers for private member names and copies of secret values.",
    design_ref="DESIGN.md section 3 C06",
    note="Coq kernel; no axioms; objects without duplicate member names; the 'produced objects' half is a structural/runtime check, confidentiality of ciphertexts is not claimed.",
    technique="Coq proof (association-list lemmas, vm_compute over the generated tables, induction on key lists) + extracted-model correspondence",
)

CLAIMED["C11"] = dict(
    category="proof",
    text="Theorems in coq/Props/Properties_C11.v about a statement-by-statement Gallina model of jose_jwk_gen (the 12 preparation hooks in the running order dumped from the harness, the oct/RSA/EC makers, the post-processing): an accepted template is consistent and every contradictory / unsupported / too-small / nothing-generable template is rejected (both directions: C11_accepted_is_consistent, C11_rejects, C11_accepts_iff); the algorithm-implied kty/crv/bytes table is RFC 7518's; an oct key's k is exactly the first n drawn octets with n the requested or implied size (any other 'bytes', 0 included, is a contradiction); RSA: 2048 <= bits <= 16384 on the 64-bit value, exponent accepted iff 3 or odd in [2^16, 2^256) and never negative, members are the generated numbers; generation-only members are gone for every accepted template; key_ops inferred exactly per algorithm kind and left alone when use/key_ops is given; other members pass through; required members present. What OpenSSL's generators deliver enters as Section hypotheses (modulus of 2*(bits/2) bits, n = pq, ed = 1 mod lcm, CRT members; d G = Q on the requested curve) which python re-checks on every generated key. Tie: ~3 600 templates (every registered algorithm x kty/crv/bits/bytes/e incl. boundaries, with/without use/key_ops) on jose_jwk_gen vs the extracted model after masking random material; every accepted key is used once with its algorithm; freshness (keys, CEKs, IVs, salts, epks never repeat) over ~2 100 pairwise checks. Also exercised: two-recipient encryptions with the randomised recipient in second position (salt / epk / iv fresh for every recipient); generation after an earlier key was exported in place (independence of successive generations). Since /repo ae0155e a generated RSA key whose size differs from the request is refused: C11_rsa_consistent states size = bits, C11_rsa_odd_size_refused that odd sizes are refused under OpenSSL's rounding.",
    design_ref="DESIGN.md section 3 C11",
    note="PARTIAL for freshness: a property of OpenSSL's RNG, checked dynamically only (no deterministic-RNG hook). Open known findings: a key generated for alg 'dir' does not work with dir; odd RSA sizes are rounded down by OpenSSL.",
    technique="Coq proof on a statement-level model of the generation hooks (generators as Section hypotheses) + extracted-model correspondence with masked randomness and use-the-key oracle",
)

CLAIMED["C12"] = dict(
    category="proof",
    text="Theorems in coq/Props/Properties_C12.v about Gallina models of jwk_str/jose_jwk_thp/_thp_buf/jose_jwk_eql over the regenerated type table: the digest input holds exactly kty and the RFC 7638 required members (the generated lists are proved equal to RFC 7638's), ignores all other members, is the same for a key and its public half, string and buffer forms agree and the size query is the digest length; equality is exactly 'type known, kty and required members present and json_equal', is reflexive/symmetric/transitive (json_equal itself is proved an equivalence on duplicate-free values by induction on JSON trees), and a key without thumbprint equals nothing. Tie: extracted model (with Gallina SHA-1/2) vs the real functions on generated keys incl. non-ASCII/escaped/non-string members, all hash names, buffer sizes 0..65, pairs and triples; Python hashlib oracle. Also exercised (implementation only): JWK -> EVP_PKEY / EC_KEY / RSA -> JWK round trips of python-built EC keys whose x / y / d start with a zero octet on four curves and of RSA keys: members, thumbprint and equality preserved; pairs that differ only in the letter case of kty. The conversions to and from OpenSSL key objects are modelled in coq/Jwk/Conv.v: canonical RSA / EC / oct keys come back with every key member equal, hence same thumbprint and equality (C12_conv_*_roundtrip); incomplete factor / CRT groups are refused, never dropped (C12_conv_never_drops); the boundaries (leading zero octets renormalised, coordinates >= p reduced, oth dropped, empty k refused) are stated as theorems, four of them as _refuted readings; the osslrt lines of the harness are compared with the model.",
    design_ref="DESIGN.md section 3 C12",
    note="Coq kernel; no axioms; NOT proved: injectivity of the JSON dump and collision-freeness of SHA (so 'equal iff same thumbprint' is shown as 'decided by the same members'); jose/openssl.h conversions are checked on the implementation only.",
    technique="Coq proof (induction on JSON trees, table lemmas by vm_compute) + extracted-model correspondence with an independent hashlib oracle",
)

CLAIMED["C15"] = dict(
    category="proof",
    text="Theorems in coq/Props/Properties_C15.v about Gallina models of jose_jws_hdr/jose_jwe_hdr, find_alg (JWS), jwe_hdr_set_new and the zip lookup: for every parameter name the merged header is first-of(protected, [shared unprotected,] per-recipient/unprotected) whether protected is an object, encoded text or absent; zip is read from the encoded protected header only; a caller-supplied alg is the one applied and the object is left as is; an inferred alg is the first suggestion in registry order and is written into the protected header; an inferred enc goes into protected while that is an object, else into shared unprotected. The suggestion hooks (all families) are transcribed in Jose/Suggest.v. Tie: extracted models vs the real functions on every presence pattern x protected form, every key type/size/curve with/without alg, password lengths 0..41, and the recording paths of sign / content-encrypt / wrap. Also exercised: one template applied to several keys with differing inferred algorithms (metamorphic: each key alone); which content algorithm was APPLIED (IV size, product decrypts); conflicting apu / apv / p2c / alg / enc in two headers end to end; an inferred algorithm must be in the protected header.",
    design_ref="DESIGN.md section 3 C15",
    note="Coq kernel; no axioms; header objects without duplicate names; primitives ideal in the recording models (which primitive runs behind a recorded name is C03/C04).",
    technique="Coq proof (fold lemmas for json_object_update_missing, case analysis) + extracted-model correspondence",
)

CLAIMED["C01"] = dict(
    category="proof",
    text="Theorems in coq/Props/Properties_C01.v about a Gallina model of jose_jws_ver_io/jose_jws_ver (lib/jws.c) built on the IO-chain model of C07, for ANY list of signature algorithms: C01_verdict -- for every split of the payload into feeds, the verdict of the final done() equals a closed-form function (any/all over keys of any-over-signature-objects of: key permitted, algorithm = merged header's or key's declared one, primitive check over exactly protected || '.' || payload with exactly the decoded signature); one-shot = streamed; soundness read off that function; the vacuous cases (empty key set, empty/absent signature list, absent signature, unknown algorithm such as 'none') fail. Tie: extracted model with Gallina HMAC-SHA2 vs the library on library-produced tokens, every key-set shape and mode, single-character mutations of payload/protected/signature/key, structural mutations, all compositions of the payload into feeds; RSA/PSS/ECDSA tokens evaluated on the BigZ model inside coqc. Also exercised: a non-string protected member injected into tokens signed with an unprotected header only; private-form EC/RSA keys whose public members were altered; truncated / empty MACs.",
    design_ref="DESIGN.md section 3 C01",
    note="Coq kernel; no axioms in the theorems (Bignums' primitive Int63 ops only in the executable public-key instance); unforgeability of the primitives is cryptography and assumed; empty-signature rejection needs a per-algorithm fact.",
    technique="Coq proof (reduction of the verifier IO object to a closed-form verdict via the C07 multiplexer theorems) + extracted-model / vm_compute correspondence with mutation",
)

CLAIMED["C19"] = dict(
    category="proof",
    text="A reference interpreter of 'jose fmt' written from the manual (coq/Cli/Fmt.v: options, a store of shared mutable values, the -X flag, stdout; set-valued where the manual is silent) with theorems in coq/Props/Properties_C19.v proved for all programs: exit status = 1-based index of the first failing option and nothing executed or printed after it; type-error table; frame lemmas for every option letter (which stack cell / store node changes, everything else unchanged); -X applies exactly once; index conversion; truncation. Tie (translation-validation style): the built jose binary vs the extracted interpreter on all programs of length <= 2 over a 70-instance option alphabet after 6 prefixes plus seeded random programs; the binary's (status, stdout) must lie in the allowed set; disagreements are shrunk to minimal programs. Since /repo 44b7a8d the options that store a reference refuse to close a cycle; coq/Cli/FmtAcyclic.v proves that no reachable state holds a value containing itself (C19_acyclic_*), so -o/-f/-c/-E are total on reachable states.",
    design_ref="DESIGN.md section 3 C19",
    note="Coq kernel; no axioms; the reference semantics is the reader's transcription of the manual (the silent spots are listed in coq/Cli/C19_NOTES.md); getopt and file/tty handling are exercised, not modelled; exit status is 8 bits (programs <= 255 options).",
    technique="Coq proof about a reference semantics + differential check of the binary against the extracted interpreter (outcome-set membership)",
)

CLAIMED["C03"] = dict(
    category="proof",
    text="Theorems in coq/Props/Properties_C03.v: the product of jose_jws_sig (model in Jose/Jws.v, Jose/SigAlgs.v) is the RFC 7515 construction -- algorithm chosen and recorded as in C15, protected header encoded once and used verbatim, signing input protected || '.' || payload, signature member = base64url of the signature octets (which decodes back), merged by add_entity (C16); the verifier (C01) evaluates the primitive on the same bytes; the HMAC family satisfies verify(sign(m)); RFC 7515 A.1 is reproduced bit for bit inside the kernel (vm_compute). Tie, both directions: jose's HMAC products compared bit for bit with the extracted model and with python hmac over key sizes 0..1025, every algorithm source, template form, start form, key sets; jose's RSA/PSS/ECDSA products verified by the independent BigZ implementation (for RSASSA-PKCS1-v1_5 this is bit-identity: s^e mod n = EM); tokens produced by the model (HMAC; ECDSA with supplied nonce) and all RFC 7515 / RFC 7520 section 4 examples verify in jose. Also exercised: 300 ECDSA products per curve checked for full-width r||s and verified by an independent python verifier; key sets signed with one template (per-key HMAC recomputation); several signatures of one algorithm verified with every key alone, in both orders and in all-mode. The streaming signer jose_jws_sig_io fed the payload text in arbitrary chunks is compared with the one-shot call (HMAC bit for bit; ECDSA/RSA products verified).",
    design_ref="DESIGN.md section 3 C03/C04",
    note="Coq kernel; no axioms in the theorems (Int63 primitives only inside the BigZ evaluation); primitive laws for RSA/ECDSA and JSON parse(dump)=id are assumed/validated, not proved; Gallina primitives validated on standard vectors.",
    technique="Coq proof (unfolding of the signing pipeline, base64 round trip) + bit-exact correspondence and cross-verification with independent Gallina primitives (extracted and vm_compute/BigZ)",
)

CLAIMED["C09"] = dict(
    category="proof",
    text="PARTIAL by nature: memory safety of C text cannot be proved with what is installed (no C semantics). What IS proved (coq/Props/Properties_C09.v, ownership model coq/Mem/Own.v: heap of reference-counted nodes, programs in a state monad whose failure is 'use or release of a freed node'): for EVERY caller JSON tree (any type of any member at any depth) the header-merge and protected-header glue -- jose_jws_hdr, jose_jwe_hdr, the prologue of jose_jwe_dec_cek_io, encode_protected, zip_in_protected_header, the zip epilogue of jose_jwe_enc_cek_io -- never touches a freed node and gives back every reference (the caller's heap is restored exactly, nothing created survives); jwe_hdr_set_new on a kernel-computed sweep of all kinds; IO chains release their downstream; regression witnesses for the four repaired defects; and for the 25 decoder call sites with fixed buffers: under the recorded guard the requested length <= capacity so every decoder write lands inside (from C08's dec_buf_bounds). What decides the C text: every one of the 29 JSON-consuming exports (re-read from libjose.map on every run) + 2 internal glue functions called under ASan(use-after-scope)+UBSan+LSan with a counting/poisoning jansson allocator and reference-count comparison of every caller node, on valid objects of every registered algorithm and ~19 000 single structured mutations stratified over ~9 600 (function, argument, member, mutation kind) strata; the glue programs are compared with the extracted model. Also exercised: values decoding to exactly 1024/1025/1040/1041 octets for every member that feeds a fixed buffer; start objects with empty / existing signature and recipient lists, key sets with template forms; every valid call and a tenth of the mutations repeated WITHOUT the harness' extra references (sanitizer report, leak count, verdict equal to the pinned run).",
    design_ref="DESIGN.md section 3 C09",
    note="The theorems are about hand-translated programs (C statement beside every line) over a model of jansson's reference counting; UB-freedom / leak-freedom of the compiled C code is OBSERVED by sanitizers on the explored inputs, not proved. find_alg and the jcmd ios arrays are not modelled.",
    technique="Coq proof on an ownership (reference-count) model of the JSON glue and on buffer-guard obligations + sanitizer-instrumented stratified mutation run compared with the extracted model",
)

CLAIMED["C10"] = dict(
    category="proof",
    text="Theorems in coq/Props/Properties_C10.v: whatever passes the key tests that the models of sign/verify/encrypt/decrypt/wrap/unwrap/exchange perform before any cryptography satisfies the RFC 7518 requirement -- HMAC keys decode to between hash-size and KEYMAX octets; content keys are exactly 16/24/32 (GCM) or 32/48/64 (CBC-HMAC) octets and the content algorithms only ever run with a key of exactly that length; key-wrapping keys exactly 16/24/32; PBES2 passwords and wrapped keys bounded by KEYMAX; RSA signature keys have a modulus of at least 256 octets on both sides; an imported EC key names one of the four curves, its (reduced) coordinates satisfy the curve equation and a present d is in [1,n) with dG = (x,y); ECDH needs two valid keys and a private value. Tie: every length 0..1100 (+2048, 4096) of HMAC keys offered to signing and to verification of a MAC made with that very key; CEK/KEK length grids on the producing side; tokens made with the exact key consumed with every truncation/extension; RSA moduli 512..2056 bits (committed corpus) for signing and for verification of valid signatures made with python; per curve ~30 EC key variants (off-curve, swapped, other curve, wrong width, x+p, d+1, d=0, d=n, d+n, unknown crv, malformed) through sign, verify, ECDH-ES wrap/unwrap, exchange; symmetric model extracted, public-key model over BigZ in coqc; independent python arithmetic as oracle. ECDH-ES direct agreement: unwrapping with every private-key variant and with the token's epk replaced by every public-key variant (no wrapped key whose integrity check could hide a wrong derivation).",
    design_ref="DESIGN.md section 3 C10",
    note="Coq kernel + vm_compute; Print Assumptions lists only the Int63 primitives of Bignums for the theorems that mention the BigZ instance. EC_KEY_check_key and RSA import are modelled (see ASSUMPTIONS in the evidence); OpenSSL reduces supplied coordinates modulo p, so x+p denotes the same (valid) point and is accepted -- modelled as such.",
    technique="Coq proof on key-acceptance predicates shared with the operation models + length-grid / invalid-key correspondence (extracted model, BigZ via coqc)",
)

CLAIMED["C18"] = dict(
    category="proof",
    text="Theorems in coq/Props/Properties_C18.v about a Gallina model of the command glue in cmd/ (what jcmd_*_prep_io multiplexes, how the payload/ciphertext is fed, exit status as a function of the library verdicts, the C tests on return values as written): jose jws ver exits 0 only if the library verdict on the text actually fed is 'valid' for EVERY option combination (C18_ver_exit), jwe dec exit 0 implies CEK unwrapped, canonical text and stdout = the decrypted octets; every library refusal (pub, use, eql, exc, gen, thp, b64 dec, sig, enc wrap/new/run) gives a non-zero status and no complete product; compact parsing/printing round trips, multi-signature / multi-recipient objects cannot be made compact, flattened<->general conversions; the streamed member is never repeated in JSON output. Library behaviour enters through the existing models (C01..C07, C12). Tie: ~3400 runs of the real binary per seed (all sub-commands, option combinations, file/stdin/stdout plumbing, detached forms, second round feeding products back into ver/dec) vs the extracted model on exit status and output, plus an implementation-only oracle against the library harness. Also exercised: header parameters split over protected / shared unprotected with the algorithm named explicitly, compact and JSON output.",
    design_ref="DESIGN.md section 3 C18",
    note="Coq kernel; no axioms. getopt, fopen, tty newline and the password prompt are exercised by the correspondence, not modelled; cipher stages are modelled by their verdict at done(); jwe enc runs over three library steps given as Section variables.",
    technique="Coq proof on a glue model over the library models + binary-vs-extracted-model correspondence",
)

CLAIMED["C20"] = dict(
    category="fault_enumeration",
    text="Two layers. (1) Coq theorems in coq/Props/Properties_C20.v on an operational allocation-fault model of the IO layer (Fault/Alloc.v, and restated on Io/Chain.v): for every chain of sinks, genuine-boolean stages and any/all multiplexers and EVERY set of failing allocation requests, the run is Failed or its sinks hold exactly the fault-free bytes (never 'Ok wrong'); a run that fails without faults fails under every fault set; a failed realloc leaves the malloc sink unchanged and a caller that stops at the first rejection leaves a prefix; necessity of the boolean-verdict premise (a size_t-as-bool done() hides failures). (2) Exhaustive single-fault enumeration on the real library built with its malloc/calloc/realloc/free (and jansson's) redirected at compile time: for each of 68+ scenarios (every entry point family, forged inputs, all registered algorithms in the thorough tier) and every k, the k-th request fails; verdict, fault-free re-verification of the product, leaks, caller-object integrity are checked; the chain scenarios are compared with the extracted fault model (verdict, sink bytes, number of requests). Also enumerated: jose_jwe_dec_jwk for RSA1_5, RSA-OAEP, ECDH-ES, PBES2, GCMKW, dir ('success implies key material').",
    design_ref="DESIGN.md section 3 C20",
    note="The theorems cover the IO-chain layer only; the glue of jws.c/jwe.c/jwk.c and the algorithm back ends have no Coq model and are decided by the enumeration (exhaustive over single faults in the listed scenarios, not a proof). OpenSSL/zlib internal allocations are out of scope. Open known findings: jansson json_dumps truncation and json_loadb crash under allocation failure.",
    technique="Coq proof on the IO-chain fault model + exhaustive single-allocation-fault enumeration with compile-time allocator redirection, chains compared with the extracted model",
)

CLAIMED["C13"] = dict(
    category="proof",
    text="Theorems in coq/Props/Properties_C13.v over an ARBITRARY abelian group with scalar action (Section hypotheses): ECDH role symmetry a.(b.P) = b.(a.P); the three ECMR modes (local private: multiplication; only remote private: addition; neither: local minus remote) on the model of ecmr.c; the McCallum-Relyea recovery (C+E, s.(C+E), minus e.S) = c.S = s.C for all c, s, e, P; the result object has exactly kty, crv, x, y; refusals (kty / alg / curve mismatch, ECDH without local d, deriveKey not granted, keys that cannot be imported) on the decision model jwk_exc with the two exchange algorithms as records. Tie: decisions through the extracted model; x/y of every successful exchange recomputed by the Gallina curve arithmetic over BigZ (vm_compute inside coqc) for P-256/384/521, both role orders, the full recovery protocol on the implementation's own intermediates, every mismatch combination; implementation-only oracle (symmetry, recovery identity, no d, fixed coordinate width).",
    design_ref="DESIGN.md section 3 C13",
    note="Coq kernel; no axioms in the theorems; NOT proved: that the named curves with this arithmetic form such a group (chord-tangent associativity) -- the concrete instance is validated by the correspondence; EC_KEY_check_key is modelled as on-curve + (with d) 1<=d<n and d.G=Q.",
    technique="Coq proof over an abstract group (Section hypotheses) + correspondence with BigZ curve arithmetic evaluated by vm_compute",
)

CLAIMED["C14"] = dict(
    category="proof",
    text="Theorems in coq/Props/Properties_C14.v, one guard function per C site mirroring statement order: every JSON value of p2c that is not an integer in 1..32768 is refused on unwrap with no KDF request, and outside 1000..32768 on wrap (64-bit value, no wrap-around: C14_p2c_unw, C14_p2c_unw_passes, C14_p2c_wrp, C14_p2c_wrp_refuses); iterations performed <= 32768 on both paths for any KDF (C14_work_bound); salt 8..1024 and all stores into st[1024] below capacity on every path (from C08's dec_buf_bounds); zip in the protected header and ciphertext text above 262144 refused before decoding; inflate feed above 262144 refused; per-site KEYMAX theorems (hmac, oct, aeskw wrap/unwrap, pbkdf2, ecdhes dk/pu/pv/ky) giving capacity, all writes below it, and the bound on the length handed on; the generated constants equal the property's literals. Tie: the same cases on the real functions with PKCS5_PBKDF2_HMAC / HMAC_Init_ex / EVP_*Update interposed, so 'no derivation / no byte decoded' is observed; boundaries of every limit; implementation-only oracle.",
    design_ref="DESIGN.md section 3 C14",
    note="Coq kernel; no axioms. 'Completes promptly' is measured (<= ~1 ms per guard refusal under sanitizers), not proved. int conversion modelled as reduction mod 2^32 (wrap32). AES-KW cipher block size 8 is a model constant exercised at 1040/1041. aesgcmkw.c / rsaes.c use malloc sized from data: no fixed buffer.",
    technique="Coq proof on guard-site models using generated constants + interposed-primitive correspondence",
)

CLAIMED["C17"] = dict(
    category="proof",
    text="Theorems in coq/Props/Properties_C17.v: (A) configuration contexts as a state machine over arbitrary operation histories -- operations on one context never change another context's handler, user pointer, deliveries or call results (C17_ctx_isolated), every delivery carries the handler and pointer registered with its own context, get_err_misc returns the last registered pointer, clearing falls back to the default handler; (B) an ownership model of the header-merge prologue gives back every reference; (C) C17_schedule_free: if every thread reads/writes only its own component, every schedule yields the sequential per-thread results (induction on schedules), with a counterexample when the footprint premise fails. Tie: all histories of length <= 4 over 23 context operations vs real contexts with logging handlers; every read-only entry point and the shared-template paths called on valid and mutated inputs with deep-equality, dump and reference-count comparison of every argument; 2..16 threads of independent operations vs the sequential run (TSan in the thorough tier). Also exercised: error routing -- every entry point once with cfg == NULL (default handler read back from stderr) and once with a context: same error sequence at that context's handler with its user pointer, nothing on stderr, nothing at another context; ECDH-ES objects whose epk carries usage / unknown members in the argument-preservation runs.",
    design_ref="DESIGN.md section 3 C17",
    note="PARTIAL for schedules: the footprint premise of C17_schedule_free is not proved for the C code (no concurrent C semantics available) -- it is checked dynamically (result comparison, TSan, a scan of lib/ for writable objects with static storage). Argument preservation is checked dynamically on the implementation; on the immutable-tree models it is trivial.",
    technique="Coq proof (induction over histories / schedules) + exhaustive short-history correspondence + dynamic purity/thread checks",
)

CLAIMED["C02"] = dict(
    category="proof",
    text="Theorems in coq/Props/Properties_C02.v about Gallina models of jose_jwe_dec_jwk / jose_jwe_dec_cek(_io) / jose_jwe_dec (lib/jwe.c) and of the per-algorithm unwrap and content-decryption code (lib/openssl/*.c): success means exactly that the key unwraps a CEK from the targeted recipient and that AEAD-open succeeds under that CEK over the AAD input protected [|| '.' || aad] IN FULL, the iv, the ciphertext octets and the tag, followed by inflate when zip is in the protected header; no recipient / no key gives failure. Tie: library-produced tokens for key-management x content-encryption x zip x aad (absent, shorter, equal, longer than protected), decrypted with the recipient key, a foreign key and key sets; single-character mutations of every integrity-relevant member (protected, aad, iv, ciphertext, tag, encrypted_key, p2s, p2c, epk, wrapped iv/tag) and structural mutations; symmetric and PBES2 recipients also on the extracted model with independent Gallina AES-GCM / CBC-HMAC / RFC 3394 / PBKDF2 / inflate. Also exercised: tokens without any protected header; PBES2 at the maximum count with upward changes of p2c; forged recipients (raw content key as encrypted_key under RSA1_5 / RSA-OAEP / A128KW / ECDH-ES); epk.y negated (open known finding). Tokens with several recipients are decrypted through the rcp argument with matching and mismatching keys, and streaming decryption (jose_jwe_dec_io, any chunking of the ciphertext text) is compared with the one-shot verdict and plaintext.",
    design_ref="DESIGN.md section 3 C02",
    note="Coq kernel; no axioms; integrity of the primitives (a changed input makes AEAD-open / unwrap fail) is cryptography and not proved; ECDH-ES and RSA recipients are checked on the implementation with the mutation oracle in this check.",
    technique="Coq proof (closed form of the decryption pipeline) + extracted-model correspondence with mutation",
)

CLAIMED["C04"] = dict(
    category="proof",
    text="Theorems in coq/Props/Properties_C04.v: the content layer round trip dec(enc(pt)) = pt for AES-GCM and AES-CBC-HMAC models of lib/openssl/aesgcm.c / aescbch.c, proved from the AEAD law of the primitive (what enc stores in iv/tag/ciphertext is what dec reads, over the same AAD input); the product of jose_jwe_enc_cek is the RFC 7516 construction (enc recorded, protected encoded once, compress-before-encrypt exactly when zip is protected, seal, base64url); decryption is its mirror. Tie, both directions: every recipient key of jose-produced tokens (all key-management x content-encryption x zip x aad, plaintext lengths 0..4352 [70000 thorough], parameters in protected or split headers) decrypts in jose AND on the independent model (symmetric and PBES2 extracted; ECDH-ES over BigZ and RSA with a checked witness inside coqc); ciphertext and tag bit-identical to the model's re-encryption under the same CEK and IV; model-produced tokens (incl. stored-block DEFLATE) decrypt in jose; all RFC 7520 section 5 examples; two-recipient tokens, foreign keys, re-wrapping a recovered CEK to a third recipient. Also exercised: tokens without protected header in both directions; ECDH-ES tokens on P-521 chosen so that half of the BigZ-checked sample has a shared secret with a leading zero octet; one call with a key set (array / JWKSet) x recipient template forms, and with the algorithm named once in the protected / shared header. The content key of ECDH-ES direct agreement is compared with a python Concat KDF for apu / apv of 0..300 octets; PBES2 with p2c in each header position.",
    design_ref="DESIGN.md section 3 C03/C04",
    note="Coq kernel; no axioms in the theorems; AEAD / key-wrap laws are hypotheses (validated, not proved); Int63 primitives only inside the BigZ evaluation.",
    technique="Coq proof from primitive laws + bit-exact and cross-decryption correspondence with independent Gallina primitives",
)

NOT_YET = {}

def main():
    props = [json.loads(l) for l in open(os.path.join(ROOT, "properties.jsonl"))]
    checks = []
    na = []
    for p in props:
        pid = p["id"]
        if pid in CLAIMED:
            c = CLAIMED[pid]
            checks.append({
                "property_id": pid,
                "quick_cmd": "./check %s --tier quick" % pid,
                "thorough_cmd": "./check %s --tier thorough" % pid,
                "evidence_file": "evidence/%s.json" % pid,
                "replay_cmd_template": "./check %s --replay {path}" % pid,
                "engine": "coq+correspondence",
                "level_claimed": {"category": c["category"], "text": c["text"], "design_ref": c["design_ref"]},
                "level_note": c["note"],
                "technique": c["technique"],
            })
        else:
            na.append({"property_id": pid, "reason": NOT_YET.get(pid, "check not built yet in this development (planned, see DESIGN.md section 3); nothing is claimed for it")})
    m = {
        "version": 1,
        "setup_cmd": "./setup.sh",
        "hooks": {
            "guard": "LATCHSET_JOSE_VERIF",
            "enable": "checks compile /repo's sources themselves with clang -DLATCHSET_JOSE_VERIF (tools/vlib.py build); no source hooks are needed: the allocation-fault build (C20, C09) redirects malloc/calloc/realloc/free of lib/ at compile time with -include /verif/harness/allochook.h and OpenSSL primitives are interposed by symbol (C14), both without touching /repo",
            "baseline_off_cmd": "cd /repo && ninja -C _build && meson test -C _build",
            "source_commits": [],
            "add_only": True,
        },
        "engines": [{"name": "coq+correspondence", "path": "check", "serves_properties": sorted(CLAIMED),
                     "kind_free_text": "Coq 8.16 theorems over Gallina models (coq/), tables regenerated from the running code, extracted OCaml driver vs C harness correspondence, implementation-only oracle for the search"}],
        "checks": checks,
        "not_applicable": na,
        "notes": "See DESIGN.md. Known findings: known_findings.json.",
    }
    json.dump(m, open(os.path.join(ROOT, "MANIFEST.json"), "w"), indent=1)

if __name__ == "__main__":
    main()
