#!/bin/sh
# muteval.sh <seeded id> [check ids...]: applies /verif/seeded/<id>/patch.diff to a fresh worktree of /repo HEAD
# and runs the named checks (default: the property of the same name) against it.
id=$1; shift; checks=${@:-$(echo $id | cut -c1-3)}
wt=/tmp/mev_$id
git -C /repo worktree remove --force $wt 2>/dev/null; rm -rf $wt
git -C /repo worktree add -q --detach $wt HEAD || exit 2
if ! git -C $wt apply /verif/seeded/$id/patch.diff 2>/dev/null && ! (cd $wt && patch -s -p1 -F3 < /verif/seeded/$id/patch.diff); then echo "$id: patch does not apply to HEAD"; git -C /repo worktree remove --force $wt; exit 2; fi
for c in $checks; do
  s=$(date +%s)
  out=$(cd /verif && VERIF_REPO=$wt timeout 2400 ./check $c --tier ${VERIF_TIER:-quick} 2>&1); rc=$?
  echo "seeded=$id check=$c rc=$rc $(( $(date +%s)-s ))s violations=$(echo "$out" | grep -c '^VIOLATION') nofail=$(echo "$out" | grep -c 'no-failing-input-found') crash=$(grep -l 'CRASH' /dev/null | wc -l)"
  echo "$out" | grep '^VIOLATION' | head -3 | while read l; do f=$(echo "$l" | sed 's/.*replay=\([^ ]*\).*/\1/'); python3 -c "
import json,sys
v=json.load(open('$f')); print('   ', v.get('signature','')[:110], '|', v.get('description','')[:140].replace(chr(10),' '))"; done
done
git -C /repo worktree remove --force $wt
