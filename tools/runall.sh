#!/bin/sh
# runs every claimed quick check in turn and prints one summary line per property
cd /verif
for id in $(python3 -c "import json;print(' '.join(c['property_id'] for c in json.load(open('MANIFEST.json'))['checks']))"); do
  s=$(date +%s)
  out=$(./check $id --tier ${VERIF_TIER:-quick} 2>&1); rc=$?
  e=$(date +%s)
  echo "$id rc=$rc $((e-s))s $(echo "$out" | grep -c '^VIOLATION') violations $(echo "$out" | grep -c '^KNOWN-FINDING') known"
  echo "$out" | grep '^VIOLATION' | head -5
done
