#!/bin/sh
# mutstore.sh <id> [name] [worktree]: copies the seeded change left by a mutant agent in the worktree
# (default /tmp/mut_<id>) into /verif/seeded/<name>/ (default name = id)
id=$1; name=${2:-$1}; wt=${3:-/tmp/mut_$id}; d=/verif/seeded/$name
mkdir -p $d
git -C $wt diff -- lib cmd include tests ':!MUTANT*' > $d/patch.diff
for f in $wt/MUTANT_demo.* ; do [ -f "$f" ] && cp "$f" $d/$(basename $f | sed 's/MUTANT_demo/demonstration/'); done
[ -f $wt/MUTANT_meta.json ] && cp $wt/MUTANT_meta.json $d/meta.json
wc -l $d/patch.diff
