"""Small reference arithmetic used by generators and oracles (independent of the Coq model and of OpenSSL):
short-Weierstrass curves of JOSE, ECDSA signing, RSA key generation and PKCS#1 v1.5 signing."""
import hashlib

CURVES = {
    "P-256": dict(
        p=0xffffffff00000001000000000000000000000000ffffffffffffffffffffffff,
        a=-3, b=0x5ac635d8aa3a93e7b3ebbd55769886bc651d06b0cc53b0f63bce3c3e27d2604b,
        gx=0x6b17d1f2e12c4247f8bce6e563a440f277037d812deb33a0f4a13945d898c296,
        gy=0x4fe342e2fe1a7f9b8ee7eb4a7c0f9e162bce33576b315ececbb6406837bf51f5,
        n=0xffffffff00000000ffffffffffffffffbce6faada7179e84f3b9cac2fc632551, size=32),
    "P-384": dict(
        p=2**384 - 2**128 - 2**96 + 2**32 - 1, a=-3,
        b=0xb3312fa7e23ee7e4988e056be3f82d19181d9c6efe8141120314088f5013875ac656398d8a2ed19d2a85c8edd3ec2aef,
        gx=0xaa87ca22be8b05378eb1c71ef320ad746e1d3b628ba79b9859f741e082542a385502f25dbf55296c3a545e3872760ab7,
        gy=0x3617de4a96262c6f5d9e98bf9292dc29f8f41dbd289a147ce9da3113b5f0b8c00a60b1ce1d7e819d7a431d7c90ea0e5f,
        n=0xffffffffffffffffffffffffffffffffffffffffffffffffc7634d81f4372ddf581a0db248b0a77aecec196accc52973, size=48),
    "P-521": dict(
        p=2**521 - 1, a=-3,
        b=0x0051953eb9618e1c9a1f929a21a0b68540eea2da725b99b315f3b8b489918ef109e156193951ec7e937b1652c0bd3bb1bf073573df883d2c34f1ef451fd46b503f00,
        gx=0x00c6858e06b70404e9cd9e3ecb662395b4429c648139053fb521f828af606b4d3dbaa14b5e77efe75928fe1dc127a2ffa8de3348b3c1856a429bf97e7e31c2e5bd66,
        gy=0x011839296a789a3bc0045c8a5fb42c7d1bd998f54449579b446817afbd17273e662c97ee72995ef42640c550b9013fad0761353c7086a272c24088be94769fd16650,
        n=int("01ff" + "ffffffff"*7 + "fffffffa" + "51868783bf2f966b7fcc0148f709a5d03bb5c9b8899c47aebb6fb71e91386409", 16), size=66),
    "secp256k1": dict(
        p=2**256 - 2**32 - 977, a=0, b=7,
        gx=0x79be667ef9dcbbac55a06295ce870b07029bfcdb2dce28d959f2815b16f81798,
        gy=0x483ada7726a3c4655da4fbfc0e1108a8fd17b448a68554199c47d08ffb10d4b8,
        n=0xfffffffffffffffffffffffffffffffebaaedce6af48a03bbfd25e8cd0364141, size=32),
}


def on_curve(c, x, y):
    p = c["p"]
    return 0 <= x < p and 0 <= y < p and (y * y - (x * x * x + c["a"] * x + c["b"])) % p == 0


def add(c, P, Q):
    p = c["p"]
    if P is None:
        return Q
    if Q is None:
        return P
    (x1, y1), (x2, y2) = P, Q
    if x1 == x2 and (y1 + y2) % p == 0:
        return None
    if P == Q:
        l = (3 * x1 * x1 + c["a"]) * pow(2 * y1, -1, p) % p
    else:
        l = (y2 - y1) * pow(x2 - x1, -1, p) % p
    x3 = (l * l - x1 - x2) % p
    return (x3, (l * (x1 - x3) - y1) % p)


def mul(c, k, P):
    R = None
    while k:
        if k & 1:
            R = add(c, R, P)
        P = add(c, P, P)
        k >>= 1
    return R


def base(c):
    return (c["gx"], c["gy"])


def ecdsa_sign(c, d, digest, k):
    n = c["n"]
    e = int.from_bytes(digest, "big")
    nb = n.bit_length()
    if len(digest) * 8 > nb:
        e >>= len(digest) * 8 - nb
    R = mul(c, k, base(c))
    r = R[0] % n
    s = pow(k, -1, n) * (e + r * d) % n
    assert r and s
    return r.to_bytes(c["size"], "big") + s.to_bytes(c["size"], "big")


def ecdsa_verify(c, Q, digest, sig):
    n = c["n"]
    sz = c["size"]
    if len(sig) != 2 * sz:
        return False
    r, s_ = int.from_bytes(sig[:sz], "big"), int.from_bytes(sig[sz:], "big")
    if not (1 <= r < n and 1 <= s_ < n):
        return False
    e = int.from_bytes(digest, "big")
    nb = n.bit_length()
    if len(digest) * 8 > nb:
        e >>= len(digest) * 8 - nb
    w = pow(s_, -1, n)
    P = add(c, mul(c, e * w % n, base(c)), mul(c, r * w % n, Q))
    return P is not None and P[0] % n == r


# ------------------------------------------------------------------ RSA

def _is_prime(n, rnd, rounds=24):
    if n < 2:
        return False
    for q in (2, 3, 5, 7, 11, 13, 17, 19, 23, 29, 31, 37, 41, 43, 47):
        if n % q == 0:
            return n == q
    d, s = n - 1, 0
    while d % 2 == 0:
        d //= 2
        s += 1
    for _ in range(rounds):
        a = rnd.randrange(2, n - 1)
        x = pow(a, d, n)
        if x in (1, n - 1):
            continue
        for _ in range(s - 1):
            x = x * x % n
            if x == n - 1:
                break
        else:
            return False
    return True


def _prime(bits, rnd):
    while True:
        c = rnd.getrandbits(bits) | (1 << (bits - 1)) | (1 << (bits - 2)) | 1
        if c % 65537 != 1 and _is_prime(c, rnd):
            return c


def rsa_key(bits, rnd):
    """n of exactly `bits` bits"""
    e = 65537
    while True:
        pb = (bits + 1) // 2
        p, q = _prime(pb, rnd), _prime(bits - pb, rnd)
        n = p * q
        if n.bit_length() != bits or p == q:
            continue
        if p < q:
            p, q = q, p
        d = pow(e, -1, (p - 1) * (q - 1))
        return dict(n=n, e=e, d=d, p=p, q=q, dp=d % (p - 1), dq=d % (q - 1), qi=pow(q, -1, p))


DI = {"sha256": bytes.fromhex("3031300d060960864801650304020105000420"),
      "sha384": bytes.fromhex("3041300d060960864801650304020205000430"),
      "sha512": bytes.fromhex("3051300d060960864801650304020305000440")}


def rsa_pkcs1_sign(key, hname, msg):
    k = (key["n"].bit_length() + 7) // 8
    t = DI[hname] + hashlib.new(hname, msg).digest()
    if k < len(t) + 11:
        return None
    em = b"\x00\x01" + b"\xff" * (k - len(t) - 3) + b"\x00" + t
    return pow(int.from_bytes(em, "big"), key["d"], key["n"]).to_bytes(k, "big")
