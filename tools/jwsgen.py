"""Shared generation of keys and JWS tokens through the harness (used by C01, C03, C06, C09...)."""
import base64
import json
import os
import random
import re
import subprocess

import vlib


def dumps(v):
    return json.dumps(v, separators=(",", ":"), sort_keys=True)


def b64(b):
    return base64.urlsafe_b64encode(b).rstrip(b"=").decode()


def unb64(s):
    return base64.urlsafe_b64decode(s + "=" * (-len(s) % 4))


def harness(bdir, cases, shards=8):
    return vlib.run_cases(os.path.join(bdir, "h"), cases, shards=shards)


_KEYCACHE = {}


def gen_keys(bdir, templates):
    """jose_jwk_gen through the harness; cached per build directory + template"""
    need = [t for t in templates if (bdir, dumps(t)) not in _KEYCACHE]
    if need:
        outs = harness(bdir, ["gen\t%s" % dumps(t) for t in need])
        for t, o in zip(need, outs):
            _KEYCACHE[(bdir, dumps(t))] = None if (o == "ERR" or o.startswith("CRASH")) else json.loads(o)
    return [json.loads(dumps(_KEYCACHE[(bdir, dumps(t))])) if _KEYCACHE[(bdir, dumps(t))] is not None else None for t in templates]


def oct_key(rnd, n, **extra):
    k = {"kty": "oct", "k": b64(bytes(rnd.getrandbits(8) for _ in range(n)))}
    k.update(extra)
    return k


def strip_meta(k):
    k = dict(k)
    for m in ("alg", "key_ops", "use"):
        k.pop(m, None)
    return k


def pub_of(k):
    return {m: v for m, v in k.items() if m not in ("d", "p", "q", "dp", "dq", "qi", "oth", "k")}


def standard_keys(bdir, rsa_bits=(2048,)):
    tm = [{"kty": "EC", "crv": c} for c in ("P-256", "P-384", "P-521", "secp256k1")] + [{"kty": "RSA", "bits": b} for b in rsa_bits]
    ks = gen_keys(bdir, tm)
    out = {}
    for t, k in zip(tm, ks):
        if k is None:
            continue
        out[t.get("crv") or "RSA%d" % t["bits"]] = strip_meta(k)
    return out


SIGN_KEY_FOR = {"ES256": "P-256", "ES384": "P-384", "ES512": "P-521", "ES256K": "secp256k1",
                "RS256": "RSA2048", "RS384": "RSA2048", "RS512": "RSA2048", "PS256": "RSA2048", "PS384": "RSA2048", "PS512": "RSA2048"}


def coq_bytes(b):
    return "[" + ";".join(str(x) for x in b) + "]"


def run_coq_cases(name, body, timeout=900):
    """Writes _work/<name>/cases.v with the given body (must print lines 'RES <i> <value>' via
    Eval vm_compute of a list) and returns coqc's output."""
    d = os.path.join(vlib.WORK, name)
    os.makedirs(d, exist_ok=True)
    p = os.path.join(d, "cases.v")
    open(p, "w").write(body)
    try:
        r = subprocess.run(["coqc", "-Q", vlib.COQ, "JoseV", "-w", "-notation-overridden,-deprecated-hint-without-locality,-deprecated-syntactic-definition", p],
                           stdout=subprocess.PIPE, stderr=subprocess.STDOUT, text=True, timeout=timeout, cwd=d)
    except subprocess.TimeoutExpired:
        return None, "TIMEOUT"
    return r.returncode, r.stdout


def parse_bool_list(out):
    """parses '= [Some true; None; Some false]' style output of Eval vm_compute"""
    m = re.search(r"=\s*\[(.*?)\]\s*:\s*list", out, flags=re.S)
    if not m:
        return None
    items = [x.strip() for x in m.group(1).replace("\n", " ").split(";") if x.strip()]
    res = []
    for it in items:
        if it == "Some true":
            res.append(True)
        elif it == "Some false":
            res.append(False)
        elif it == "None":
            res.append(None)
        elif it == "true":
            res.append(True)
        elif it == "false":
            res.append(False)
        else:
            res.append(it)
    return res


# ---------------------------------------------------------------------------- JWE

ENC_KEYLEN = {"A128GCM": 16, "A192GCM": 24, "A256GCM": 32, "A128CBC-HS256": 32, "A192CBC-HS384": 48, "A256CBC-HS512": 64}
SYM_WRAPS = ["dir", "A128KW", "A192KW", "A256KW", "A128GCMKW", "A192GCMKW", "A256GCMKW"]
PBES2 = ["PBES2-HS256+A128KW", "PBES2-HS384+A192KW", "PBES2-HS512+A256KW"]
EC_WRAPS = ["ECDH-ES", "ECDH-ES+A128KW", "ECDH-ES+A192KW", "ECDH-ES+A256KW"]
RSA_WRAPS = ["RSA1_5", "RSA-OAEP", "RSA-OAEP-224", "RSA-OAEP-256", "RSA-OAEP-384", "RSA-OAEP-512"]
KW_LEN = {"A128KW": 16, "A192KW": 24, "A256KW": 32, "A128GCMKW": 16, "A192GCMKW": 24, "A256GCMKW": 32}


def wrap_key(rnd, keys, wrap, enc):
    """a key usable with the key-management algorithm"""
    if wrap == "dir":
        return oct_key(rnd, ENC_KEYLEN[enc])
    if wrap in KW_LEN:
        return oct_key(rnd, KW_LEN[wrap])
    if wrap in PBES2:
        return oct_key(rnd, 20)
    if wrap in EC_WRAPS:
        return keys.get(rnd.choice(["P-256", "P-384", "P-521"]))
    if wrap in RSA_WRAPS:
        return keys.get("RSA2048")
    return None


def jwe_template(wrap, enc, zip_, aad, where="protected", p2c=1000):
    hdr = {"alg": wrap, "enc": enc}
    if wrap in PBES2:
        hdr["p2c"] = p2c
    if zip_:
        hdr["zip"] = "DEF"
    t = {}
    if where == "protected":
        t["protected"] = hdr
    elif where == "split":
        t["protected"] = {k: v for k, v in hdr.items() if k in ("enc", "zip")}
        t["unprotected"] = {k: v for k, v in hdr.items() if k not in ("enc", "zip")}
    elif where == "none":
        # no protected header at all: everything in the shared unprotected header
        t["unprotected"] = {k: v for k, v in hdr.items() if k != "zip"}
    if aad is not None:
        t["aad"] = aad
    return t
