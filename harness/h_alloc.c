/* C20: allocation-fault enumeration.
 *
 *   fail <scenario> <k|-1> [trace|-] [<chunk sizes> <hex data>]
 *
 * runs <scenario> with the k-th allocation (0-based; allocations issued by /repo/lib
 * code through harness/allochook.h in the `hook` build variant, and by jansson through
 * json_set_alloc_funcs) returning NULL; k = -1: no fault.  The scenario runs in a forked
 * child, so the jansson hooks, the counters and whatever a faulted run damages or leaks
 * never touch the harness process (and other commands of the harness).  One result line:
 *
 *   <ok|fail> n=<allocations seen> hit=<0|1> check=<good|BAD:...> prod=<canonical product>
 *             live=<counted blocks still allocated after everything was released>
 *             lsan=<0|1|-> rel=<ok|what is wrong with a caller object>
 *   CRASH phase=<call|check|release|leakcheck> <what killed the child> [site=...]
 *
 * (fields TAB separated).  `check` is computed with FAULT-FREE calls after the faulted
 * call returned: a produced signature is verified, a produced JWE decrypted and compared,
 * an exported/exchanged key compared with the fault-free product ..., see each scenario.
 * Scenario `chain:<shape>` (shape grammar of h_io.c: malloc, buffer:<cap>, b64enc(..),
 * b64dec(..), hash:<alg>(..), plexany(..,..), plexall(..,..)) prints instead
 *   <ok|fail> n=.. hit=.. sinks=<hex of every sink, left to right, blank separated> live=.. lsan=.. rel=..
 * Per registered algorithm (keys generated once per harness process, fault-free):
 *   sigalg:<ALG> veralg:<ALG> veralg-bad:<ALG> encalg:<WRAP>:<ENC> decalg:<WRAP>:<ENC> decalg-bad:<WRAP>:<ENC>
 *   fail keys -1   prints the fixed keys and the plaintext as JSON (for the python oracle)
 *   fail scenarios -1 / fail algs -1   list the fixed scenarios / the registered algorithms
 *
 * In the other build variants nothing calls vh_*: every scenario then sees only jansson's
 * allocations.  This file must compile and link there too. */
#include "h.h"
#include "hooks.h"
#include <errno.h>
#include <signal.h>
#include <sys/wait.h>
#include <unistd.h>
#include <openssl/evp.h>
#include <dlfcn.h>
#include <execinfo.h>

/* sanitizer run-time interface, all optional */
extern int  __sanitizer_get_ownership(const volatile void *p) __attribute__((weak));
extern void __sanitizer_print_stack_trace(void) __attribute__((weak));
extern int  __lsan_do_recoverable_leak_check(void) __attribute__((weak));
extern void __lsan_disable(void) __attribute__((weak));
extern void __lsan_enable(void) __attribute__((weak));

/* ------------------------------------------------------------------ counting allocator */

#define MAXBLK 200000
typedef struct { void *p; long idx; unsigned long site, site2; char kind; char gone; } blk_t;

static blk_t *blks;
static long nblks;
static long vh_count;          /* allocations seen while counting */
static long vh_fail_at = -1;
static int vh_on;              /* counting (and failing) enabled */
static int vh_hit;
static int vh_trace;
static int PH = -1;   /* child: pipe to the parent (phase markers and the result line) */
static unsigned long vh_at1, vh_at2;   /* where the failing request came from */
static char vh_what[24] = "-";
static long vh_show = -1;   /* trace mode: also print the stack of this allocation (C20_SHOW=<index>) */

/* offset, in the harness binary, of the library code that asked for the block: the caller
 * of vh_* for the library's own requests; for jansson's requests the first frame of the
 * binary below jansson's frames (one backtrace per counted jansson block) */
extern char __executable_start[];
extern char etext[];

static bool
in_binary(void *a)
{
    return (char *) a >= __executable_start && (char *) a < etext;
}

static unsigned long
off_of(void *a)
{
    Dl_info di;
    if (!a)
        return 0;
    if (dladdr(a, &di) && di.dli_fbase)
        return (unsigned long) ((char *) a - (char *) di.dli_fbase) - 1;
    return (unsigned long) ((char *) a - __executable_start) - 1;
}

static void
site_of(void *ret, unsigned long *s1, unsigned long *s2)
{
    void *fr[24];
    int n = backtrace(fr, 24), i = 0;
    if (ret) {
        while (i < n && fr[i] != ret) i++;
    } else {
        while (i < n && in_binary(fr[i])) i++;
        while (i < n && !in_binary(fr[i])) i++;
    }
    *s1 = i < n ? off_of(fr[i]) : off_of(ret);
    *s2 = i + 1 < n && in_binary(fr[i + 1]) ? off_of(fr[i + 1]) : 0;
}

static void
track(void *p, char kind, void *ret)
{
    if (!p || !blks || nblks >= MAXBLK)
        return;
    site_of(ret, &blks[nblks].site, &blks[nblks].site2);
    blks[nblks].p = p;
    blks[nblks].idx = vh_count - 1;
    blks[nblks].kind = kind;
    blks[nblks].gone = 0;
    nblks++;
}

static void
untrack(void *p)
{
    if (!p || !blks)
        return;
    for (long i = nblks - 1; i >= 0; i--) {
        if (blks[i].p == p && !blks[i].gone) {
            blks[i].gone = 1;
            return;
        }
    }
}

static void site_of(void *ret, unsigned long *s1, unsigned long *s2);

/* true: this request must fail */
static bool
tick(const char *what, size_t size, void *ret)
{
    if (!vh_on)
        return false;
    long me = vh_count++;
    if (vh_trace && vh_show >= 0 && me == vh_show) {
        fprintf(stderr, "C20-TRACE allocation #%ld (%s of %zu bytes) is issued here:\n", me, what, size);
        if (__sanitizer_print_stack_trace)
            __sanitizer_print_stack_trace();
    }
    if (me != vh_fail_at)
        return false;
    vh_hit = 1;
    site_of(ret, &vh_at1, &vh_at2);
    snprintf(vh_what, sizeof(vh_what), "%s", what);
    if (PH >= 0) {
        char b[96];
        int n = snprintf(b, sizeof(b), "!%s@%lx/%lx\n", what, vh_at1, vh_at2);
        if (write(PH, b, (size_t) n) < 0) {
        }
    }
    if (vh_trace) {
        fprintf(stderr, "C20-TRACE allocation #%ld (%s of %zu bytes) fails here:\n", me, what, size);
        if (__sanitizer_print_stack_trace)
            __sanitizer_print_stack_trace();
    }
    return true;
}

void *
vh_malloc(size_t size)
{
    if (tick("malloc", size, __builtin_return_address(0)))
        return NULL;
    void *p = malloc(size);
    if (vh_on)
        track(p, 'm', __builtin_return_address(0));
    return p;
}

void *
vh_calloc(size_t nmemb, size_t size)
{
    if (tick("calloc", nmemb * size, __builtin_return_address(0)))
        return NULL;
    void *p = calloc(nmemb, size);
    if (vh_on)
        track(p, 'c', __builtin_return_address(0));
    return p;
}

void *
vh_realloc(void *ptr, size_t size)
{
    if (tick("realloc", size, __builtin_return_address(0)))
        return NULL;             /* the old block stays valid, as with the real realloc */
    void *p = realloc(ptr, size);
    if (p) {
        untrack(ptr);
        if (vh_on)
            track(p, 'r', __builtin_return_address(0));
    }
    return p;
}

void
vh_free(void *ptr)
{
    untrack(ptr);
    free(ptr);
}

static void *
jh_malloc(size_t size)
{
    if (tick("jansson", size, NULL))
        return NULL;
    void *p = malloc(size);
    if (vh_on)
        track(p, 'j', NULL);
    return p;
}

static void
jh_free(void *p)
{
    untrack(p);
    free(p);
}

/* counted blocks that are still allocated: freed through the hooks -> gone; freed by the
 * library's plain free() -> the sanitizer run time no longer owns the address */
static long
live_blocks(char *desc, size_t dl)
{
    long live = 0;
    size_t o = 0;
    if (desc && dl)
        desc[0] = 0;
    for (long i = 0; i < nblks; i++) {
        if (blks[i].gone)
            continue;
        if (__sanitizer_get_ownership && !__sanitizer_get_ownership(blks[i].p))
            continue;
        if (!__sanitizer_get_ownership)
            continue;            /* no way to tell in this build variant */
        live++;
        if (desc && o + 48 < dl)
            o += (size_t) snprintf(desc + o, dl - o, "%s#%ld%c@%lx/%lx", o ? "," : "", blks[i].idx, blks[i].kind, blks[i].site, blks[i].site2);
    }
    return live;
}

/* ------------------------------------------------------------------ fixed inputs */

static const char *KEYS_JSON =
"{"
"\"oct\":{\"k\":\"yfff_Ad5t6ncXQNkT9gYZysFLaHT9WWMFL0e3Fferio\",\"kty\":\"oct\"},"
"\"oct2\":{\"k\":\"AAECAwQFBgcICQoLDA0ODxAREhMUFRYXGBkaGxwdHh8\",\"kty\":\"oct\"},"
"\"kw\":{\"k\":\"nmzx6-PAM4Fa0C52WWMYfQ\",\"kty\":\"oct\"},"
"\"pwd\":\"correct horse battery staple\","
"\"ec\":{\"crv\":\"P-256\",\"d\":\"SazWQfvO9rgoz5ws5xLruy1SWLscirC2QFlzttCk80c\",\"kty\":\"EC\","
"\"x\":\"ohNKSvvEjjUaDa_Aj_zXGhKVkl5nxML1Z654zzLJAiA\",\"y\":\"TJSH1U4v9cUSmtRkBPbiahGxkq6wbVqBiViaCo6PIwU\"},"
"\"ec2\":{\"crv\":\"P-256\",\"d\":\"2Jl62iiG49Ua_O3AhvcOZ44Gde5b4wp4Ip8ECqth5ks\",\"kty\":\"EC\","
"\"x\":\"gmclbWNVIN0cQ5DzmItiKWexFrao6ATHJCBN2UDs3W0\",\"y\":\"gvBbIWEHsiNw8sziHsssbkWlkxfvx0Il4IIgUetfFKU\"},"
"\"rsa\":{\"d\":\"NSm7XdWLMDgC0tDqH8keAXXwPZ7UPSVcDzKWzt-4OOMyqqoFnaMivSixf_TbJ8BG8K867kq3fWfQScAtj7uEpCZb1-czZIFT2wpBuShu7Cs4u3X_k7EOEGRIbIEnalE1L1DYoXVwWMbdjUAURCzjGPL3IEkzdoXS5hBve8GIO1ySkDaVX1A5FW5uLnNa_16hG-buYVISdXg3Wf9sGDUBY_gabBbpbwE3tsl8PC8l_jdOCEek7olO44feut1eF5GXJvLMgNbdQUxD2VrTrWpKFGcdcT-Q98-f4afTYe4tJlE4096_b3WnLZa9sOeJLBPAvjFbtknu4YIEIxYzTrzFDQ\","
"\"dp\":\"TJpZw8Tpa-FCtXqPOAAMKzX5Uprrw9Sgbp8i05gJ81WftlsTp-8hpeCVMc7CmEjfzc7HfCYSFG4Dw1UFNgOwlQPFtsRUxrgRdF7cvHOC3lTw9N3Gb5slwwlzTp-oJzTpjmF9Y4IShgmPo7-iQBlowX487nLvgIEO7PfysyudAQE\","
"\"dq\":\"Rva7ikfm2XF_oGGyDrnXyHYPjPlp-EbDM0qBLCTGnSlN3uARyh-VZZpZZDHz-CLmXmj5FyoGFcC6jPvsNhJHkYOBv_RsGn9MzRnNpcwxV58dSlQxdekfgQyrP_8POkDPbcJUiQzgrXlgOJIlb6-c4XgZp0HCILgOoY2AuTMGRdU\","
"\"e\":\"AQAB\",\"kty\":\"RSA\","
"\"n\":\"odqOsNZ0VviMyoXoI_QOwNto5BVnjVRZRTcOOQeqbhqlN-Vpf6e3RSQheQO3ucfvmZvyAkqAtkb1M9mgkCXSb8OWQbGV57ZqJLBrc7hWfPRNf5t5hJnWDJkchW1CfVcuv71_XUpFawP7XQX1T9Q6RTnW1O-UZR-xLSc1pIAs3lSwtEZ734BuuL8P1-u4wUn5AFGHbBU6FZ_bhWjmL9GCVoHTiFwkxS9evJUEtOhG9tftGiBoow94FrXpLG8JvJHGTs8QmUMCrqf_EOFONjse8-Ye7nhMQsF_i3zfzEREplaf3KAodGmIh9D1b-c620h3uLOX4rq-17bZ9Tcedi92zw\","
"\"p\":\"4rZ0gpMFAN0GLpTFZMz_BTQ22cKSHNwqNgGudZUO7d4vfbhY0ijN7kTAlSHmjjC9rDEUGmwwB2ZiPDeXEGFe_aVNn-5gUA5WVyADRnoStBExr4XdYVAnkBVYUxYXBAkSiQGdpzUoDCmvIvN9xvqNoQF2KIHTdjP4ZLQoc8W8cks\","
"\"q\":\"tsMr5wuXL-EvwRPAoB2ut52m_5jkqdzN7ml0c9TuH13cfVQUQ1YPPjL-pblRuCOjVtzQkWFIrqG_7yoDVwPUS_b6jVOMx9QM4Yixx0yt_4BoE5Jh_JXerr8BKeInY3b_fh8RkZ1JjZjHsWTVLB_Lsr-EDYPPxszMKAAadxbXWw0\","
"\"qi\":\"QfSnQI0o2g8dOOj2dWf_95WMeUUx9-swxgmCkhJ3QgNDxxMIvB72M8LO7R2jAop5Rnvw4V9aGc4S8Sru6-ZjSbuIODUy41vS-vzS03pC9hesASGYwFe4_-otUNn_ULei290jKamakAqKdG03bWLMtNX8X9AeCwK-tp10TG1h724\"}"
"}";

/* 333 bytes, compressible */
static const char *PT =
    "It was the best of times, it was the worst of times, it was the age of wisdom, it was the age of "
    "foolishness, it was the epoch of belief, it was the epoch of incredulity, it was the season of Light, "
    "it was the season of Darkness, it was the spring of hope, it was the winter of despair, we had "
    "everything before us, we had nothing";
static size_t PTL;

static json_t *KEYS;
static jose_cfg_t *CFG;
static bool inited;

/* fault-free tokens, produced once per harness process */
static json_t *T_hs, *T_hs_bad, *T_es, *T_es_bad, *T_rs, *T_rs_bad, *T_multi;
static json_t *E_kwgcm, *E_kwgcm_bad, *E_cbc, *E_cbc_bad, *E_zip, *E_pbes2, *E_ecdhes, *E_rsa, *E_gcmkw, *E_dir;
static json_t *X_exc, *P_ec, *P_ec2, *P_rsa, *KS_multi, *KS_multi_pub, *K_hs_as512, *K_hs_as384;

static void
quiet_err(void *misc, const char *file, int line, uint64_t err, const char *fmt, va_list ap)
{
}

static json_t *
key(const char *name)
{
    return json_object_get(KEYS, name);
}

static json_t *
pubof(const json_t *k)
{
    json_t *c = json_deep_copy(k);
    if (!jose_jwk_pub(CFG, c)) {
        fprintf(stderr, "harness(h_alloc): jose_jwk_pub failed in fault-free preparation\n");
        exit(3);
    }
    return c;
}

static void
need(bool ok, const char *what)
{
    if (!ok) {
        fprintf(stderr, "harness(h_alloc): fault-free preparation failed: %s\n", what);
        exit(3);
    }
}

static json_t *
mkjws(const json_t *k, const char *alg)
{
    json_t *jws = json_pack("{s:o}", "payload", jose_b64_enc(PT, PTL));
    json_t *sig = json_pack("{s:{s:s}}", "protected", "alg", alg);
    need(jose_jws_sig(CFG, jws, sig, k), alg);
    json_decref(sig);
    return jws;
}

/* flip one bit of a base64url member */
static json_t *
tamper(const json_t *tok, const char *member)
{
    json_t *c = json_deep_copy(tok);
    const char *s = json_string_value(json_object_get(c, member));
    need(s && strlen(s) > 4, member);
    char *d = strdup(s);
    d[2] = d[2] == 'A' ? 'B' : 'A';
    json_object_set_new(c, member, json_string(d));
    free(d);
    return c;
}

static json_t *
mkjwe(const char *tmpl, const json_t *k)
{
    json_t *jwe = json_loads(tmpl, 0, NULL);
    need(jwe != NULL, tmpl);
    need(jose_jwe_enc(CFG, jwe, NULL, k, PT, PTL), tmpl);
    return jwe;
}

#define TM_KWGCM  "{\"protected\":{\"alg\":\"A128KW\",\"enc\":\"A128GCM\"}}"
#define TM_CBC    "{\"protected\":{\"alg\":\"A128KW\",\"enc\":\"A128CBC-HS256\"}}"
#define TM_ZIP    "{\"protected\":{\"alg\":\"A128KW\",\"enc\":\"A128GCM\",\"zip\":\"DEF\"}}"
#define TM_PBES2  "{\"protected\":{\"alg\":\"PBES2-HS256+A128KW\",\"enc\":\"A128GCM\",\"p2c\":1000}}"
#define TM_ECDHES "{\"protected\":{\"alg\":\"ECDH-ES+A128KW\",\"enc\":\"A128GCM\"}}"
#define TM_RSA    "{\"protected\":{\"alg\":\"RSA-OAEP\",\"enc\":\"A128GCM\"}}"
#define TM_GCMKW  "{\"protected\":{\"alg\":\"A128GCMKW\",\"enc\":\"A128GCM\"}}"
#define TM_DIR    "{\"protected\":{\"alg\":\"dir\",\"enc\":\"A128CBC-HS256\"}}"

static void
init_once(void)
{
    if (inited)
        return;
    inited = true;
    if (__lsan_disable)
        __lsan_disable();      /* what the harness process itself keeps is not a leak of the library */
    json_object_seed(20);      /* same member order in every harness process (no effect if already seeded) */
    PTL = strlen(PT);
    KEYS = json_loads(KEYS_JSON, 0, NULL);
    need(KEYS != NULL, "keys");
    CFG = jose_cfg();
    jose_cfg_set_err_func(CFG, quiet_err, NULL);
    P_ec = pubof(key("ec"));
    P_ec2 = pubof(key("ec2"));
    P_rsa = pubof(key("rsa"));
    T_hs = mkjws(key("oct"), "HS256");
    T_hs_bad = tamper(T_hs, "signature");
    T_es = mkjws(key("ec"), "ES256");
    T_es_bad = tamper(T_es, "signature");
    T_rs = mkjws(key("rsa"), "RS256");
    T_rs_bad = tamper(T_rs, "signature");
    KS_multi = json_pack("{s:[O,O]}", "keys", key("oct"), key("ec"));
    K_hs_as512 = json_deep_copy(key("oct"));
    json_object_set_new(K_hs_as512, "alg", json_string("HS512"));
    K_hs_as384 = json_deep_copy(key("oct"));
    json_object_set_new(K_hs_as384, "alg", json_string("HS384"));
    KS_multi_pub = json_pack("{s:[O,O]}", "keys", key("oct"), P_ec);
    T_multi = json_pack("{s:o}", "payload", jose_b64_enc(PT, PTL));
    need(jose_jws_sig(CFG, T_multi, NULL, KS_multi), "multi");
    E_kwgcm = mkjwe(TM_KWGCM, key("kw"));
    E_kwgcm_bad = tamper(E_kwgcm, "tag");
    E_cbc = mkjwe(TM_CBC, key("kw"));
    E_cbc_bad = tamper(E_cbc, "ciphertext");
    E_zip = mkjwe(TM_ZIP, key("kw"));
    E_pbes2 = mkjwe(TM_PBES2, key("pwd"));
    E_ecdhes = mkjwe(TM_ECDHES, P_ec);
    E_rsa = mkjwe(TM_RSA, P_rsa);
    E_gcmkw = mkjwe(TM_GCMKW, key("kw"));
    E_dir = mkjwe(TM_DIR, key("oct2"));
    X_exc = jose_jwk_exc(CFG, key("ec"), P_ec2);
    need(X_exc != NULL, "exc");
    if (__lsan_enable)
        __lsan_enable();
}

/* ------------------------------------------------------------------ result of one run */

static struct {
    bool ok;
    char check[300];
    char *prod;
    char rel[200];
} R;


static void
phase(const char *p)
{
    char b[64];
    int n = snprintf(b, sizeof(b), "@%s\n", p);
    if (write(PH, b, (size_t) n) < 0) {
    }
}

static void
bad(const char *fmt, ...)
{
    if (strncmp(R.check, "BAD", 3) == 0)
        return;
    va_list ap;
    va_start(ap, fmt);
    strcpy(R.check, "BAD:");
    vsnprintf(R.check + 4, sizeof(R.check) - 4, fmt, ap);
    va_end(ap);
}

static void
relbad(const char *fmt, ...)
{
    if (strcmp(R.rel, "ok") != 0)
        return;
    va_list ap;
    va_start(ap, fmt);
    vsnprintf(R.rel, sizeof(R.rel), fmt, ap);
    va_end(ap);
}

static char *
dump(const json_t *j)
{
    if (!j)
        return strdup("null");
    char *s = json_dumps(j, JSON_COMPACT | JSON_SORT_KEYS | JSON_ENCODE_ANY);
    return s ? s : strdup("UNDUMPABLE");
}

static char *
hexs(const uint8_t *p, size_t n)
{
    char *s = malloc(2 * n + 2);
    static const char *d = "0123456789abcdef";
    for (size_t i = 0; i < n; i++) {
        s[2 * i] = d[p[i] >> 4];
        s[2 * i + 1] = d[p[i] & 15];
    }
    s[2 * n] = 0;
    if (n == 0)
        strcpy(s, "-");
    return s;
}

static char *
sha256hex(const void *p, size_t n)
{
    uint8_t md[32];
    unsigned int l = 0;
    EVP_Digest(p, n, md, &l, EVP_sha256(), NULL);
    return hexs(md, 32);
}

/* canonical shape of a JOSE object: random material replaced by its decoded length,
 * a base64url-encoded protected header replaced by the shape of the header */
static json_t *
shape(const json_t *j, const char *name)
{
    static const char *rnd[] = { "k", "x", "y", "d", "n", "p", "q", "dp", "dq", "qi", "iv", "tag", "ciphertext",
                                 "encrypted_key", "signature", "p2s", NULL };
    if (json_is_object(j)) {
        json_t *o = json_object();
        const char *kk;
        json_t *v;
        const char *kty = json_string_value(json_object_get(j, "kty"));
        bool rsa = kty && strcmp(kty, "RSA") == 0;
        json_object_foreach((json_t *) j, kk, v) {
            /* the private numbers of an RSA key have no fixed length (leading zero bytes are dropped) */
            if (rsa && strchr("dpq", kk[0]) && json_is_string(v) && jose_b64_dec(v, NULL, 0) != SIZE_MAX)
                json_object_set_new(o, kk, json_string("<bytes>"));
            else
                json_object_set_new(o, kk, shape(v, kk));
        }
        return o;
    }
    if (json_is_array(j)) {
        json_t *a = json_array();
        for (size_t i = 0; i < json_array_size(j); i++)
            json_array_append_new(a, shape(json_array_get(j, i), NULL));
        return a;
    }
    if (json_is_string(j) && name) {
        if (strcmp(name, "protected") == 0) {
            json_t *h = jose_b64_dec_load(j);
            if (!h)
                return json_string("<undecodable protected header>");
            json_t *s = shape(h, NULL);
            json_decref(h);
            return s;
        }
        for (int i = 0; rnd[i]; i++) {
            if (strcmp(rnd[i], name) == 0) {
                size_t l = jose_b64_dec(j, NULL, 0);
                char b[64];
                if (l == SIZE_MAX)
                    return json_string("<not base64url>");
                snprintf(b, sizeof(b), "<%zu bytes>", l);
                return json_string(b);
            }
        }
    }
    return json_deep_copy(j);
}

static char *
shapes(const json_t *j)
{
    json_t *s = shape(j, NULL);
    char *r = dump(s);
    json_decref(s);
    return r;
}

/* snapshot of a caller-owned input: it must be unchanged (const inputs) and keep its
 * reference count, whatever the call did */
typedef struct { const json_t *j; char *txt; size_t refs; const char *name; bool isconst; } snap_t;
static snap_t snaps[8];
static int nsnaps;

static void
snap(const json_t *j, const char *name, bool isconst)
{
    if (!j || nsnaps >= 8)
        return;
    snaps[nsnaps].j = j;
    snaps[nsnaps].txt = dump(j);
    snaps[nsnaps].refs = j->refcount;
    snaps[nsnaps].name = name;
    snaps[nsnaps].isconst = isconst;
    nsnaps++;
}

static void
snaps_check(void)
{
    for (int i = 0; i < nsnaps; i++) {
        snap_t *s = &snaps[i];
        if (s->j->refcount != s->refs)
            relbad("refcount of %s changed %zu->%zu", s->name, s->refs, s->j->refcount);
        if (s->isconst) {
            char *now = dump(s->j);
            if (strcmp(now, s->txt) != 0)
                relbad("const input %s was modified", s->name);
            free(now);
        }
        free(s->txt);
    }
    nsnaps = 0;
}

#define BEGIN() do { phase("call"); vh_count = 0; vh_hit = 0; vh_on = 1; } while (0)
/* the fault-free calls of the check phase are not the subject: what they allocate (and, on
 * their own error paths, lose) is hidden from LeakSanitizer */
#define END()   do { vh_on = 0; phase("check"); if (__lsan_disable) __lsan_disable(); } while (0)
#define RELEASE() do { if (__lsan_enable) __lsan_enable(); phase("release"); } while (0)

/* feed a buffer in 3 chunks, then done */
static bool
feed3(jose_io_t *io, const void *p, size_t n)
{
    const uint8_t *b = p;
    size_t a = n / 3, c = n / 2;
    if (!io->feed(io, b, a))
        return false;
    if (!io->feed(io, b + a, c - a))
        return false;
    if (!io->feed(io, b + c, n - c))
        return false;
    return io->done(io);
}

/* ------------------------------------------------------------------ scenarios: keys */

static void
gen_common(const char *tmpl, const char *kind)
{
    json_t *jwk = json_loads(tmpl, 0, NULL);
    BEGIN();
    R.ok = jose_jwk_gen(CFG, jwk);
    END();
    if (R.ok) {
        R.prod = shapes(jwk);
        if (strcmp(kind, "oct") == 0) {
            if (jose_b64_dec(json_object_get(jwk, "k"), NULL, 0) != 16)
                bad("generated oct key has no 16-byte k");
        } else {
            /* usable: sign with it, verify with its public half */
            json_t *jws = json_pack("{s:s}", "payload", "cGF5");
            json_t *pub = json_deep_copy(jwk);
            if (!jose_jwk_pub(CFG, pub) || !jose_jws_sig(CFG, jws, NULL, jwk) || !jose_jws_ver(CFG, jws, NULL, pub, false))
                bad("generated %s key does not sign/verify", kind);
            json_decref(jws);
            json_decref(pub);
        }
        if (json_object_get(jwk, "bytes") || json_object_get(jwk, "bits"))
            bad("generation parameters left in the key");
    }
    RELEASE();
    json_decref(jwk);
}

static void s_gen_oct(void) { gen_common("{\"kty\":\"oct\",\"bytes\":16}", "oct"); }
static void s_gen_oct_alg(void) { gen_common("{\"alg\":\"A128GCM\"}", "oct"); }
static void s_gen_ec(void) { gen_common("{\"alg\":\"ES256\"}", "EC"); }
static void s_gen_rsa(void) { gen_common("{\"kty\":\"RSA\",\"bits\":2048}", "RSA"); }

/* templates every run must REFUSE (the named algorithm contradicts kty / bytes / crv): a failed allocation must not
 * turn the refusal into a key -- one scenario per preparation hook */
static void
gen_refuse(const char *tmpl)
{
    json_t *jwk = json_loads(tmpl, 0, NULL);
    BEGIN();
    R.ok = jose_jwk_gen(CFG, jwk);
    END();
    if (R.ok) {
        R.prod = shapes(jwk);
        bad("a contradictory template was served");
    }
    RELEASE();
    json_decref(jwk);
}

static void s_genno_hmac(void) { gen_refuse("{\"alg\":\"HS256\",\"kty\":\"oct\",\"bytes\":16}"); }
static void s_genno_aesgcm(void) { gen_refuse("{\"alg\":\"A128GCM\",\"kty\":\"oct\",\"bytes\":32}"); }
static void s_genno_aescbch(void) { gen_refuse("{\"alg\":\"A128CBC-HS256\",\"kty\":\"oct\",\"bytes\":16}"); }
static void s_genno_aeskw(void) { gen_refuse("{\"alg\":\"A128KW\",\"kty\":\"oct\",\"bytes\":32}"); }
static void s_genno_aesgcmkw(void) { gen_refuse("{\"alg\":\"A128GCMKW\",\"kty\":\"oct\",\"bytes\":32}"); }
static void s_genno_pbes2(void) { gen_refuse("{\"alg\":\"PBES2-HS256+A128KW\",\"kty\":\"EC\",\"crv\":\"P-256\"}"); }
static void s_genno_ecdsa(void) { gen_refuse("{\"alg\":\"ES256\",\"kty\":\"EC\",\"crv\":\"P-384\"}"); }
static void s_genno_ecdh(void) { gen_refuse("{\"alg\":\"ECDH\",\"kty\":\"oct\",\"bytes\":16}"); }
static void s_genno_ecmr(void) { gen_refuse("{\"alg\":\"ECMR\",\"kty\":\"oct\",\"bytes\":16}"); }
static void s_genno_ecdhes(void) { gen_refuse("{\"alg\":\"ECDH-ES\",\"kty\":\"oct\",\"bytes\":16}"); }
static void s_genno_rsaes(void) { gen_refuse("{\"alg\":\"RSA-OAEP\",\"kty\":\"EC\",\"crv\":\"P-256\"}"); }
static void s_genno_rsassa(void) { gen_refuse("{\"alg\":\"RS256\",\"kty\":\"oct\",\"bytes\":32}"); }

static void
pub_common(const json_t *prv, const json_t *want)
{
    json_t *jwk = json_deep_copy(prv);
    BEGIN();
    R.ok = jose_jwk_pub(CFG, jwk);
    END();
    if (R.ok) {
        R.prod = dump(jwk);
        if (!json_equal(jwk, want))
            bad("exported key differs from the fault-free export");
    }
    RELEASE();
    json_decref(jwk);
}

static void s_pub_ec(void) { pub_common(key("ec"), P_ec); }
static void s_pub_rsa(void) { pub_common(key("rsa"), P_rsa); }
static void
s_pub_oct(void)
{
    json_t *w = json_pack("{s:s}", "kty", "oct");
    pub_common(key("oct"), w);
    json_decref(w);
}

static void
thp_common(const json_t *k, const char *alg)
{
    snap(k, "jwk", true);
    BEGIN();
    json_t *t = jose_jwk_thp(CFG, k, alg);
    END();
    R.ok = t != NULL;
    if (t) {
        R.prod = dump(t);
        json_t *w = jose_jwk_thp(CFG, k, alg);
        if (!w || !json_equal(w, t))
            bad("thumbprint differs from the fault-free one");
        json_decref(w);
    }
    RELEASE();
    json_decref(t);
}

static void s_thp_ec(void) { thp_common(key("ec"), "S256"); }
static void s_thp_rsa(void) { thp_common(key("rsa"), "S1"); }
static void s_thp_oct(void) { thp_common(key("oct"), "S512"); }

static void
s_thpbuf(void)
{
    uint8_t b[32 + 16], w[32];
    memset(b, 0xA5, sizeof(b));
    snap(key("ec"), "jwk", true);
    BEGIN();
    size_t r = jose_jwk_thp_buf(CFG, key("ec"), "S256", b, 32);
    END();
    R.ok = r != SIZE_MAX;
    if (R.ok) {
        R.prod = hexs(b, 32);
        if (r != 32)
            bad("thp_buf returned %zu", r);
        if (jose_jwk_thp_buf(CFG, key("ec"), "S256", w, 32) != 32 || memcmp(w, b, 32) != 0)
            bad("thumbprint differs from the fault-free one");
    }
    for (int i = 32; i < 48; i++)
        if (b[i] != 0xA5)
            bad("thp_buf wrote past the buffer");
    RELEASE();
}

static void
eql_common(const json_t *a, const json_t *b, bool want)
{
    json_t *bb = json_deep_copy(b);
    snap(a, "a", true);
    snap(bb, "b", true);
    BEGIN();
    R.ok = jose_jwk_eql(CFG, a, bb);
    END();
    if (R.ok) {
        R.prod = strdup("equal");
        if (!want)
            bad("different keys reported equal");
    }
    RELEASE();
    snaps_check();
    json_decref(bb);
}

static void s_eql(void) { eql_common(key("ec"), key("ec"), true); }
static void s_eql_neq(void) { eql_common(key("ec"), key("ec2"), false); }

static void
s_exc(void)
{
    snap(key("ec"), "lcl", true);
    snap(P_ec2, "rem", true);
    BEGIN();
    json_t *x = jose_jwk_exc(CFG, key("ec"), P_ec2);
    END();
    R.ok = x != NULL;
    if (x) {
        R.prod = dump(x);
        json_t *y = jose_jwk_exc(CFG, key("ec2"), P_ec);   /* the other side of the exchange */
        if (!json_equal(x, X_exc) || !y || !json_equal(x, y))
            bad("exchanged key differs from the fault-free / the peer's result");
        json_decref(y);
    }
    RELEASE();
    json_decref(x);
}

static void
s_exc_ecmr(void)
{
    json_t *lcl = json_deep_copy(key("ec"));
    json_object_set_new(lcl, "alg", json_string("ECMR"));
    json_t *want = jose_jwk_exc(CFG, lcl, P_ec2);
    snap(lcl, "lcl", true);
    snap(P_ec2, "rem", true);
    BEGIN();
    json_t *x = jose_jwk_exc(CFG, lcl, P_ec2);
    END();
    R.ok = x != NULL;
    if (x) {
        R.prod = dump(x);
        if (!want || !json_equal(x, want))
            bad("ECMR result differs from the fault-free one");
    }
    RELEASE();
    snaps_check();
    json_decref(x);
    json_decref(want);
    json_decref(lcl);
}

/* ------------------------------------------------------------------ scenarios: JWS */

static void
sig_common(const json_t *k, const json_t *vk, const char *alg, bool io, bool full)
{
    json_t *jws = json_pack("{s:o}", "payload", jose_b64_enc(PT, PTL));
    json_t *sig = alg ? json_pack("{s:{s:s}}", "protected", "alg", alg) : NULL;
    const char *pay = json_string_value(json_object_get(jws, "payload"));
    size_t payl = strlen(pay);
    snap(k, "jwk", true);
    BEGIN();
    if (!io) {
        R.ok = jose_jws_sig(CFG, jws, sig, k);
    } else {
        jose_io_t *i = jose_jws_sig_io(CFG, jws, sig, k);
        R.ok = i && feed3(i, pay, payl);
        jose_io_decref(i);
    }
    END();
    if (R.ok) {
        R.prod = full ? dump(jws) : shapes(jws);
        if (!jose_jws_ver(CFG, jws, NULL, vk, true))
            bad("produced JWS does not verify");
        json_t *p = json_object_get(jws, "payload");
        if (!p || strcmp(json_string_value(p), pay) != 0)
            bad("payload changed");
    }
    RELEASE();
    json_decref(sig);
    json_decref(jws);
}

static void s_sig_hs256(void) { sig_common(key("oct"), key("oct"), "HS256", false, true); }
static void s_sig_es256(void) { sig_common(key("ec"), P_ec, "ES256", false, false); }
static void s_sig_rs256(void) { sig_common(key("rsa"), P_rsa, "RS256", false, false); }
static void s_sig_ps256(void) { sig_common(key("rsa"), P_rsa, "PS256", false, false); }
static void s_sig_infer(void) { sig_common(key("ec"), P_ec, NULL, false, false); }
static void s_sig_multi(void) { sig_common(KS_multi, KS_multi_pub, NULL, false, false); }
/* ONE template for every key of a set (the library copies it per key): every signature made must carry the
 * template's header -- a copy that could not be made is a failure, not "no template" */
static void
s_sig_multi_tmpl(void)
{
    json_t *jws = json_pack("{s:o}", "payload", jose_b64_enc(PT, PTL));
    json_t *sig = json_pack("{s:{s:s}}", "header", "kid", "shared");
    snap(KS_multi, "jwk", true);
    snap(sig, "sig", true);
    BEGIN();
    R.ok = jose_jws_sig(CFG, jws, sig, KS_multi);
    END();
    if (R.ok) {
        json_t *a = json_object_get(jws, "signatures");
        R.prod = shapes(jws);
        if (json_array_size(a) != 2)
            bad("%zu signatures instead of 2", json_array_size(a));
        for (size_t i = 0; i < json_array_size(a); i++) {
            const char *kid = json_string_value(json_object_get(json_object_get(json_array_get(a, i), "header"), "kid"));
            if (!kid || strcmp(kid, "shared") != 0)
                bad("signature %zu does not carry the template's header", i);
        }
        if (!jose_jws_ver(CFG, jws, NULL, KS_multi_pub, true))
            bad("produced JWS does not verify");
    }
    RELEASE();
    snaps_check();
    json_decref(sig);
    json_decref(jws);
}

static void
s_enc_multi_tmpl(void)
{
    json_t *jwe = json_loads(TM_KWGCM, 0, NULL);
    json_t *rcp = json_pack("{s:{s:s}}", "header", "kid", "shared");
    json_t *ks = json_pack("[O,O]", key("kw"), key("kw"));
    snap(ks, "jwk", true);
    snap(rcp, "rcp", true);
    BEGIN();
    R.ok = jose_jwe_enc(CFG, jwe, rcp, ks, PT, PTL);
    END();
    if (R.ok) {
        size_t l = 0;
        json_t *a = json_object_get(jwe, "recipients");
        R.prod = shapes(jwe);
        if (json_array_size(a) != 2)
            bad("%zu recipients instead of 2", json_array_size(a));
        for (size_t i = 0; i < json_array_size(a); i++) {
            const char *kid = json_string_value(json_object_get(json_object_get(json_array_get(a, i), "header"), "kid"));
            if (!kid || strcmp(kid, "shared") != 0)
                bad("recipient %zu does not carry the template's header", i);
        }
        void *pt = jose_jwe_dec(CFG, jwe, NULL, key("kw"), &l);
        if (!pt || l != PTL || memcmp(pt, PT, l) != 0)
            bad("produced JWE does not decrypt to the plaintext");
        free(pt);
    }
    RELEASE();
    snaps_check();
    json_decref(ks);
    json_decref(rcp);
    json_decref(jwe);
}

static void s_sigio_hs256(void) { sig_common(key("oct"), key("oct"), "HS256", true, true); }
static void s_sigio_es256(void) { sig_common(key("ec"), P_ec, "ES256", true, false); }

static void
ver_common(const json_t *tok, const json_t *k, bool all, bool want, bool io)
{
    const char *pay = json_string_value(json_object_get(tok, "payload"));
    snap(tok, "jws", true);
    snap(k, "jwk", true);
    BEGIN();
    if (!io) {
        R.ok = jose_jws_ver(CFG, tok, NULL, k, all);
    } else {
        jose_io_t *i = jose_jws_ver_io(CFG, tok, NULL, k, all);
        R.ok = i && feed3(i, pay, strlen(pay));
        jose_io_decref(i);
    }
    END();
    if (R.ok) {
        R.prod = strdup("verified");
        if (!want)
            bad("a forged signature was accepted");
    }
    RELEASE();
}

static void s_ver_hs256(void) { ver_common(T_hs, key("oct"), false, true, false); }
static void s_ver_hs256_bad(void) { ver_common(T_hs_bad, key("oct"), false, false, false); }
static void s_ver_es256(void) { ver_common(T_es, P_ec, false, true, false); }
static void s_ver_es256_bad(void) { ver_common(T_es_bad, P_ec, false, false, false); }
static void s_ver_rs256(void) { ver_common(T_rs, P_rsa, false, true, false); }
static void s_ver_rs256_bad(void) { ver_common(T_rs_bad, P_rsa, false, false, false); }
static void s_ver_multi_all(void) { ver_common(T_multi, KS_multi_pub, true, true, false); }
static void s_ver_multi_any(void) { ver_common(T_multi, KS_multi_pub, false, true, false); }
static void s_ver_wrongkey(void) { ver_common(T_hs, key("oct2"), false, false, false); }
/* the RIGHT octets in a key that declares ANOTHER algorithm: refused whatever allocation fails */
static void s_ver_algmismatch(void) { ver_common(T_hs, K_hs_as512, false, false, false); }
static void s_verio_algmismatch(void) { ver_common(T_hs, K_hs_as384, false, false, true); }
static void s_verio_hs256(void) { ver_common(T_hs, key("oct"), false, true, true); }
static void s_verio_hs256_bad(void) { ver_common(T_hs_bad, key("oct"), false, false, true); }
static void s_verio_es256(void) { ver_common(T_es, P_ec, false, true, true); }

/* ------------------------------------------------------------------ scenarios: JWE */

static void
enc_common(const char *tmpl, const json_t *ek, const json_t *dk, int io)
{
    json_t *jwe = json_loads(tmpl, 0, NULL);
    void *ct = NULL;
    size_t ctl = 0;
    snap(ek, "jwk", true);
    BEGIN();
    if (!io) {
        R.ok = jose_jwe_enc(CFG, jwe, NULL, ek, PT, PTL);
    } else {
        /* the documented streaming use: ciphertext -> base64url -> caller's buffer */
        jose_io_t *m = jose_io_malloc(CFG, &ct, &ctl);
        jose_io_t *b = jose_b64_enc_io(m);
        jose_io_t *e = m && b ? jose_jwe_enc_io(CFG, jwe, NULL, ek, b) : NULL;
        /* io = number of feed calls (1 or 3).  Since /repo commit cba5ab8 the plaintext is compressed by ONE
         * deflate stage in front of the cipher, so "zip" can be streamed in several chunks as well */
        R.ok = e && (io == 1 ? e->feed(e, PT, PTL) && e->done(e) : feed3(e, PT, PTL));
        if (R.ok && json_object_set_new(jwe, "ciphertext", json_stringn(ct ? ct : "", ctl)) < 0)
            R.ok = false;
        jose_io_decref(e);
        jose_io_decref(b);
        jose_io_decref(m);
    }
    END();
    if (R.ok) {
        size_t l = 0;
        R.prod = shapes(jwe);
        void *pt = jose_jwe_dec(CFG, jwe, NULL, dk, &l);
        if (!pt)
            bad("produced JWE does not decrypt");
        else if (l != PTL || memcmp(pt, PT, l) != 0)
            bad("produced JWE decrypts to a different plaintext (%zu bytes)", l);
        free(pt);
    }
    RELEASE();
    json_decref(jwe);
}

static void s_enc_kwgcm(void) { enc_common(TM_KWGCM, key("kw"), key("kw"), 0); }
static void s_enc_cbc(void) { enc_common(TM_CBC, key("kw"), key("kw"), 0); }
static void s_enc_zip(void) { enc_common(TM_ZIP, key("kw"), key("kw"), 0); }
static void s_enc_pbes2(void) { enc_common(TM_PBES2, key("pwd"), key("pwd"), 0); }
static void s_enc_ecdhes(void) { enc_common(TM_ECDHES, P_ec, key("ec"), 0); }
static void s_enc_rsa(void) { enc_common(TM_RSA, P_rsa, key("rsa"), 0); }
static void s_enc_gcmkw(void) { enc_common(TM_GCMKW, key("kw"), key("kw"), 0); }
static void s_enc_dir(void) { enc_common(TM_DIR, key("oct2"), key("oct2"), 0); }
static void s_enc_infer(void) { enc_common("{}", key("kw"), key("kw"), 0); }
static void s_encio_kwgcm(void) { enc_common(TM_KWGCM, key("kw"), key("kw"), 3); }
static void s_encio_cbc(void) { enc_common(TM_CBC, key("kw"), key("kw"), 3); }
static void s_encio_zip(void) { enc_common(TM_ZIP, key("kw"), key("kw"), 3); }

static void
dec_common(const json_t *tok, const json_t *k, bool want, bool io)
{
    size_t l = 0;
    void *pt = NULL;
    snap(tok, "jwe", true);
    snap(k, "jwk", true);
    BEGIN();
    if (!io) {
        pt = jose_jwe_dec(CFG, tok, NULL, k, &l);
        R.ok = pt != NULL;
    } else {
        const char *ct = json_string_value(json_object_get(tok, "ciphertext"));
        jose_io_t *m = jose_io_malloc(CFG, &pt, &l);
        jose_io_t *d = m ? jose_jwe_dec_io(CFG, tok, NULL, k, m) : NULL;
        jose_io_t *b = d ? jose_b64_dec_io(d) : NULL;
        R.ok = b && feed3(b, ct, strlen(ct));
        void *mine = R.ok ? jose_io_malloc_steal(&pt) : NULL;
        jose_io_decref(b);
        jose_io_decref(d);
        jose_io_decref(m);
        pt = mine;              /* after a failure the sink owned (and released) the buffer */
    }
    END();
    if (R.ok) {
        R.prod = sha256hex(pt ? pt : (void *) "", l);
        if (!want)
            bad("a forged ciphertext was accepted");
        else if (l != PTL || !pt || memcmp(pt, PT, l) != 0)
            bad("decryption reported success with a wrong plaintext (%zu bytes)", l);
    }
    RELEASE();
    free(pt);
}

static void s_dec_kwgcm(void) { dec_common(E_kwgcm, key("kw"), true, false); }
static void s_dec_kwgcm_bad(void) { dec_common(E_kwgcm_bad, key("kw"), false, false); }
static void s_dec_cbc(void) { dec_common(E_cbc, key("kw"), true, false); }
static void s_dec_cbc_bad(void) { dec_common(E_cbc_bad, key("kw"), false, false); }
static void s_dec_zip(void) { dec_common(E_zip, key("kw"), true, false); }
static void s_dec_pbes2(void) { dec_common(E_pbes2, key("pwd"), true, false); }
static void s_dec_ecdhes(void) { dec_common(E_ecdhes, key("ec"), true, false); }
static void s_dec_rsa(void) { dec_common(E_rsa, key("rsa"), true, false); }
static void s_dec_gcmkw(void) { dec_common(E_gcmkw, key("kw"), true, false); }
static void s_dec_dir(void) { dec_common(E_dir, key("oct2"), true, false); }
static void s_dec_wrongkey(void) { dec_common(E_dir, key("oct"), false, false); }
static void s_decio_kwgcm(void) { dec_common(E_kwgcm, key("kw"), true, true); }
static void s_decio_kwgcm_bad(void) { dec_common(E_kwgcm_bad, key("kw"), false, true); }
static void s_decio_cbc(void) { dec_common(E_cbc, key("kw"), true, true); }
static void s_decio_zip(void) { dec_common(E_zip, key("kw"), true, true); }

/* wrap / unwrap alone */
static void
s_wrap(void)
{
    json_t *jwe = json_loads(TM_KWGCM, 0, NULL);
    json_t *cek = json_object();
    snap(key("kw"), "jwk", true);
    BEGIN();
    R.ok = jose_jwe_enc_jwk(CFG, jwe, NULL, key("kw"), cek);
    END();
    if (R.ok) {
        json_t *sh = json_pack("{s:o,s:o}", "jwe", shape(jwe, NULL), "cek", shape(cek, NULL));
        R.prod = dump(sh);
        json_decref(sh);
        json_t *u = jose_jwe_dec_jwk(CFG, jwe, NULL, key("kw"));
        if (!u || !json_equal(json_object_get(u, "k"), json_object_get(cek, "k")))
            bad("wrapped key does not unwrap to the CEK");
        json_decref(u);
    }
    RELEASE();
    json_decref(cek);
    json_decref(jwe);
}

static void
s_unwrap(void)
{
    json_t *want = jose_jwe_dec_jwk(CFG, E_kwgcm, NULL, key("kw"));
    snap(E_kwgcm, "jwe", true);
    snap(key("kw"), "jwk", true);
    BEGIN();
    json_t *cek = jose_jwe_dec_jwk(CFG, E_kwgcm, NULL, key("kw"));
    END();
    R.ok = cek != NULL;
    if (cek) {
        R.prod = shapes(cek);
        if (!want || !json_equal(json_object_get(cek, "k"), json_object_get(want, "k")))
            bad("unwrapped CEK differs from the fault-free one");
    }
    RELEASE();
    json_decref(cek);
    json_decref(want);
}

/* jose_jwe_dec_jwk for every key-management family (the two-step API: a lying unwrap is visible here, the one-shot
 * jose_jwe_dec would still fail later).  RSA1_5 may by design hand out a random key on a padding failure
 * (RFC 3218), so only "success implies key material" is demanded of it. */
static json_t *E_rsa15;

static void
unwrap_common(const json_t *jwe, const json_t *k, bool exact)
{
    json_t *want = jose_jwe_dec_jwk(CFG, jwe, NULL, k);
    snap(jwe, "jwe", true);
    snap(k, "jwk", true);
    BEGIN();
    json_t *cek = jose_jwe_dec_jwk(CFG, jwe, NULL, k);
    END();
    R.ok = cek != NULL;
    if (cek) {
        const char *kk = json_string_value(json_object_get(cek, "k"));
        R.prod = shapes(cek);
        if (!kk || !*kk)
            bad("unwrap reported success but the CEK carries no key material");
        else if (exact && (!want || !json_equal(json_object_get(cek, "k"), json_object_get(want, "k"))))
            bad("unwrapped CEK differs from the fault-free one");
    }
    RELEASE();
    snaps_check();
    json_decref(cek);
    json_decref(want);
}

static void s_unwrap_rsa15(void)
{
    if (!E_rsa15)
        E_rsa15 = mkjwe("{\"protected\":{\"alg\":\"RSA1_5\",\"enc\":\"A128GCM\"}}", P_rsa);
    unwrap_common(E_rsa15, key("rsa"), false);
}
static void s_unwrap_rsaoaep(void) { unwrap_common(E_rsa, key("rsa"), true); }
static void s_unwrap_ecdhes(void) { unwrap_common(E_ecdhes, key("ec"), true); }
static void s_unwrap_pbes2(void) { unwrap_common(E_pbes2, key("pwd"), true); }
static void s_unwrap_gcmkw(void) { unwrap_common(E_gcmkw, key("kw"), true); }
static void s_unwrap_dir(void) { unwrap_common(E_dir, key("oct2"), true); }

/* ------------------------------------------------------------------ scenarios: base64url */

static void
s_b64_enc(void)
{
    BEGIN();
    json_t *e = jose_b64_enc(PT, PTL);
    END();
    R.ok = e != NULL;
    if (e) {
        uint8_t back[512];
        R.prod = dump(e);
        size_t l = jose_b64_dec(e, back, sizeof(back));
        if (l != PTL || memcmp(back, PT, PTL) != 0)
            bad("encoding does not decode to the input");
    }
    RELEASE();
    json_decref(e);
}

static void
s_b64_dec(void)
{
    json_t *e = jose_b64_enc(PT, PTL);
    uint8_t out[512];
    snap(e, "input", true);
    BEGIN();
    size_t l = jose_b64_dec(e, out, sizeof(out));
    END();
    R.ok = l != SIZE_MAX;
    if (R.ok) {
        R.prod = sha256hex(out, l);
        if (l != PTL || memcmp(out, PT, PTL) != 0)
            bad("decoded bytes differ");
    }
    RELEASE();
    snaps_check();
    json_decref(e);
}

static void
s_b64_dump_load(bool load)
{
    json_t *v = json_pack("{s:s,s:[i,i,{s:n}],s:{s:s}}", "alg", "ES256", "list", 1, 2, "x", "epk", "crv", "P-256");
    json_t *e = jose_b64_enc_dump(v);
    json_t *r = NULL;
    snap(load ? e : v, "input", true);
    BEGIN();
    r = load ? jose_b64_dec_load(e) : jose_b64_enc_dump(v);
    END();
    R.ok = r != NULL;
    if (r) {
        R.prod = dump(r);
        if (!json_equal(r, load ? v : e))
            bad("result differs from the fault-free one");
    }
    RELEASE();
    snaps_check();
    json_decref(r);
    json_decref(e);
    json_decref(v);
}

static void s_b64_load(void) { s_b64_dump_load(true); }
static void s_b64_dump(void) { s_b64_dump_load(false); }

/* ------------------------------------------------------------------ scenario: chains */

#define MAXSINK 16
typedef struct {
    bool is_malloc;
    void *mbuf;
    size_t mlen;
    uint8_t *bbuf;
    size_t bcap, blen;
    jose_io_t *own;
} csink_t;
static csink_t csinks[MAXSINK];
static int ncsinks;
static const char *P;
static bool chain_syntax;

static bool
eat(const char *s)
{
    size_t l = strlen(s);
    if (strncmp(P, s, l) == 0) {
        P += l;
        return true;
    }
    return false;
}

static jose_io_t *cbuild(void);

/* like a careful caller: a constructor that returns NULL ends the construction */
static jose_io_t *
cwrap(jose_io_t *(*mk)(jose_io_t *))
{
    jose_io_t *n = cbuild();
    if (*P == ')')
        P++;
    else
        chain_syntax = true;
    if (!n)
        return NULL;
    jose_io_t *r = mk(n);
    jose_io_decref(n);
    return r;
}

static const jose_hook_alg_t *halg;
static jose_io_t *mk_hash(jose_io_t *n) { return halg->hash.hsh(halg, CFG, n); }

static jose_io_t *
cplex(bool all)
{
    jose_io_t *nx[9] = { NULL };
    int n = 0;
    bool failed = false;
    jose_io_t *r = NULL;
    for (;;) {
        /* the whole shape is always parsed; after a failed constructor the remaining
         * branches are not constructed (cbuild returns NULL immediately) */
        jose_io_t *b = failed ? NULL : cbuild();
        if (failed) {
            /* skip the text of this branch */
            int depth = 0;
            while (*P && !(depth == 0 && (*P == ',' || *P == ')'))) {
                if (*P == '(') depth++;
                if (*P == ')') depth--;
                P++;
            }
        }
        if (!b)
            failed = true;
        else if (n < 8)
            nx[n++] = b;
        if (*P == ',') { P++; continue; }
        if (*P == ')') { P++; break; }
        chain_syntax = true;
        break;
    }
    if (!failed)
        r = jose_io_multiplex(CFG, nx, all);
    for (int i = 0; i < n; i++)
        jose_io_decref(nx[i]);
    return r;
}

static jose_io_t *
cbuild(void)
{
    csink_t *s = &csinks[ncsinks];
    if (eat("malloc")) {
        if (ncsinks >= MAXSINK) { chain_syntax = true; return NULL; }
        s->is_malloc = true;
        ncsinks++;
        s->own = jose_io_malloc(CFG, &s->mbuf, &s->mlen);
        return jose_io_incref(s->own);
    }
    if (eat("buffer:")) {
        if (ncsinks >= MAXSINK) { chain_syntax = true; return NULL; }
        char *e = NULL;
        s->bcap = strtoul(P, &e, 10);
        P = e;
        s->blen = s->bcap;
        ncsinks++;
        s->own = jose_io_buffer(CFG, s->bbuf, &s->blen);
        return jose_io_incref(s->own);
    }
    if (eat("b64enc(")) return cwrap(jose_b64_enc_io);
    if (eat("b64dec(")) return cwrap(jose_b64_dec_io);
    if (eat("plexany(")) return cplex(false);
    if (eat("plexall(")) return cplex(true);
    if (eat("hash:")) {
        char name[16];
        size_t i = 0;
        while (*P && *P != '(' && i < sizeof(name) - 1) name[i++] = *P++;
        name[i] = 0;
        if (*P == '(') P++;
        halg = jose_hook_alg_find(JOSE_HOOK_ALG_KIND_HASH, name);
        if (!halg) { chain_syntax = true; return NULL; }
        return cwrap(mk_hash);
    }
    chain_syntax = true;
    return NULL;
}

/* buffers of buffer sinks are the caller's: allocated before counting starts */
static void
prealloc_buffers(const char *shape)
{
    int i = 0;
    for (const char *p = shape; *p; p++) {
        if (strncmp(p, "malloc", 6) == 0) {
            i++;
        } else if (strncmp(p, "buffer:", 7) == 0) {
            size_t cap = strtoul(p + 7, NULL, 10);
            if (i < MAXSINK) {
                csinks[i].bbuf = malloc(cap + 32);
                memset(csinks[i].bbuf, 0xA5, cap + 32);
            }
            i++;
        }
    }
}

static char *sinks_txt;

static void
s_chain(const char *shape_txt, const char *sizes, const char *hexdata)
{
    static uint8_t dflt[200];
    buf_t data;
    uint8_t *bufs[MAXSINK] = { NULL };
    if (hexdata) {
        data = unhex(hexdata);
    } else {
        for (size_t i = 0; i < sizeof(dflt); i++)
            dflt[i] = (uint8_t) (i * 7 + 3);
        data.p = dflt;
        data.n = sizeof(dflt);
        sizes = "70,1,129";
    }
    ncsinks = 0;
    memset(csinks, 0, sizeof(csinks));
    prealloc_buffers(shape_txt);
    for (int i = 0; i < MAXSINK; i++)
        bufs[i] = csinks[i].bbuf;
    P = shape_txt;
    BEGIN();
    jose_io_t *io = cbuild();
    bool ok = io != NULL;
    size_t off = 0;
    if (ok && strcmp(sizes, "-") != 0) {
        const char *c = sizes;
        while (*c) {
            char *e = NULL;
            size_t l = strtoul(c, &e, 10);
            c = (*e == ',') ? e + 1 : e;
            if (off + l > data.n) l = data.n - off;
            if (!io->feed(io, data.p + off, l)) { ok = false; break; }
            off += l;
        }
    }
    if (ok)
        ok = io->done(io);
    END();
    R.ok = ok;
    if (chain_syntax || *P)
        bad("harness: bad chain shape");
    /* sink contents */
    {
        size_t cap = 16, o = 0;
        for (int i = 0; i < ncsinks; i++)
            cap += 2 * (csinks[i].is_malloc ? csinks[i].mlen : csinks[i].blen) + 32;
        sinks_txt = malloc(cap);
        sinks_txt[0] = 0;
        for (int i = 0; i < ncsinks; i++) {
            csink_t *s = &csinks[i];
            char *h;
            if (s->is_malloc) {
                h = hexs(s->mbuf, s->mbuf ? s->mlen : 0);
            } else {
                bool canary = true;
                for (int j = 0; j < 32; j++)
                    if (bufs[i] && bufs[i][s->bcap + j] != 0xA5) canary = false;
                if (!canary || s->blen > s->bcap) {
                    bad("buffer sink %d overflowed", i);
                    h = strdup("OVERFLOW");
                } else {
                    h = hexs(bufs[i], s->blen);
                }
            }
            o += (size_t) snprintf(sinks_txt + o, cap - o, "%s%s", i ? " " : "", h);
            free(h);
        }
        if (ncsinks == 0)
            strcpy(sinks_txt, "none");
    }
    RELEASE();
    jose_io_decref(io);
    for (int i = 0; i < ncsinks; i++)
        jose_io_decref(csinks[i].own);
    for (int i = 0; i < MAXSINK; i++)
        free(bufs[i]);
    if (hexdata)
        free(data.p);
}

/* ------------------------------------------------------------------ scenarios per registered algorithm
 *   sigalg:<ALG>  veralg:<ALG>  veralg-bad:<ALG>
 *   encalg:<WRAP>:<ENC>  decalg:<WRAP>:<ENC>  decalg-bad:<WRAP>:<ENC>
 * keys are generated (and the tokens for verify/decrypt produced) fault-free in the harness
 * process before the child is forked, once per algorithm */

static json_t *GK;     /* alg -> generated private key (or password) */
static json_t *GT;     /* scenario input tokens */
static const json_t *g_key, *g_pub, *g_tok;
static char g_alg[48], g_enc[48], g_tmpl[200];

static json_t *
gkey(const char *alg, const char *enc)
{
    char id[100];
    snprintf(id, sizeof(id), "%s", strcmp(alg, "dir") == 0 ? enc : alg);
    json_t *k = json_object_get(GK, id);
    if (k)
        return k;
    if (strncmp(alg, "PBES2", 5) == 0) {
        k = json_string("correct horse battery staple");
    } else {
        k = json_pack("{s:s}", "alg", id);
        need(jose_jwk_gen(CFG, k), id);
    }
    json_object_set_new(GK, id, k);
    return k;
}

static json_t *
gpub(const char *id, json_t *k)
{
    char pid[110];
    snprintf(pid, sizeof(pid), "pub:%s", id);
    json_t *p = json_object_get(GK, pid);
    if (p)
        return p;
    if (json_is_string(k))
        p = json_incref(k);
    else
        p = pubof(k);
    /* symmetric keys: the "public half" has no key material; use the key itself */
    if (json_is_object(p) && !json_object_get(p, "x") && !json_object_get(p, "n")) {
        json_decref(p);
        p = json_incref(k);
    }
    json_object_set_new(GK, pid, p);
    return p;
}

/* parent side: prepare whatever the scenario needs; false = not a generic scenario */
static bool
generic_prepare(const char *name)
{
    char buf[160];
    const char *kind = NULL;
    snprintf(buf, sizeof(buf), "%s", name);
    char *c1 = strchr(buf, ':');
    if (!c1)
        return false;
    *c1++ = 0;
    char *c2 = strchr(c1, ':');
    if (c2)
        *c2++ = 0;
    kind = buf;
    if (strcmp(kind, "chain") == 0)
        return false;
    if (!GK) {
        GK = json_object();
        GT = json_object();
    }
    snprintf(g_alg, sizeof(g_alg), "%s", c1);
    snprintf(g_enc, sizeof(g_enc), "%s", c2 ? c2 : "");
    if (__lsan_disable)
        __lsan_disable();
    json_t *k = gkey(g_alg, g_enc);
    g_key = k;
    g_pub = gpub(strcmp(g_alg, "dir") == 0 ? g_enc : g_alg, k);
    g_tok = NULL;
    if (strncmp(kind, "ver", 3) == 0) {
        json_t *t = json_object_get(GT, name);
        if (!t) {
            t = mkjws(k, g_alg);
            if (strcmp(kind, "veralg-bad") == 0) {
                json_t *b = tamper(t, "signature");
                json_decref(t);
                t = b;
            }
            json_object_set_new(GT, name, t);
        }
        g_tok = t;
    }
    if (strncmp(kind, "enc", 3) == 0 || strncmp(kind, "dec", 3) == 0)
        snprintf(g_tmpl, sizeof(g_tmpl), "{\"protected\":{\"alg\":\"%s\",\"enc\":\"%s\"%s}}", g_alg, g_enc,
                 strncmp(g_alg, "PBES2", 5) == 0 ? ",\"p2c\":1000" : "");
    if (strncmp(kind, "dec", 3) == 0) {
        json_t *t = json_object_get(GT, name);
        if (!t) {
            t = mkjwe(g_tmpl, g_pub);
            if (strcmp(kind, "decalg-bad") == 0) {
                json_t *b = tamper(t, "tag");
                json_decref(t);
                t = b;
            }
            json_object_set_new(GT, name, t);
        }
        g_tok = t;
    }
    if (__lsan_enable)
        __lsan_enable();
    return true;
}

/* child side */
static bool
generic_run(const char *name)
{
    if (strncmp(name, "sigalg:", 7) == 0)
        sig_common(g_key, g_pub, g_alg, false, false);
    else if (strncmp(name, "veralg:", 7) == 0)
        ver_common(g_tok, g_pub, false, true, false);
    else if (strncmp(name, "veralg-bad:", 11) == 0)
        ver_common(g_tok, g_pub, false, false, false);
    else if (strncmp(name, "encalg:", 7) == 0)
        enc_common(g_tmpl, g_pub, g_key, 0);
    else if (strncmp(name, "decalg:", 7) == 0)
        dec_common(g_tok, g_key, true, false);
    else if (strncmp(name, "decalg-bad:", 11) == 0)
        dec_common(g_tok, g_key, false, false);
    else
        return false;
    return true;
}

/* ------------------------------------------------------------------ the command */

typedef struct { const char *name; void (*fn)(void); } scen_t;

static const scen_t scens[] = {
    { "gen-oct", s_gen_oct }, { "gen-oct-alg", s_gen_oct_alg }, { "gen-ec", s_gen_ec }, { "gen-rsa", s_gen_rsa },
    { "genno-hmac", s_genno_hmac }, { "genno-aesgcm", s_genno_aesgcm }, { "genno-aescbch", s_genno_aescbch }, { "genno-aeskw", s_genno_aeskw },
    { "genno-aesgcmkw", s_genno_aesgcmkw }, { "genno-pbes2", s_genno_pbes2 }, { "genno-ecdsa", s_genno_ecdsa }, { "genno-ecdh", s_genno_ecdh },
    { "genno-ecmr", s_genno_ecmr }, { "genno-ecdhes", s_genno_ecdhes }, { "genno-rsaes", s_genno_rsaes }, { "genno-rsassa", s_genno_rsassa },
    { "pub-ec", s_pub_ec }, { "pub-rsa", s_pub_rsa }, { "pub-oct", s_pub_oct },
    { "thp-ec", s_thp_ec }, { "thp-rsa", s_thp_rsa }, { "thp-oct", s_thp_oct }, { "thpbuf", s_thpbuf },
    { "eql", s_eql }, { "eql-neq", s_eql_neq }, { "exc", s_exc }, { "exc-ecmr", s_exc_ecmr },
    { "sig-hs256", s_sig_hs256 }, { "sig-es256", s_sig_es256 }, { "sig-rs256", s_sig_rs256 },
    { "sig-ps256", s_sig_ps256 }, { "sig-infer", s_sig_infer }, { "sig-multi", s_sig_multi }, { "sig-multi-tmpl", s_sig_multi_tmpl },
    { "enc-multi-tmpl", s_enc_multi_tmpl },
    { "sigio-hs256", s_sigio_hs256 }, { "sigio-es256", s_sigio_es256 },
    { "ver-hs256", s_ver_hs256 }, { "ver-hs256-bad", s_ver_hs256_bad }, { "ver-es256", s_ver_es256 },
    { "ver-es256-bad", s_ver_es256_bad }, { "ver-rs256", s_ver_rs256 }, { "ver-rs256-bad", s_ver_rs256_bad },
    { "ver-multi-all", s_ver_multi_all }, { "ver-multi-any", s_ver_multi_any }, { "ver-wrongkey", s_ver_wrongkey },
    { "ver-algmismatch", s_ver_algmismatch }, { "verio-algmismatch", s_verio_algmismatch },
    { "verio-hs256", s_verio_hs256 }, { "verio-hs256-bad", s_verio_hs256_bad }, { "verio-es256", s_verio_es256 },
    { "wrap", s_wrap }, { "unwrap", s_unwrap },
    { "unwrap-rsa15", s_unwrap_rsa15 }, { "unwrap-rsaoaep", s_unwrap_rsaoaep }, { "unwrap-ecdhes", s_unwrap_ecdhes },
    { "unwrap-pbes2", s_unwrap_pbes2 }, { "unwrap-gcmkw", s_unwrap_gcmkw }, { "unwrap-dir", s_unwrap_dir },
    { "enc-kwgcm", s_enc_kwgcm }, { "enc-cbc", s_enc_cbc }, { "enc-zip", s_enc_zip }, { "enc-pbes2", s_enc_pbes2 },
    { "enc-ecdhes", s_enc_ecdhes }, { "enc-rsa", s_enc_rsa }, { "enc-gcmkw", s_enc_gcmkw }, { "enc-dir", s_enc_dir },
    { "enc-infer", s_enc_infer },
    { "encio-kwgcm", s_encio_kwgcm }, { "encio-cbc", s_encio_cbc }, { "encio-zip", s_encio_zip },
    { "dec-kwgcm", s_dec_kwgcm }, { "dec-kwgcm-bad", s_dec_kwgcm_bad }, { "dec-cbc", s_dec_cbc },
    { "dec-cbc-bad", s_dec_cbc_bad }, { "dec-zip", s_dec_zip }, { "dec-pbes2", s_dec_pbes2 },
    { "dec-ecdhes", s_dec_ecdhes }, { "dec-rsa", s_dec_rsa }, { "dec-gcmkw", s_dec_gcmkw }, { "dec-dir", s_dec_dir },
    { "dec-wrongkey", s_dec_wrongkey },
    { "decio-kwgcm", s_decio_kwgcm }, { "decio-kwgcm-bad", s_decio_kwgcm_bad }, { "decio-cbc", s_decio_cbc },
    { "decio-zip", s_decio_zip },
    { "b64-enc", s_b64_enc }, { "b64-dec", s_b64_dec }, { "b64-load", s_b64_load }, { "b64-dump", s_b64_dump },
    { NULL, NULL }
};

static void
child(const char *name, long k, bool trace, int fd)
{
    char live_desc[1200];
    PH = fd;
    alarm(60);
    blks = calloc(MAXBLK, sizeof(*blks));
    nblks = 0;
    vh_fail_at = k;
    vh_trace = trace;
    if (trace && getenv("C20_SHOW"))
        vh_show = strtol(getenv("C20_SHOW"), NULL, 10);
    memset(&R, 0, sizeof(R));
    strcpy(R.check, "good");
    strcpy(R.rel, "ok");
    json_set_alloc_funcs(jh_malloc, jh_free);

    bool is_chain = strncmp(name, "chain:", 6) == 0;
    if (is_chain) {
        s_chain(name + 6, NF > 5 ? F[4] : NULL, NF > 5 ? F[5] : NULL);
    } else if (generic_run(name)) {
        /* done */
    } else {
        const scen_t *s = scens;
        while (s->name && strcmp(s->name, name) != 0)
            s++;
        if (!s->name) {
            dprintf(fd, "=UNKNOWN-SCENARIO %s\n", name);
            _exit(0);
        }
        s->fn();
    }
    snaps_check();
    json_set_alloc_funcs(malloc, free);

    phase("leakcheck");
    long live = live_blocks(live_desc, sizeof(live_desc));
    int lsan = -1;
    if (__lsan_do_recoverable_leak_check)
        lsan = __lsan_do_recoverable_leak_check() ? 1 : 0;

    FILE *o = fdopen(fd, "w");
    fprintf(o, "=%s\tn=%ld\thit=%d\tat=", R.ok ? "ok" : "fail", vh_count, vh_hit);
    if (vh_hit)
        fprintf(o, "%s@%lx/%lx\t", vh_what, vh_at1, vh_at2);
    else
        fputs("-\t", o);
    if (is_chain)
        fprintf(o, "check=%s\tsinks=%s", R.check, sinks_txt ? sinks_txt : "none");
    else
        fprintf(o, "check=%s\tprod=%s", R.check, R.ok && R.prod ? R.prod : "-");
    fprintf(o, "\tlive=%ld%s%s\tlsan=", live, live ? ":" : "", live ? live_desc : "");
    if (lsan < 0)
        fputs("-", o);
    else
        fprintf(o, "%d", lsan);
    fprintf(o, "\trel=%s\n", R.rel);
    fflush(o);
    _exit(0);
}

/* a stack frame line of a sanitizer report that lies in the library's sources */
static bool
lib_frame(const char *line)
{
    const char *p = strstr(line, "/lib/");
    return strstr(line, "    #") && p && strstr(p, ".c:") && !strstr(line, "/harness/") && strstr(line, " in ");
}

/* first frame of the library in a sanitizer report, and its summary line */
static void
summarize(FILE *err, char *out, size_t ol)
{
    char line[1024];
    char summary[300] = "", site[300] = "", kind[200] = "";
    rewind(err);
    while (fgets(line, sizeof(line), err)) {
        char *p;
        line[strcspn(line, "\n")] = 0;
        if ((p = strstr(line, "SUMMARY: ")) && !summary[0])
            snprintf(summary, sizeof(summary), "%s", p + 9);
        if ((p = strstr(line, "runtime error: ")) && !kind[0])
            snprintf(kind, sizeof(kind), "%s", p);
        if (!site[0] && lib_frame(line)) {
            char *in = strstr(line, " in ");
            snprintf(site, sizeof(site), "%s", in + 4);
        }
    }
    /* strip absolute directories and addresses */
    for (char *s = summary; *s; s++)
        if (*s == '\t') *s = ' ';
    snprintf(out, ol, "%s%s%s%s%s", summary[0] ? summary : kind, site[0] ? " site=" : "", site,
             "", "");
}

static void
c_fail(void)
{
    if (NF < 3) {
        fputs("USAGE fail <scenario> <k> [trace]", stdout);
        return;
    }
    init_once();
    if (strcmp(F[1], "keys") == 0) {
        json_t *o = json_pack("{s:O,s:s,s:o}", "keys", KEYS, "pt", PT, "payload", jose_b64_enc(PT, PTL));
        putjson(o);
        json_decref(o);
        return;
    }
    if (strcmp(F[1], "algs") == 0) {
        /* the registered algorithms, for the per-algorithm scenarios */
        json_t *o = json_pack("{s:[],s:[],s:[]}", "sign", "wrap", "encr");
        for (const jose_hook_alg_t *a = jose_hook_alg_list(); a; a = a->next) {
            const char *kk = a->kind == JOSE_HOOK_ALG_KIND_SIGN ? "sign" : a->kind == JOSE_HOOK_ALG_KIND_WRAP ? "wrap"
                           : a->kind == JOSE_HOOK_ALG_KIND_ENCR ? "encr" : NULL;
            if (kk)
                json_array_append_new(json_object_get(o, kk), json_string(a->name));
        }
        putjson(o);
        json_decref(o);
        return;
    }
    if (strcmp(F[1], "scenarios") == 0) {
        for (const scen_t *s = scens; s->name; s++)
            printf("%s%s", s == scens ? "" : " ", s->name);
        return;
    }
    long k = strtol(F[2], NULL, 10);
    bool trace = NF > 3 && strcmp(F[3], "trace") == 0;
    generic_prepare(F[1]);
    int pfd[2];
    if (pipe(pfd) < 0) {
        fputs("HARNESS-ERROR pipe", stdout);
        return;
    }
    FILE *err = tmpfile();
    fflush(stdout);
    fflush(stderr);
    pid_t pid = fork();
    if (pid < 0) {
        fputs("HARNESS-ERROR fork", stdout);
        return;
    }
    if (pid == 0) {
        close(pfd[0]);
        if (err)
            dup2(fileno(err), 2);
        child(F[1], k, trace, pfd[1]);
        _exit(0);
    }
    close(pfd[1]);
    /* read phase markers ("@phase") and the result ("=line") */
    char *result = NULL;
    char ph[64] = "start";
    char at[96] = "-";
    {
        FILE *in = fdopen(pfd[0], "r");
        char *line = NULL;
        size_t cap = 0;
        ssize_t n;
        while ((n = getline(&line, &cap, in)) >= 0) {
            while (n > 0 && line[n - 1] == '\n')
                line[--n] = 0;
            if (line[0] == '@')
                snprintf(ph, sizeof(ph), "%s", line + 1);
            else if (line[0] == '!')
                snprintf(at, sizeof(at), "%s", line + 1);
            else if (line[0] == '=') {
                free(result);
                result = strdup(line + 1);
            }
        }
        free(line);
        fclose(in);
    }
    int st = 0;
    while (waitpid(pid, &st, 0) < 0 && errno == EINTR)
        continue;
    if (trace && err) {
        char b[4096];
        size_t n;
        rewind(err);
        while ((n = fread(b, 1, sizeof(b), err)) > 0)
            fwrite(b, 1, n, stderr);
    }
    if (result && WIFEXITED(st) && WEXITSTATUS(st) == 0) {
        fputs(result, stdout);
        if (strstr(result, "\tlsan=1") && err) {
            /* where the block LeakSanitizer complains about was requested by the library */
            char line[1024], site[300] = "?";
            bool in_leak = false;
            rewind(err);
            while (fgets(line, sizeof(line), err)) {
                line[strcspn(line, "\n")] = 0;
                if (strstr(line, "leak of "))
                    in_leak = true;
                char *in = strstr(line, " in ");
                if (in_leak && lib_frame(line)) {
                    snprintf(site, sizeof(site), "%s", in + 4);
                    break;
                }
            }
            printf("\tlsanat=%s", site);
        }
    } else {
        char sum[700] = "";
        if (err)
            summarize(err, sum, sizeof(sum));
        if (WIFSIGNALED(st))
            printf("CRASH phase=%s\tat=%s\tsignal %d %s", ph, at, WTERMSIG(st), sum);
        else
            printf("CRASH phase=%s\tat=%s\texit %d %s", ph, at, WIFEXITED(st) ? WEXITSTATUS(st) : -1, sum);
    }
    free(result);
    if (err)
        fclose(err);
}

static const cmd_t cmds_alloc[] = {
    { "fail", c_fail },
    { NULL, NULL }
};
REGISTER(cmds_alloc)
