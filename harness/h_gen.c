/* C11: key generation.
 *   genx <template> [tag]   -> "OK" TAB <JWK after jose_jwk_gen()>   or   "ERR"
 *                              (tag is ignored: it only makes repeated case lines distinct)
 *   genhooks                -> the RUNNING order of the jwk hook list, grouped by kind, one token per hook:
 *                                prep=<alg names whose {"alg":name} the hook's handles() accepts>
 *                                make=<kty values whose {"kty":kty} the hook's handles() accepts>
 *                                type=<kty>:<required members>
 *                              probed through the function pointers of the registered hooks, over every
 *                              registered algorithm name / key type (nothing is read from the sources). */
#include "h.h"
#include "hooks.h"

static void
c_genx(void)
{
    json_t *t = jarg(F[1]);

    if (jose_jwk_gen(NULL, t)) {
        fputs("OK\t", stdout);
        putjson(t);
    } else {
        fputs("ERR", stdout);
    }

    json_decref(t);
}

/* gen2 <template 1> <template 2>: generate a key, then treat it the way an application may (public export in place,
 * key_ops emptied), then generate a second key: the second generation must not depend on the first
 *   -> OK TAB second key | ERR */
static void
c_gen2(void)
{
    json_t *a = jarg(F[1]);
    json_t *b = jarg(F[2]);

    if (jose_jwk_gen(NULL, a)) {
        (void) jose_jwk_pub(NULL, a);
        json_array_clear(json_object_get(a, "key_ops"));
    }
    if (jose_jwk_gen(NULL, b)) {
        fputs("OK\t", stdout);
        putjson(b);
    } else {
        fputs("ERR", stdout);
    }
    json_decref(a);
    json_decref(b);
}

static void
c_genhooks(void)
{
    static const jose_hook_jwk_kind_t order[] = {
        JOSE_HOOK_JWK_KIND_PREP, JOSE_HOOK_JWK_KIND_MAKE, JOSE_HOOK_JWK_KIND_TYPE
    };
    bool first = true;

    /* jwk_hook() and the TYPE loop of jose_jwk_gen() each walk the list for ONE kind: the relative order of
     * hooks of different kinds is immaterial, so the dump is grouped by kind (running order within a kind) */
    for (size_t o = 0; o < sizeof(order) / sizeof(*order); o++) {
        for (const jose_hook_jwk_t *j = jose_hook_jwk_list(); j; j = j->next) {
            bool one = true;

            if (j->kind != order[o])
                continue;

            if (!first)
                putchar(' ');
            first = false;

            switch (j->kind) {
            case JOSE_HOOK_JWK_KIND_PREP:
                fputs("prep=", stdout);
                for (const jose_hook_alg_t *a = jose_hook_alg_list(); a; a = a->next) {
                    json_t *t = json_pack("{s:s}", "alg", a->name);
                    if (j->prep.handles(NULL, t)) {
                        printf("%s%s", one ? "" : ",", a->name);
                        one = false;
                    }
                    json_decref(t);
                }
                break;

            case JOSE_HOOK_JWK_KIND_MAKE:
                fputs("make=", stdout);
                for (const jose_hook_jwk_t *k = jose_hook_jwk_list(); k; k = k->next) {
                    json_t *t = NULL;
                    if (k->kind != JOSE_HOOK_JWK_KIND_TYPE)
                        continue;
                    t = json_pack("{s:s}", "kty", k->type.kty);
                    if (j->make.handles(NULL, t)) {
                        printf("%s%s", one ? "" : ",", k->type.kty);
                        one = false;
                    }
                    json_decref(t);
                }
                break;

            default:
                printf("type=%s:", j->type.kty);
                for (size_t i = 0; j->type.req && j->type.req[i]; i++)
                    printf("%s%s", i ? "," : "", j->type.req[i]);
                break;
            }
        }
    }
}

static const cmd_t cmds_gen[] = {
    { "genx", c_genx },
    { "gen2", c_gen2 },
    { "genhooks", c_genhooks },
    { NULL, NULL }
};
REGISTER(cmds_gen)
