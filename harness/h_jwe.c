/* JWE encrypt / decrypt
 *   jweenc <jwe template> <rcp|-> <jwk> <plaintext hex>     -> JWE after jose_jwe_enc, or ERR
 *   jweenc2 <jwe template> <jwk1> <jwk2> <plaintext hex>    -> two recipients (enc_jwk twice with one CEK, then enc_cek): JWE + TAB + CEK
 *   jwedec <jwe> <rcp|-> <jwk>                              -> plaintext hex | ERR      (jose_jwe_dec)
 *   jwedecio <jwe> <rcp|-> <jwk> <chunk sizes|->            -> N | <accepted> <T|F|-> <plaintext hex> (ciphertext TEXT fed through b64 decoder stage)
 *   jweunw <jwe> <rcp|-> <jwk>                              -> CEK JSON | ERR           (jose_jwe_dec_jwk)  */
#include "h.h"

static void
c_jweenc(void)
{
    json_t *jwe = jarg(F[1]);
    json_t *rcp = jarg(F[2]);
    json_t *jwk = jarg(F[3]);
    buf_t pt = unhex(F[4]);
    if (jose_jwe_enc(NULL, jwe, rcp, jwk, pt.p, pt.n))
        putjson(jwe);
    else
        fputs("ERR", stdout);
    free(pt.p);
    json_decref(jwe);
    json_decref(rcp);
    json_decref(jwk);
}

static void
c_jweenc2(void)
{
    json_t *jwe = jarg(F[1]);
    json_t *k1 = jarg(F[2]);
    json_t *k2 = jarg(F[3]);
    buf_t pt = unhex(F[4]);
    json_t *cek = json_object();
    if (jose_jwe_enc_jwk(NULL, jwe, NULL, k1, cek) && jose_jwe_enc_jwk(NULL, jwe, NULL, k2, cek) &&
        jose_jwe_enc_cek(NULL, jwe, cek, pt.p, pt.n)) {
        putjson(jwe);
        putchar('\t');
        putjson(cek);
    } else {
        fputs("ERR", stdout);
    }
    free(pt.p);
    json_decref(cek);
    json_decref(jwe);
    json_decref(k1);
    json_decref(k2);
}

static void
c_jwedec(void)
{
    json_t *jwe = jarg(F[1]);
    json_t *rcp = jarg(F[2]);
    json_t *jwk = jarg(F[3]);
    size_t len = 0;
    void *pt = jose_jwe_dec(NULL, jwe, rcp, jwk, &len);
    if (pt) {
        fputs("OK ", stdout);
        puthex(pt, len);
    } else {
        fputs("ERR", stdout);
    }
    free(pt);
    json_decref(jwe);
    json_decref(rcp);
    json_decref(jwk);
}

static void
c_jwedecio(void)
{
    json_t *jwe = jarg(F[1]);
    json_t *rcp = jarg(F[2]);
    json_t *jwk = jarg(F[3]);
    void *buf = NULL;
    size_t len = 0;
    jose_io_t *sink = jose_io_malloc(NULL, &buf, &len);
    jose_io_t *d = jose_jwe_dec_io(NULL, jwe, rcp, jwk, sink);
    jose_io_t *io = d ? jose_b64_dec_io(d) : NULL;
    const char *ct = json_string_value(json_object_get(jwe, "ciphertext"));
    size_t ctl = ct ? json_string_length(json_object_get(jwe, "ciphertext")) : 0;
    if (!io) {
        fputs("N", stdout);
    } else {
        size_t off = 0;
        int accepted = 0;
        bool ok = true;
        if (strcmp(F[4], "-") != 0) {
            const char *c = F[4];
            while (*c) {
                char *e = NULL;
                size_t l = (size_t) strtoul(c, &e, 10);
                c = (*e == ',') ? e + 1 : e;
                if (off + l > ctl) l = ctl - off;
                if (!io->feed(io, ct + off, l)) { ok = false; break; }
                off += l;
                accepted++;
            }
        }
        bool v = ok && io->done(io);
        printf("%d %s ", accepted, !ok ? "-" : v ? "T" : "F");
        if (v) puthex(buf, len); else fputs("x", stdout);
    }
    jose_io_decref(io);
    jose_io_decref(d);
    if (sink) { void *b = jose_io_malloc_steal(&buf); jose_io_decref(sink); free(b); }
    json_decref(jwe);
    json_decref(rcp);
    json_decref(jwk);
}

static void
c_jweunw(void)
{
    json_t *jwe = jarg(F[1]);
    json_t *rcp = jarg(F[2]);
    json_t *jwk = jarg(F[3]);
    json_t *cek = jose_jwe_dec_jwk(NULL, jwe, rcp, jwk);
    putjson(cek);
    json_decref(cek);
    json_decref(jwe);
    json_decref(rcp);
    json_decref(jwk);
}

static const cmd_t cmds_jwe[] = {
    { "jweenc", c_jweenc },
    { "jweenc2", c_jweenc2 },
    { "jwedec", c_jwedec },
    { "jwedecio", c_jwedecio },
    { "jweunw", c_jweunw },
    { NULL, NULL }
};
REGISTER(cmds_jwe)

/* jwerewrap <jwe> <old key> <new key> : recover the CEK with the old key, wrap it to the new key
 * (no re-encryption); prints the JWE with the added recipient, or ERR */
static void
c_jwerewrap(void)
{
    json_t *jwe = jarg(F[1]);
    json_t *oldk = jarg(F[2]);
    json_t *newk = jarg(F[3]);
    json_t *cek = jose_jwe_dec_jwk(NULL, jwe, NULL, oldk);
    if (cek && jose_jwe_enc_jwk(NULL, jwe, NULL, newk, cek))
        putjson(jwe);
    else
        fputs("ERR", stdout);
    json_decref(cek);
    json_decref(jwe);
    json_decref(oldk);
    json_decref(newk);
}

static const cmd_t cmds_jwe2[] = {
    { "jwerewrap", c_jwerewrap },
    { NULL, NULL }
};
REGISTER(cmds_jwe2)
