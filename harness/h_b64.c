#include "h.h"

#define CANARY 64
#define FILL 0xA5

static uint8_t *
mkout(size_t ol)
{
    uint8_t *o = malloc(ol + CANARY);
    memset(o, FILL, ol + CANARY);
    return o;
}

static void
putout(size_t ret, const uint8_t *o, size_t ol)
{
    bool ok = true;
    for (size_t i = 0; i < CANARY; i++)
        if (o[ol + i] != FILL)
            ok = false;
    putsz(ret);
    putchar(' ');
    puthex(o, ol);
    putchar(' ');
    fputs(ok ? "canary-ok" : "CANARY-BROKEN", stdout);
}

/* b64decbuf <hex> <ol|NULL> */
static void
c_decbuf(void)
{
    buf_t in = unhex(F[1]);
    if (strcmp(F[2], "NULL") == 0) {
        putsz(jose_b64_dec_buf(in.p, in.n, NULL, 0));
    } else {
        size_t ol = (size_t) argll(F[2]);
        uint8_t *o = mkout(ol);
        size_t r = jose_b64_dec_buf(in.p, in.n, o, ol);
        putout(r, o, ol);
        free(o);
    }
    free(in.p);
}

static void
c_encbuf(void)
{
    buf_t in = unhex(F[1]);
    if (strcmp(F[2], "NULL") == 0) {
        putsz(jose_b64_enc_buf(in.p, in.n, NULL, 0));
    } else {
        size_t ol = (size_t) argll(F[2]);
        uint8_t *o = mkout(ol);
        size_t r = jose_b64_enc_buf(in.p, in.n, o, ol);
        putout(r, o, ol);
        free(o);
    }
    free(in.p);
}

/* b64dec <json> <ol|NULL> : jose_b64_dec on a JSON value */
static void
c_dec(void)
{
    json_t *j = jarg(F[1]);
    if (strcmp(F[2], "NULL") == 0) {
        putsz(jose_b64_dec(j, NULL, 0));
    } else {
        size_t ol = (size_t) argll(F[2]);
        uint8_t *o = mkout(ol);
        size_t r = jose_b64_dec(j, o, ol);
        putout(r, o, ol);
        free(o);
    }
    json_decref(j);
}

static void
c_enc(void)
{
    buf_t in = unhex(F[1]);
    json_t *j = jose_b64_enc(in.p, in.n);
    putjson(j);
    json_decref(j);
    free(in.p);
}

static void
c_load(void)
{
    json_t *j = jarg(F[1]);
    json_t *o = jose_b64_dec_load(j);
    putjson(o);
    json_decref(o);
    json_decref(j);
}

static void
c_dump(void)
{
    json_t *j = jarg(F[1]);
    json_t *o = jose_b64_enc_dump(j);
    putjson(o);
    json_decref(o);
    json_decref(j);
}

static const cmd_t cmds_b64[] = {
    { "b64decbuf", c_decbuf },
    { "b64encbuf", c_encbuf },
    { "b64dec", c_dec },
    { "b64enc", c_enc },
    { "b64load", c_load },
    { "b64dump", c_dump },
    { NULL, NULL }
};
REGISTER(cmds_b64)
