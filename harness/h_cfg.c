/* C17: no hidden state -- contexts, argument preservation, threads.
 *
 *   cfg <op;op;...>        one token per operation, separated by a blank
 *        c<k>              jose_cfg() into slot k                          -> "." | "!" (slot occupied: skipped)
 *        i<k> | iN         jose_cfg_incref(slot k | NULL)                  -> "." | "!" (no live context: skipped)
 *        d<k> | dN         jose_cfg_decref                                 -> "." | "!"
 *        a<k> | aN         jose_cfg_auto(&p), p = slot k | NULL            -> "." | "!"
 *        s<k>,<h>,<m>      jose_cfg_set_err_func(slot k, handler h (0 = NULL), (void *) m) -> "." | "!"
 *        g<k> | gN         jose_cfg_get_err_misc -> the pointer: a small integer as such, "H<n>" if it is
 *                          handler n's address, "?" for anything else
 *        e<k>,<code> | eN,<code>   jose_cfg_err(slot k | NULL, code, "m%d", 7)
 *                          -> "h<n>(<misc>,<code>,<text>)" as logged by handler n, or
 *                             "default(<what was written to stderr after file:line:>)", or "none"
 *        code: < 100 the errno value itself (0 = none), >= 100: _JOSE_CFG_ERR_BASE + (code - 100)
 *      The harness never uses a freed context: it counts the references it holds.  Nothing is flushed
 *      before a NULL operation, so a crash leaves no partial line behind.
 *
 *   c17mk                  -> JSON object with keys, signed and encrypted objects made by the library
 *
 *   pure <function> <args...>   -> one token per JSON argument ("=" unchanged, "M" value changed,
 *                          "R<delta>" some node's reference count changed, "-" NULL argument), TAB, verdict T|F
 *        ver <jws> <sig|-> <jwk> <all>      jws_hdr <sig>           jwe_hdr <jwe> <rcp|->
 *        dec <jwe> <rcp|-> <jwk>            dec_jwk <jwe> <rcp|-> <jwk>     dec_cek <jwe> <cek>
 *        thp <jwk> <hash>                   thp_buf <jwk> <hash> <len>      eql <a> <b>
 *        prm <jwk> <req 0|1> <op|NULL>      exc <prv> <pub>
 *        b64_dec <json>   b64_dec_load <json>   b64_enc_dump <json>
 *        sig_tmpl <jws> <template> <key array>          (tokens: template, keys)
 *        encjwk_tmpl <jwe> <template|-> <key array> <cek>   (tokens: template, keys)
 *
 *   threads <n> <seed>     n threads, each a seed-derived sequence of independent operations on its own
 *                          objects, compared with the same sequences run one after another
 *                          -> "OK" | "DIFF <thread> <step> seq=<..> par=<..>" */
#include "h.h"
#include <errno.h>
#include <fcntl.h>
#include <pthread.h>
#include <stdarg.h>
#include <unistd.h>

/* ================================================================== cfg */

#define NSLOT 8
#define NHAND 3

static char evbuf[512];

static unsigned long long
proto_code(uint64_t err)
{
    if (err >= _JOSE_CFG_ERR_BASE)
        return 100 + (unsigned long long) (err - _JOSE_CFG_ERR_BASE);
    return (unsigned long long) err;
}

static void
hlog(int n, void *misc, uint64_t err, const char *fmt, va_list ap)
{
    char msg[128];
    vsnprintf(msg, sizeof(msg), fmt, ap);
    size_t l = strlen(evbuf);
    snprintf(evbuf + l, sizeof(evbuf) - l, "h%d(%llu,%llu,%s)", n,
             (unsigned long long) (uintptr_t) misc, proto_code(err), msg);
}

static void h1(void *m, const char *f, int l, uint64_t e, const char *fmt, va_list ap) { hlog(1, m, e, fmt, ap); }
static void h2(void *m, const char *f, int l, uint64_t e, const char *fmt, va_list ap) { hlog(2, m, e, fmt, ap); }
static void h3(void *m, const char *f, int l, uint64_t e, const char *fmt, va_list ap) { hlog(3, m, e, fmt, ap); }
static jose_cfg_err_t *const handlers[NHAND + 1] = { NULL, h1, h2, h3 };

static int cap_r = -1, cap_w = -1;

static void
cap_init(void)
{
    int p[2];
    if (cap_r >= 0)
        return;
    if (pipe(p) != 0) {
        perror("pipe");
        exit(3);
    }
    cap_r = p[0];
    cap_w = p[1];
    fcntl(cap_r, F_SETFL, fcntl(cap_r, F_GETFL) | O_NONBLOCK);
}

static uint64_t
real_code(const char *s)
{
    unsigned long long k = strtoull(s, NULL, 10);
    return k < 100 ? k : _JOSE_CFG_ERR_BASE + (k - 100);
}

/* report an error on cfg and say who received it */
static void
do_err(jose_cfg_t *cfg, uint64_t code)
{
    char txt[1024];
    ssize_t n;
    int saved;

    cap_init();
    evbuf[0] = 0;
    fflush(stderr);
    saved = dup(2);
    dup2(cap_w, 2);
    jose_cfg_err(cfg, code, "m%d", 7);
    fflush(stderr);
    dup2(saved, 2);
    close(saved);
    n = read(cap_r, txt, sizeof(txt) - 1);
    if (n < 0)
        n = 0;
    txt[n] = 0;

    if (evbuf[0]) {
        fputs(evbuf, stdout);
        if (n > 0)
            fputs("+stderr", stdout);      /* delivered twice */
        return;
    }
    if (n == 0) {
        fputs("none", stdout);
        return;
    }
    /* "<file>:<line>:" then the rest */
    char *p = strchr(txt, ':');
    if (p)
        p = strchr(p + 1, ':');
    p = p ? p + 1 : txt;
    fputs("default(", stdout);
    for (; *p && *p != '\n'; p++)
        putchar(*p == ' ' || *p == '\t' ? '_' : *p);
    putchar(')');
}

static void
c_cfg(void)
{
    jose_cfg_t *slot[NSLOT] = { NULL };
    size_t held[NSLOT] = { 0 };
    char *hist = strdup(NF > 1 ? F[1] : "");
    char *save = NULL;
    bool first = true;

    for (char *o = strtok_r(hist, ";", &save); o; o = strtok_r(NULL, ";", &save)) {
        bool null = o[1] == 'N';
        int k = null ? -1 : (o[1] - '0');
        const char *a1 = strchr(o, ',');
        const char *a2 = a1 ? strchr(a1 + 1, ',') : NULL;
        bool live = !null && k >= 0 && k < NSLOT && held[k] > 0;

        if (!null && (k < 0 || k >= NSLOT)) {
            fprintf(stderr, "harness: bad cfg op %s\n", o);
            exit(3);
        }
        if (!first)
            putchar(' ');
        first = false;

        switch (o[0]) {
        case 'c':
            if (live) {
                putchar('!');
                break;
            }
            slot[k] = jose_cfg();
            if (!slot[k]) {
                fputs("ENOMEM", stdout);
                break;
            }
            held[k] = 1;
            putchar('.');
            break;
        case 'i':
            if (null) {
                fputs(jose_cfg_incref(NULL) == NULL ? "." : "BAD", stdout);
            } else if (!live) {
                putchar('!');
            } else {
                fputs(jose_cfg_incref(slot[k]) == slot[k] ? "." : "BAD", stdout);
                held[k]++;
            }
            break;
        case 'd':
        case 'a':
            if (null) {
                if (o[0] == 'd') {
                    jose_cfg_decref(NULL);
                } else {
                    jose_cfg_t *p = NULL;
                    jose_cfg_auto(&p);
                }
                putchar('.');               /* reached only if NULL is tolerated */
            } else if (!live) {
                putchar('!');
            } else {
                if (o[0] == 'd') {
                    jose_cfg_decref(slot[k]);
                } else {
                    jose_cfg_t *p = slot[k];
                    jose_cfg_auto(&p);
                }
                if (--held[k] == 0)
                    slot[k] = NULL;
                putchar('.');
            }
            break;
        case 's': {
            int h = a1 ? atoi(a1 + 1) : 0;
            uintptr_t m = a2 ? (uintptr_t) strtoull(a2 + 1, NULL, 10) : 0;
            if (h < 0 || h > NHAND) {
                fprintf(stderr, "harness: bad handler in %s\n", o);
                exit(3);
            }
            if (null) {
                jose_cfg_set_err_func(NULL, handlers[h], (void *) m);
                putchar('.');
            } else if (!live) {
                putchar('!');
            } else {
                jose_cfg_set_err_func(slot[k], handlers[h], (void *) m);
                putchar('.');
            }
            break;
        }
        case 'g': {
            void *p = NULL;
            if (null) {
                p = jose_cfg_get_err_misc(NULL);
            } else if (!live) {
                putchar('!');
                break;
            } else {
                p = jose_cfg_get_err_misc(slot[k]);
            }
            int hn = 0;
            for (int i = 1; i <= NHAND; i++)
                if (p == (void *) handlers[i])
                    hn = i;
            if (hn)
                printf("H%d", hn);
            else if ((uintptr_t) p < 4096)
                printf("%llu", (unsigned long long) (uintptr_t) p);
            else
                putchar('?');
            break;
        }
        case 'e':
            if (!null && !live) {
                putchar('!');
                break;
            }
            do_err(null ? NULL : slot[k], real_code(a1 ? a1 + 1 : "0"));
            break;
        default:
            fprintf(stderr, "harness: bad cfg op %s\n", o);
            exit(3);
        }
    }

    for (int k = 0; k < NSLOT; k++)
        while (held[k]-- > 0)
            jose_cfg_decref(slot[k]);
    free(hist);
}

/* ================================================================== quiet context for pure / threads */

static void
quiet(void *misc, const char *file, int line, uint64_t err, const char *fmt, va_list ap)
{
    if (misc)
        ++*(unsigned long *) misc;
}

static jose_cfg_t *
quiet_cfg(unsigned long *counter)
{
    jose_cfg_t *c = jose_cfg();
    if (c)
        jose_cfg_set_err_func(c, quiet, counter);
    return c;
}

/* ================================================================== materials */

static json_t *
gen(jose_cfg_t *cfg, const char *tmpl)
{
    json_t *k = json_loads(tmpl, 0, NULL);
    if (!k || !jose_jwk_gen(cfg, k)) {
        fprintf(stderr, "harness: cannot generate %s\n", tmpl);
        exit(3);
    }
    return k;
}

static json_t *
pubof(jose_cfg_t *cfg, const json_t *k)
{
    json_t *p = json_deep_copy(k);
    if (!jose_jwk_pub(cfg, p)) {
        fprintf(stderr, "harness: jose_jwk_pub failed\n");
        exit(3);
    }
    return p;
}

/* a production step that fails is reported in the "failed" list of the result (the generator
 * then falls back to a hand-assembled object and reports the failure) */
static json_t *mk_failed;

static bool
must(bool ok, const char *what)
{
    if (!ok)
        json_array_append_new(mk_failed, json_string(what));
    return ok;
}

static void
c_c17mk(void)
{
    jose_cfg_t *cfg = quiet_cfg(NULL);
    json_t *out = json_object();
    json_t *keys = json_object();
    mk_failed = json_array();
    json_t *hs = gen(cfg, "{\"alg\":\"HS256\"}");
    json_t *kw = gen(cfg, "{\"alg\":\"A128KW\"}");
    json_t *dir = gen(cfg, "{\"alg\":\"A128GCM\"}");
    json_t *ec = gen(cfg, "{\"kty\":\"EC\",\"crv\":\"P-256\"}");
    json_t *ec2 = gen(cfg, "{\"kty\":\"EC\",\"crv\":\"P-256\"}");
    json_t *rsa = gen(cfg, "{\"alg\":\"RS256\"}");
    json_t *ecpub = pubof(cfg, ec), *ec2pub = pubof(cfg, ec2), *rsapub = pubof(cfg, rsa);
    const char *pt = "The true sign of intelligence is not knowledge but imagination.";

    json_object_set(keys, "hs", hs);
    json_object_set(keys, "kw", kw);
    json_object_set(keys, "dir", dir);
    json_object_set(keys, "ec", ec);
    json_object_set(keys, "ec2", ec2);
    json_object_set(keys, "rsa", rsa);
    json_object_set(keys, "ecpub", ecpub);
    json_object_set(keys, "ec2pub", ec2pub);
    json_object_set(keys, "rsapub", rsapub);
    json_object_set_new(out, "keys", keys);

    json_t *jwss = json_object();
    {
        json_t *j = json_pack("{s:s}", "payload", "cGF5bG9hZA");
        json_t *t = json_pack("{s:{s:s},s:{s:s}}", "protected", "alg", "HS256", "header", "kid", "k1");
        json_object_set_new(jwss, "HS256", must(jose_jws_sig(cfg, j, t, hs), "HS256 sig") ? j : (json_decref(j), json_null()));
        json_decref(t);

        j = json_pack("{s:s}", "payload", "cGF5bG9hZA");
        t = json_pack("{s:{s:s}}", "protected", "alg", "RS256");
        json_object_set_new(jwss, "RS256", must(jose_jws_sig(cfg, j, t, rsa), "RS256 sig") ? j : (json_decref(j), json_null()));
        json_decref(t);

        /* general form: two signatures from one call with a key array and a shared template */
        j = json_pack("{s:s}", "payload", "cGF5bG9hZA");
        t = json_pack("{s:{s:s}}", "header", "x", "shared");
        json_t *ks = json_pack("[OO]", hs, rsa);
        json_object_set_new(jwss, "multi", must(jose_jws_sig(cfg, j, t, ks), "multi sig") ? j : (json_decref(j), json_null()));
        json_decref(t);
        json_decref(ks);
    }
    json_object_set_new(out, "jws", jwss);

    json_t *jwes = json_object();
    {
        json_t *j = json_pack("{s:{s:s,s:s}}", "protected", "alg", "A128KW", "enc", "A128CBC-HS256");
        json_object_set_new(jwes, "A128KW", must(jose_jwe_enc(cfg, j, NULL, kw, pt, strlen(pt)), "A128KW enc") ? j : (json_decref(j), json_null()));

        j = json_pack("{s:{s:s,s:s}}", "protected", "alg", "dir", "enc", "A128GCM");
        json_object_set_new(jwes, "dir", must(jose_jwe_enc(cfg, j, NULL, dir, pt, strlen(pt)), "dir enc") ? j : (json_decref(j), json_null()));

        j = json_pack("{s:{s:s,s:s}}", "protected", "alg", "ECDH-ES", "enc", "A128GCM");
        json_object_set_new(jwes, "ECDH-ES", must(jose_jwe_enc(cfg, j, NULL, ecpub, pt, strlen(pt)), "ECDH-ES enc") ? j : (json_decref(j), json_null()));

        /* general form: two recipients from one call with a key array and a shared template */
        j = json_pack("{s:{s:s}}", "protected", "enc", "A128CBC-HS256");
        json_t *t = json_pack("{s:{s:s}}", "header", "x", "shared");
        json_t *ks = json_pack("[OO]", kw, ecpub);
        json_object_set_new(jwes, "multi", must(jose_jwe_enc(cfg, j, t, ks, pt, strlen(pt)), "multi enc") ? j : (json_decref(j), json_null()));
        json_decref(t);
        json_decref(ks);
    }
    json_object_set_new(out, "jwe", jwes);

    /* content encryption keys for dec_cek */
    json_t *ceks = json_object();
    {
        json_t *c = jose_jwe_dec_jwk(cfg, json_object_get(jwes, "A128KW"), NULL, kw);
        must(c != NULL, "dec_jwk A128KW");
        json_object_set_new(ceks, "A128KW", c ? c : json_null());
        c = jose_jwe_dec_jwk(cfg, json_object_get(jwes, "dir"), NULL, dir);
        must(c != NULL, "dec_jwk dir");
        json_object_set_new(ceks, "dir", c ? c : json_null());
    }
    json_object_set_new(out, "cek", ceks);
    json_object_set_new(out, "failed", mk_failed);
    mk_failed = NULL;

    putjson(out);
    json_decref(out);
    json_decref(hs); json_decref(kw); json_decref(dir); json_decref(ec); json_decref(ec2); json_decref(rsa);
    json_decref(ecpub); json_decref(ec2pub); json_decref(rsapub);
    jose_cfg_decref(cfg);
}

/* ================================================================== pure */

#define PIN 100000
typedef struct { json_t *n; size_t rc; } pin_t;

typedef struct {
    json_t *j;        /* the argument handed to the library */
    json_t *copy;     /* deep copy taken before the call */
    char *dump;       /* its dump before the call */
    pin_t *pins;      /* every node of the argument, with an extra reference of ours */
    size_t npins, cap;
} arg_t;

static void
collect(arg_t *a, json_t *j)
{
    const char *k;
    json_t *v;
    size_t i;

    if (!j)
        return;
    if (a->npins == a->cap) {
        a->cap = a->cap ? 2 * a->cap : 32;
        a->pins = realloc(a->pins, a->cap * sizeof(pin_t));
    }
    a->pins[a->npins++].n = j;
    if (json_is_object(j)) {
        json_object_foreach(j, k, v)
            collect(a, v);
    } else if (json_is_array(j)) {
        json_array_foreach(j, i, v)
            collect(a, v);
    }
}

static char *
dumpof(const json_t *j)
{
    return json_dumps(j, JSON_COMPACT | JSON_SORT_KEYS | JSON_ENCODE_ANY);
}

static arg_t
arg_take(const char *text)
{
    arg_t a = { 0 };
    a.j = jarg(text);
    if (!a.j)
        return a;
    a.copy = json_deep_copy(a.j);
    a.dump = dumpof(a.j);
    collect(&a, a.j);
    /* nothing of the caller's can be freed under us, however many references a call drops:
     * every node gets PIN extra references (null/true/false have no count) */
    for (size_t i = 0; i < a.npins; i++) {
        a.pins[i].rc = a.pins[i].n->refcount;
        if (a.pins[i].rc != (size_t) -1)
            a.pins[i].n->refcount += PIN;
    }
    return a;
}

/* prints the token and releases everything */
static void
arg_done(arg_t *a)
{
    if (!a->j) {
        putchar('-');
        return;
    }
    char *after = dumpof(a->j);
    bool same = json_equal(a->j, a->copy) && after && a->dump && strcmp(after, a->dump) == 0;
    long delta = 0;
    for (size_t i = 0; i < a->npins; i++) {
        json_t *n = a->pins[i].n;
        if (a->pins[i].rc == (size_t) -1)
            continue;                       /* null / true / false */
        long d = (long) n->refcount - (long) (a->pins[i].rc + PIN);
        if (d != 0 && delta == 0)
            delta = d;
    }
    if (!same)
        putchar('M');
    else if (delta != 0)
        printf("R%+ld", delta);
    else
        putchar('=');
    free(after);
    free(a->dump);
    json_decref(a->copy);
    if (same) {
        /* unpin: back to the count before the call (what the call took or gave has been reported) */
        for (size_t i = 0; i < a->npins; i++)
            if (a->pins[i].rc != (size_t) -1)
                a->pins[i].n->refcount = a->pins[i].rc;
        json_decref(a->j);
    }
    /* a modified argument is left pinned (leaked): its nodes may now be linked differently */
    free(a->pins);
}

static void
c_pure(void)
{
    static jose_cfg_t *cfg;
    const char *fn = F[1];
    arg_t a[4] = { { 0 } };
    int na = 0;
    bool ok = false;

    if (!cfg)
        cfg = quiet_cfg(NULL);

#define NEED(n) if (NF < (n)) { fprintf(stderr, "harness: pure %s: too few arguments\n", fn); exit(3); }
    if (strcmp(fn, "ver") == 0) {
        NEED(6);
        na = 3;
        a[0] = arg_take(F[2]); a[1] = arg_take(F[3]); a[2] = arg_take(F[4]);
        ok = jose_jws_ver(cfg, a[0].j, a[1].j, a[2].j, F[5][0] == '1');
    } else if (strcmp(fn, "jws_hdr") == 0) {
        NEED(3);
        na = 1;
        a[0] = arg_take(F[2]);
        json_t *h = jose_jws_hdr(a[0].j);
        ok = h != NULL;
        json_decref(h);
    } else if (strcmp(fn, "jwe_hdr") == 0) {
        NEED(4);
        na = 2;
        a[0] = arg_take(F[2]); a[1] = arg_take(F[3]);
        json_t *h = jose_jwe_hdr(a[0].j, a[1].j);
        ok = h != NULL;
        json_decref(h);
    } else if (strcmp(fn, "dec") == 0) {
        NEED(5);
        na = 3;
        a[0] = arg_take(F[2]); a[1] = arg_take(F[3]); a[2] = arg_take(F[4]);
        size_t ptl = 0;
        void *pt = jose_jwe_dec(cfg, a[0].j, a[1].j, a[2].j, &ptl);
        ok = pt != NULL;
        free(pt);
    } else if (strcmp(fn, "dec_jwk") == 0) {
        NEED(5);
        na = 3;
        a[0] = arg_take(F[2]); a[1] = arg_take(F[3]); a[2] = arg_take(F[4]);
        json_t *cek = jose_jwe_dec_jwk(cfg, a[0].j, a[1].j, a[2].j);
        ok = cek != NULL;
        json_decref(cek);
    } else if (strcmp(fn, "dec_cek") == 0) {
        NEED(4);
        na = 2;
        a[0] = arg_take(F[2]); a[1] = arg_take(F[3]);
        size_t ptl = 0;
        void *pt = jose_jwe_dec_cek(cfg, a[0].j, a[1].j, &ptl);
        ok = pt != NULL;
        free(pt);
    } else if (strcmp(fn, "thp") == 0) {
        NEED(4);
        na = 1;
        a[0] = arg_take(F[2]);
        json_t *t = jose_jwk_thp(cfg, a[0].j, F[3]);
        ok = t != NULL;
        json_decref(t);
    } else if (strcmp(fn, "thp_buf") == 0) {
        NEED(5);
        na = 1;
        a[0] = arg_take(F[2]);
        size_t len = (size_t) strtoull(F[4], NULL, 10);
        uint8_t *b = malloc(len ? len : 1);
        ok = jose_jwk_thp_buf(cfg, a[0].j, F[3], b, len) != SIZE_MAX;
        free(b);
    } else if (strcmp(fn, "eql") == 0) {
        NEED(4);
        na = 2;
        a[0] = arg_take(F[2]); a[1] = arg_take(F[3]);
        ok = jose_jwk_eql(cfg, a[0].j, a[1].j);
    } else if (strcmp(fn, "prm") == 0) {
        NEED(5);
        na = 1;
        a[0] = arg_take(F[2]);
        ok = jose_jwk_prm(cfg, a[0].j, F[3][0] == '1', strcmp(F[4], "NULL") == 0 ? NULL : F[4]);
    } else if (strcmp(fn, "exc") == 0) {
        NEED(4);
        na = 2;
        a[0] = arg_take(F[2]); a[1] = arg_take(F[3]);
        json_t *r = jose_jwk_exc(cfg, a[0].j, a[1].j);
        ok = r != NULL;
        json_decref(r);
    } else if (strcmp(fn, "b64_dec") == 0) {
        NEED(3);
        na = 1;
        a[0] = arg_take(F[2]);
        size_t l = jose_b64_dec(a[0].j, NULL, 0);
        ok = l != SIZE_MAX;
        if (ok) {
            uint8_t *b = malloc(l ? l : 1);
            ok = jose_b64_dec(a[0].j, b, l) == l;
            free(b);
        }
    } else if (strcmp(fn, "b64_dec_load") == 0) {
        NEED(3);
        na = 1;
        a[0] = arg_take(F[2]);
        json_t *r = jose_b64_dec_load(a[0].j);
        ok = r != NULL;
        json_decref(r);
    } else if (strcmp(fn, "b64_enc_dump") == 0) {
        NEED(3);
        na = 1;
        a[0] = arg_take(F[2]);
        json_t *r = jose_b64_enc_dump(a[0].j);
        ok = r != NULL;
        json_decref(r);
    } else if (strcmp(fn, "sig_tmpl") == 0) {
        NEED(5);
        na = 2;
        json_t *jws = jarg(F[2]);
        a[0] = arg_take(F[3]); a[1] = arg_take(F[4]);
        ok = jose_jws_sig(cfg, jws, a[0].j, a[1].j);
        json_decref(jws);
    } else if (strcmp(fn, "encjwk_tmpl") == 0) {
        NEED(6);
        na = 2;
        json_t *jwe = jarg(F[2]);
        json_t *cek = jarg(F[5]);
        a[0] = arg_take(F[3]); a[1] = arg_take(F[4]);
        ok = jose_jwe_enc_jwk(cfg, jwe, a[0].j, a[1].j, cek);
        json_decref(jwe);
        json_decref(cek);
    } else {
        fprintf(stderr, "harness: pure: unknown function %s\n", fn);
        exit(3);
    }
#undef NEED

    for (int i = 0; i < na; i++) {
        if (i)
            putchar(' ');
        arg_done(&a[i]);
    }
    putchar('\t');
    putchar(ok ? 'T' : 'F');
}

/* ================================================================== threads */

#define NSTEP 24
#define RLEN 160

typedef struct {
    int idx;
    unsigned seed;
    json_t *hs, *gcm, *eca, *ecb;          /* this thread's own keys (deep copies) */
    char res[NSTEP + 1][RLEN];
    pthread_barrier_t *bar;
} tctx_t;

static unsigned
lcg(unsigned *x)
{
    *x = *x * 1103515245u + 12345u;
    return (*x >> 16) & 0x7fff;
}

static void
one_step(tctx_t *t, jose_cfg_t *cfg, int step, unsigned *rng)
{
    char *r = t->res[step];
    unsigned kind = lcg(rng) % 8;
    unsigned v = lcg(rng);
    char pay[64];
    snprintf(pay, sizeof(pay), "payload-%d-%d-%u", t->idx, step, v);

    switch (kind) {
    case 0: {   /* sign + verify HS256; verification of a tampered copy must fail */
        json_auto_t *jws = json_pack("{s:o}", "payload", jose_b64_enc(pay, strlen(pay)));
        json_auto_t *tm = json_pack("{s:{s:s}}", "protected", "alg", "HS256");
        bool s = jose_jws_sig(cfg, jws, tm, t->hs);
        bool ok = s && jose_jws_ver(cfg, jws, NULL, t->hs, false);
        json_auto_t *bad = json_deep_copy(jws);
        json_object_set_new(bad, "payload", jose_b64_enc("tampered", 8));
        bool nok = jose_jws_ver(cfg, bad, NULL, t->hs, false);
        const char *sg = json_string_value(json_object_get(jws, "signature"));
        snprintf(r, RLEN, "sv:%d%d%d:%s", s, ok, nok, sg ? sg : "-");   /* HMAC is deterministic */
        break;
    }
    case 1: {   /* encrypt + decrypt dir / A128GCM */
        json_auto_t *jwe = json_pack("{s:{s:s,s:s}}", "protected", "alg", "dir", "enc", "A128GCM");
        bool e = jose_jwe_enc(cfg, jwe, NULL, t->gcm, pay, strlen(pay));
        size_t ptl = 0;
        char *pt = e ? jose_jwe_dec(cfg, jwe, NULL, t->gcm, &ptl) : NULL;
        snprintf(r, RLEN, "ed:%d:%.*s", e, pt ? (int) ptl : 3, pt ? pt : "ERR");
        free(pt);
        break;
    }
    case 2: {   /* thumbprint */
        json_auto_t *th = jose_jwk_thp(cfg, (v & 1) ? t->eca : t->hs, (v & 2) ? "S256" : "S1");
        snprintf(r, RLEN, "thp:%s", th ? json_string_value(th) : "ERR");
        break;
    }
    case 3: {   /* base64url round trip */
        uint8_t raw[40], back[40];
        size_t n = v % sizeof(raw);
        for (size_t i = 0; i < n; i++)
            raw[i] = (uint8_t) lcg(rng);
        json_auto_t *e = jose_b64_enc(raw, n);
        size_t m = jose_b64_dec(e, back, sizeof(back));
        snprintf(r, RLEN, "b64:%s:%d", e ? json_string_value(e) : "ERR", m == n && memcmp(raw, back, n) == 0);
        break;
    }
    case 4: {   /* key generation */
        json_auto_t *k = json_pack("{s:s,s:i}", "kty", "oct", "bytes", 16 + (int) (v % 17));
        bool g = jose_jwk_gen(cfg, k);
        size_t l = g ? jose_b64_dec(json_object_get(k, "k"), NULL, 0) : 0;
        snprintf(r, RLEN, "gen:%d:%zu:%d", g, l, json_object_get(k, "bytes") == NULL);
        break;
    }
    case 5: {   /* ECDH both ways with this thread's own two keys */
        json_auto_t *pa = json_deep_copy(t->eca), *pb = json_deep_copy(t->ecb);
        bool p = jose_jwk_pub(cfg, pa) && jose_jwk_pub(cfg, pb);
        json_auto_t *x = jose_jwk_exc(cfg, t->eca, pb);
        json_auto_t *y = jose_jwk_exc(cfg, t->ecb, pa);
        const char *xs = json_string_value(json_object_get(x, "x"));
        snprintf(r, RLEN, "exc:%d%d:%s", p, x && y && json_equal(x, y), xs ? xs : "ERR");
        break;
    }
    case 6: {   /* a refused call: the report must reach this thread's handler only */
        json_auto_t *jws = json_pack("{s:s}", "payload", "cGF5");
        json_auto_t *tm = json_pack("{s:{s:s}}", "protected", "alg", "ES256");
        bool s = jose_jws_sig(cfg, jws, tm, t->hs);
        snprintf(r, RLEN, "refuse:%d", s);
        break;
    }
    default: {  /* merged headers and permissions */
        json_auto_t *sig = json_pack("{s:{s:s},s:{s:i}}", "protected", "alg", "HS256", "header", "n", (int) v);
        json_auto_t *h = jose_jws_hdr(sig);
        char *d = h ? json_dumps(h, JSON_COMPACT | JSON_SORT_KEYS) : NULL;
        snprintf(r, RLEN, "hdr:%s:%d%d", d ? d : "ERR", jose_jwk_prm(cfg, t->hs, true, "sign"),
                 jose_jwk_prm(cfg, t->hs, true, "encrypt"));
        free(d);
        break;
    }
    }
}

static void *
thread_main(void *p)
{
    tctx_t *t = p;
    unsigned long errors = 0;
    unsigned rng = t->seed * 2654435761u + (unsigned) t->idx * 40503u + 1;
    jose_cfg_t *cfg = quiet_cfg(&errors);

    if (t->bar)
        pthread_barrier_wait(t->bar);
    for (int s = 0; s < NSTEP; s++)
        one_step(t, cfg, s, &rng);
    /* how many reports this thread's own context delivered to its own counter */
    snprintf(t->res[NSTEP], RLEN, "errors:%lu:%d", errors, jose_cfg_get_err_misc(cfg) == (void *) &errors);
    jose_cfg_decref(cfg);
    return NULL;
}

static void
c_threads(void)
{
    int n = NF > 1 ? atoi(F[1]) : 2;
    unsigned seed = NF > 2 ? (unsigned) strtoul(F[2], NULL, 10) : 1;
    static json_t *hs[16], *gcm[16], *eca[16], *ecb[16];
    static tctx_t seq[16], par[16];
    pthread_t th[16];
    pthread_barrier_t bar;

    if (n < 1 || n > 16) {
        fprintf(stderr, "harness: threads: n out of range\n");
        exit(3);
    }
    /* every thread index has its own keys, made once (generation is random) */
    for (int i = 0; i < n; i++) {
        if (hs[i])
            continue;
        hs[i] = gen(NULL, "{\"alg\":\"HS256\"}");
        gcm[i] = gen(NULL, "{\"alg\":\"A128GCM\"}");
        eca[i] = gen(NULL, "{\"kty\":\"EC\",\"crv\":\"P-256\"}");
        ecb[i] = gen(NULL, "{\"kty\":\"EC\",\"crv\":\"P-256\"}");
    }
    for (int i = 0; i < n; i++) {
        tctx_t *both[2] = { &seq[i], &par[i] };
        for (int w = 0; w < 2; w++) {
            tctx_t *t = both[w];
            memset(t, 0, sizeof(*t));
            t->idx = i;
            t->seed = seed;
            t->hs = json_deep_copy(hs[i]);
            t->gcm = json_deep_copy(gcm[i]);
            t->eca = json_deep_copy(eca[i]);
            t->ecb = json_deep_copy(ecb[i]);
        }
    }

    /* one after another */
    for (int i = 0; i < n; i++)
        thread_main(&seq[i]);

    /* concurrently */
    pthread_barrier_init(&bar, NULL, (unsigned) n);
    for (int i = 0; i < n; i++) {
        par[i].bar = &bar;
        if (pthread_create(&th[i], NULL, thread_main, &par[i]) != 0) {
            fprintf(stderr, "harness: pthread_create failed\n");
            exit(3);
        }
    }
    for (int i = 0; i < n; i++)
        pthread_join(th[i], NULL);
    pthread_barrier_destroy(&bar);

    if (getenv("C17_THREADS_DUMP"))
        for (int i = 0; i < n; i++)
            for (int s = 0; s <= NSTEP; s++)
                fprintf(stderr, "%d.%d seq=%s par=%s\n", i, s, seq[i].res[s], par[i].res[s]);

    bool diff = false;
    for (int i = 0; i < n && !diff; i++)
        for (int s = 0; s <= NSTEP && !diff; s++)
            if (strcmp(seq[i].res[s], par[i].res[s]) != 0) {
                printf("DIFF %d %d seq=%s par=%s", i, s, seq[i].res[s], par[i].res[s]);
                diff = true;
            }
    if (!diff)
        fputs("OK", stdout);

    for (int i = 0; i < n; i++) {
        tctx_t *both[2] = { &seq[i], &par[i] };
        for (int w = 0; w < 2; w++) {
            json_decref(both[w]->hs);
            json_decref(both[w]->gcm);
            json_decref(both[w]->eca);
            json_decref(both[w]->ecb);
        }
    }
}

/* ================================================================== interleave
 * interleave: a fixed list of PROBES (valid operations: ES256 sign+verify, ECDH both ways, ECDH-ES and RSA-OAEP
 * encrypt+decrypt, RS256 verify, HS256, thumbprint) is run in a fresh thread on its own; then, for every POISON (a call
 * that is correctly refused: damaged RS256 / ES256 signature, RSA-OAEP / A128KW unwrap with the wrong key, an EC key
 * off the curve, an oversize key, malformed base64url), in another fresh thread right after that poison.  A result may
 * depend on the arguments only: -> "OK" | "DIFF probe=<name> alone=<r> after=<poison>:<r>" */
typedef struct { json_t *hs, *kw, *kw2, *ec, *ec2, *rsa, *rsa2, *t_rs, *t_es, *e_rsa, *e_kw; int poison; char res[8][RLEN]; } ilv_t;

static void
ilv_probes(ilv_t *t, jose_cfg_t *cfg)
{
    int n = 0;
    {
        json_auto_t *jws = json_pack("{s:s}", "payload", "cGF5");
        json_auto_t *pub = json_deep_copy(t->ec);
        bool p = jose_jwk_pub(cfg, pub);
        bool s = jose_jws_sig(cfg, jws, NULL, t->ec);
        snprintf(t->res[n++], RLEN, "es256:%d%d%d", p, s, s && jose_jws_ver(cfg, jws, NULL, pub, false));
    }
    {
        json_auto_t *pa = json_deep_copy(t->ec), *pb = json_deep_copy(t->ec2);
        bool p = jose_jwk_pub(cfg, pa) && jose_jwk_pub(cfg, pb);
        json_auto_t *x = jose_jwk_exc(cfg, t->ec, pb);
        json_auto_t *y = jose_jwk_exc(cfg, t->ec2, pa);
        snprintf(t->res[n++], RLEN, "ecdh:%d%d", p, x && y && json_equal(x, y));
    }
    {
        json_auto_t *jwe = json_pack("{s:{s:s,s:s}}", "protected", "alg", "ECDH-ES+A128KW", "enc", "A128GCM");
        json_auto_t *pub = json_deep_copy(t->ec);
        bool e = jose_jwk_pub(cfg, pub) && jose_jwe_enc(cfg, jwe, NULL, pub, "probe", 5);
        size_t l = 0;
        char *pt = e ? jose_jwe_dec(cfg, jwe, NULL, t->ec, &l) : NULL;
        snprintf(t->res[n++], RLEN, "ecdhes:%d:%.*s", e, pt ? (int) l : 3, pt ? pt : "ERR");
        free(pt);
    }
    {
        size_t l = 0;
        char *pt = jose_jwe_dec(cfg, t->e_rsa, NULL, t->rsa, &l);
        snprintf(t->res[n++], RLEN, "rsaoaep:%.*s", pt ? (int) l : 3, pt ? pt : "ERR");
        free(pt);
    }
    snprintf(t->res[n++], RLEN, "rs256:%d", jose_jws_ver(cfg, t->t_rs, NULL, t->rsa, false));
    {
        json_auto_t *jws = json_pack("{s:s}", "payload", "cGF5");
        bool s = jose_jws_sig(cfg, jws, NULL, t->hs);
        snprintf(t->res[n++], RLEN, "hs256:%d%d", s, s && jose_jws_ver(cfg, jws, NULL, t->hs, false));
    }
    {
        json_auto_t *th = jose_jwk_thp(cfg, t->ec, "S256");
        snprintf(t->res[n++], RLEN, "thp:%s", th ? json_string_value(th) : "ERR");
    }
    {
        size_t l = 0;
        char *pt = jose_jwe_dec(cfg, t->e_kw, NULL, t->kw, &l);
        snprintf(t->res[n++], RLEN, "a128kw:%.*s", pt ? (int) l : 3, pt ? pt : "ERR");
        free(pt);
    }
}

#define NPOISON 9
static const char *poison_name[NPOISON + 1] = { "none", "rs256-damaged", "es256-damaged", "rsaoaep-wrong-key", "a128kw-wrong-key",
                                                "ec-off-curve", "hmac-short-key", "bad-base64", "rsa-n-missing", "exc-curve-mismatch" };

static void *
ilv_main(void *p)
{
    ilv_t *t = p;
    unsigned long errors = 0;
    jose_cfg_t *cfg = quiet_cfg(&errors);
    switch (t->poison) {
    case 1: {
        json_auto_t *bad = json_deep_copy(t->t_rs);
        const char *sg = json_string_value(json_object_get(bad, "signature"));
        char *c = strdup(sg ? sg : "AAAA");
        c[3] = c[3] == 'A' ? 'B' : 'A';
        json_object_set_new(bad, "signature", json_string(c));
        free(c);
        (void) jose_jws_ver(cfg, bad, NULL, t->rsa, false);
        break;
    }
    case 2: {
        json_auto_t *bad = json_deep_copy(t->t_es);
        json_object_set_new(bad, "payload", json_string("dGFtcGVyZWQ"));
        (void) jose_jws_ver(cfg, bad, NULL, t->ec, false);
        break;
    }
    case 3: { size_t l = 0; free(jose_jwe_dec(cfg, t->e_rsa, NULL, t->rsa2, &l)); break; }
    case 4: { size_t l = 0; free(jose_jwe_dec(cfg, t->e_kw, NULL, t->kw2, &l)); break; }
    case 5: {
        json_auto_t *k = json_deep_copy(t->ec);
        json_object_set(k, "y", json_object_get(k, "x"));
        json_auto_t *jws = json_pack("{s:s}", "payload", "cGF5");
        (void) jose_jws_sig(cfg, jws, NULL, k);
        break;
    }
    case 6: {
        json_auto_t *k = json_pack("{s:s,s:s}", "kty", "oct", "k", "AAEC");
        json_auto_t *jws = json_pack("{s:s}", "payload", "cGF5");
        json_auto_t *tm = json_pack("{s:{s:s}}", "protected", "alg", "HS256");
        (void) jose_jws_sig(cfg, jws, tm, k);
        break;
    }
    case 7: {
        json_auto_t *bad = json_deep_copy(t->t_es);
        json_object_set_new(bad, "signature", json_string("***"));
        (void) jose_jws_ver(cfg, bad, NULL, t->ec, false);
        break;
    }
    case 8: {
        json_auto_t *k = json_deep_copy(t->rsa);
        json_object_del(k, "n");
        (void) jose_jws_ver(cfg, t->t_rs, NULL, k, false);
        break;
    }
    case 9: {
        json_auto_t *o = gen(NULL, "{\"kty\":\"EC\",\"crv\":\"P-384\"}");
        json_auto_t *x = jose_jwk_exc(cfg, t->ec, o);
        (void) x;
        break;
    }
    default: break;
    }
    ilv_probes(t, cfg);
    jose_cfg_decref(cfg);
    return NULL;
}

static void
c_interleave(void)
{
    static ilv_t base;
    if (!base.hs) {
        base.hs = gen(NULL, "{\"alg\":\"HS256\"}");
        base.kw = gen(NULL, "{\"alg\":\"A128KW\"}");
        base.kw2 = gen(NULL, "{\"alg\":\"A128KW\"}");
        base.ec = gen(NULL, "{\"kty\":\"EC\",\"crv\":\"P-256\"}");
        base.ec2 = gen(NULL, "{\"kty\":\"EC\",\"crv\":\"P-256\"}");
        base.rsa = gen(NULL, "{\"kty\":\"RSA\",\"bits\":2048}");
        base.rsa2 = gen(NULL, "{\"kty\":\"RSA\",\"bits\":2048}");
        base.t_rs = json_pack("{s:s}", "payload", "cGF5");
        json_t *tm = json_pack("{s:{s:s}}", "protected", "alg", "RS256");
        jose_jws_sig(NULL, base.t_rs, tm, base.rsa);
        json_decref(tm);
        base.t_es = json_pack("{s:s}", "payload", "cGF5");
        jose_jws_sig(NULL, base.t_es, NULL, base.ec);
        base.e_rsa = json_pack("{s:{s:s,s:s}}", "protected", "alg", "RSA-OAEP", "enc", "A128GCM");
        jose_jwe_enc(NULL, base.e_rsa, NULL, base.rsa, "rsa", 3);
        base.e_kw = json_pack("{s:{s:s,s:s}}", "protected", "alg", "A128KW", "enc", "A128GCM");
        jose_jwe_enc(NULL, base.e_kw, NULL, base.kw, "kw", 2);
    }
    static ilv_t run[NPOISON + 1];
    for (int i = 0; i <= NPOISON; i++) {
        pthread_t th;
        run[i] = base;
        run[i].poison = i;
        memset(run[i].res, 0, sizeof(run[i].res));
        if (pthread_create(&th, NULL, ilv_main, &run[i]) != 0) {
            fprintf(stderr, "harness: pthread_create failed\n");
            exit(3);
        }
        pthread_join(th, NULL);
    }
    for (int i = 1; i <= NPOISON; i++)
        for (int s = 0; s < 8; s++)
            if (strcmp(run[0].res[s], run[i].res[s]) != 0) {
                printf("DIFF probe=%s alone=%s after=%s:%s", strtok(strdup(run[0].res[s]), ":"), run[0].res[s], poison_name[i], run[i].res[s]);
                return;
            }
    for (int s = 0; s < 8; s++)
        if (strstr(run[0].res[s], "ERR") || strstr(run[0].res[s], ":0") == run[0].res[s] + strlen(run[0].res[s]) - 2) {
            printf("PROBE-FAILS %s", run[0].res[s]);
            return;
        }
    fputs("OK", stdout);
}

static const cmd_t cmds_cfg[] = {
    { "interleave", c_interleave },
    { "cfg", c_cfg },
    { "c17mk", c_c17mk },
    { "pure", c_pure },
    { "threads", c_threads },
    { NULL, NULL }
};
REGISTER(cmds_cfg)
