/* C05: permission decisions and declared-algorithm checks at every entry point.
 *   prm <jwk> <req 0|1> <op|NULL>                         -> T | F
 *   algcheck ver|sig <halg> <kalg|->                       -> A (accepted) | R (refused) | N (no usable key for halg)
 *   algcheck decjwk <halg> <henc> <kalg|->
 *   algcheck enccek|deccek <henc> <kalg|->
 *   algcheck exc <alga|-> <algb|->
 * For ver/decjwk/deccek the object is first PRODUCED by the library with a key that is
 * valid for the header's algorithm and carries no "alg"; the consuming call then gets the
 * same key with "alg" set to <kalg>.  So a skipped comparison shows up as acceptance. */
#include "h.h"

static json_t *keys[16];
static int nkeys;

static json_t *
gen(const char *tmpl)
{
    json_t *k = json_loads(tmpl, 0, NULL);
    if (!k || !jose_jwk_gen(NULL, k)) {
        fprintf(stderr, "harness: cannot generate %s\n", tmpl);
        exit(3);
    }
    json_object_del(k, "alg");
    json_object_del(k, "key_ops");
    json_object_del(k, "use");
    return k;
}

static void
init_keys(void)
{
    if (nkeys)
        return;
    keys[nkeys++] = gen("{\"kty\":\"oct\",\"bytes\":16}");
    keys[nkeys++] = gen("{\"kty\":\"oct\",\"bytes\":24}");
    keys[nkeys++] = gen("{\"kty\":\"oct\",\"bytes\":32}");
    keys[nkeys++] = gen("{\"kty\":\"oct\",\"bytes\":48}");
    keys[nkeys++] = gen("{\"kty\":\"oct\",\"bytes\":64}");
    keys[nkeys++] = gen("{\"kty\":\"RSA\",\"bits\":2048}");
    keys[nkeys++] = gen("{\"kty\":\"EC\",\"crv\":\"P-256\"}");
    keys[nkeys++] = gen("{\"kty\":\"EC\",\"crv\":\"P-384\"}");
    keys[nkeys++] = gen("{\"kty\":\"EC\",\"crv\":\"P-521\"}");
    keys[nkeys++] = gen("{\"kty\":\"EC\",\"crv\":\"secp256k1\"}");
}

static json_t *
with_alg(const json_t *k, const char *alg)
{
    json_t *c = json_deep_copy(k);
    if (strcmp(alg, "-") != 0)
        json_object_set_new(c, "alg", json_string(alg));
    return c;
}

static void
c_prm(void)
{
    json_t *jwk = jarg(F[1]);
    bool req = F[2][0] == '1';
    const char *op = strcmp(F[3], "NULL") == 0 ? NULL : F[3];
    fputs(jose_jwk_prm(NULL, jwk, req, op) ? "T" : "F", stdout);
    json_decref(jwk);
}

static void
c_algcheck(void)
{
    init_keys();
    const char *e = F[1];
    if (strcmp(e, "ver") == 0 || strcmp(e, "sig") == 0) {
        const char *halg = F[2], *kalg = F[3];
        for (int i = 0; i < nkeys; i++) {
            json_auto_t *jws = json_pack("{s:s}", "payload", "cGF5bG9hZA");
            json_auto_t *tmpl = json_pack("{s:{s:s}}", "protected", "alg", halg);
            if (strcmp(e, "sig") == 0) {
                /* is the key usable for halg at all? */
                json_auto_t *probe = json_deep_copy(jws);
                json_auto_t *t2 = json_deep_copy(tmpl);
                if (!jose_jws_sig(NULL, probe, t2, keys[i]))
                    continue;
                json_auto_t *k = with_alg(keys[i], kalg);
                fputs(jose_jws_sig(NULL, jws, tmpl, k) ? "A" : "R", stdout);
                return;
            }
            if (!jose_jws_sig(NULL, jws, tmpl, keys[i]))
                continue;
            json_auto_t *k = with_alg(keys[i], kalg);
            fputs(jose_jws_ver(NULL, jws, NULL, k, false) ? "A" : "R", stdout);
            return;
        }
        fputs("N", stdout);
        return;
    }
    if (strcmp(e, "decjwk") == 0) {
        const char *halg = F[2], *henc = F[3], *kalg = F[4];
        for (int i = 0; i < nkeys; i++) {
            json_auto_t *jwe = json_pack("{s:{s:s,s:s}}", "protected", "alg", halg, "enc", henc);
            if (!jose_jwe_enc(NULL, jwe, NULL, keys[i], "x", 1))
                continue;
            json_auto_t *k = with_alg(keys[i], kalg);
            json_auto_t *cek = jose_jwe_dec_jwk(NULL, jwe, NULL, k);
            fputs(cek ? "A" : "R", stdout);
            return;
        }
        fputs("N", stdout);
        return;
    }
    if (strcmp(e, "enccek") == 0 || strcmp(e, "deccek") == 0) {
        const char *henc = F[2], *kalg = F[3];
        for (int i = 0; i < 5; i++) {
            json_auto_t *jwe = json_pack("{s:{s:s}}", "protected", "enc", henc);
            json_auto_t *cek = json_deep_copy(keys[i]);
            if (!jose_jwe_enc_cek(NULL, jwe, cek, "x", 1))
                continue;
            json_auto_t *k = with_alg(keys[i], kalg);
            if (strcmp(e, "enccek") == 0) {
                json_auto_t *jwe2 = json_pack("{s:{s:s}}", "protected", "enc", henc);
                fputs(jose_jwe_enc_cek(NULL, jwe2, k, "x", 1) ? "A" : "R", stdout);
            } else {
                size_t l = 0;
                void *pt = jose_jwe_dec_cek(NULL, jwe, k, &l);
                fputs(pt ? "A" : "R", stdout);
                free(pt);
            }
            return;
        }
        fputs("N", stdout);
        return;
    }
    if (strcmp(e, "deccekU") == 0 || strcmp(e, "deccekPU") == 0) {
        /* the header names <henc> in the shared UNPROTECTED header only (not authenticated): the object is
         * produced with the algorithm the key declares (or henc), then its unprotected enc is set to <henc> */
        const char *henc = F[2], *kalg = F[3];
        const char *real = strcmp(kalg, "-") == 0 ? henc : kalg;
        for (int i = 0; i < 5; i++) {
            json_auto_t *jwe = strcmp(e, "deccekPU") == 0
                ? json_pack("{s:{s:s},s:{s:s}}", "protected", "typ", "x", "unprotected", "enc", real)
                : json_pack("{s:{s:s}}", "unprotected", "enc", real);
            json_auto_t *cek = json_deep_copy(keys[i]);
            if (!jose_jwe_enc_cek(NULL, jwe, cek, "x", 1))
                continue;
            json_object_set_new(json_object_get(jwe, "unprotected"), "enc", json_string(henc));
            json_auto_t *k = with_alg(keys[i], kalg);
            size_t l = 0;
            void *pt = jose_jwe_dec_cek(NULL, jwe, k, &l);
            fputs(pt ? "A" : "R", stdout);
            free(pt);
            return;
        }
        fputs("N", stdout);
        return;
    }
    if (strcmp(e, "exc") == 0) {
        json_auto_t *a = with_alg(keys[6], F[2]);
        json_t *pubk = json_deep_copy(keys[6]);
        /* a second P-256 key pair: reuse the first one's public half as the peer */
        jose_jwk_pub(NULL, pubk);
        json_auto_t *b = with_alg(pubk, F[3]);
        json_decref(pubk);
        json_auto_t *r = jose_jwk_exc(NULL, a, b);
        fputs(r ? "A" : "R", stdout);
        return;
    }
    fputs("?", stdout);
}

static const cmd_t cmds_algcheck[] = {
    { "prm", c_prm },
    { "algcheck", c_algcheck },
    { NULL, NULL }
};
REGISTER(cmds_algcheck)
