/* Streaming producers (used by C03, C04, C07): the same work as the one-shot calls, fed in chunks.
 *   jwssigio <jws> <sig|-> <jwk> <chunk sizes|-> <payload hex>   jose_jws_sig_io; the payload's base64url TEXT is fed
 *                                                                 -> JWS (payload member set) | ERR
 *   jweencio <jwe template> <rcp|-> <jwk> <chunk sizes|-> <plaintext hex>   jose_jwe_enc_io into a malloc sink
 *                                                                 -> JWE (ciphertext member set) | ERR  */
#include "h.h"

static bool
feed_chunks(jose_io_t *io, const char *spec, const uint8_t *p, size_t n)
{
    size_t off = 0;
    if (strcmp(spec, "-") != 0) {
        const char *c = spec;
        while (*c) {
            char *e = NULL;
            size_t l = (size_t) strtoul(c, &e, 10);
            c = (*e == ',') ? e + 1 : e;
            if (off + l > n) l = n - off;
            if (!io->feed(io, p + off, l))
                return false;
            off += l;
        }
    }
    if (off < n && !io->feed(io, p + off, n - off))
        return false;
    return io->done(io);
}

static void
c_jwssigio(void)
{
    json_t *jws = jarg(F[1]);
    json_t *sig = jarg(F[2]);
    json_t *jwk = jarg(F[3]);
    buf_t pay = unhex(F[5]);
    json_t *b64 = jose_b64_enc(pay.p, pay.n);
    const char *txt = json_string_value(b64);
    jose_io_t *io = jose_jws_sig_io(NULL, jws, sig, jwk);
    if (io && txt && feed_chunks(io, F[4], (const uint8_t *) txt, strlen(txt)) &&
        json_object_set(jws, "payload", b64) == 0)
        putjson(jws);
    else
        fputs("ERR", stdout);
    jose_io_decref(io);
    json_decref(b64);
    free(pay.p);
    json_decref(jws);
    json_decref(sig);
    json_decref(jwk);
}

static void
c_jweencio(void)
{
    json_t *jwe = jarg(F[1]);
    json_t *rcp = jarg(F[2]);
    json_t *jwk = jarg(F[3]);
    buf_t pt = unhex(F[5]);
    void *ct = NULL;
    size_t ctl = 0;
    jose_io_t *sink = jose_io_malloc(NULL, &ct, &ctl);
    jose_io_t *io = sink ? jose_jwe_enc_io(NULL, jwe, rcp, jwk, sink) : NULL;
    if (io && feed_chunks(io, F[4], pt.p, pt.n) &&
        json_object_set_new(jwe, "ciphertext", jose_b64_enc(ct, ctl)) == 0)
        putjson(jwe);
    else
        fputs("ERR", stdout);
    jose_io_decref(io);
    jose_io_decref(sink);
    free(pt.p);
    json_decref(jwe);
    json_decref(rcp);
    json_decref(jwk);
}

static const cmd_t cmds_stream[] = { { "jwssigio", c_jwssigio }, { "jweencio", c_jweencio }, { NULL, NULL } };
REGISTER(cmds_stream)
