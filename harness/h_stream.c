/* Streaming producers (used by C03, C04, C07): the same work as the one-shot calls, fed in chunks.
 *   jwssigio <jws> <sig|-> <jwk> <chunk sizes|-> <payload hex>   jose_jws_sig_io; the payload's base64url TEXT is fed
 *                                                                 -> JWS (payload member set) | ERR
 *   jweencio <jwe template> <rcp|-> <jwk> <chunk sizes|-> <plaintext hex>   jose_jwe_enc_io into a malloc sink
 *                                                                 -> JWE (ciphertext member set) | ERR  */
#include "h.h"

static bool
feed_chunks(jose_io_t *io, const char *spec, const uint8_t *p, size_t n)
{
    size_t off = 0;
    if (strcmp(spec, "-") != 0) {
        const char *c = spec;
        while (*c) {
            char *e = NULL;
            size_t l = (size_t) strtoul(c, &e, 10);
            c = (*e == ',') ? e + 1 : e;
            if (off + l > n) l = n - off;
            if (!io->feed(io, p + off, l))
                return false;
            off += l;
        }
    }
    if (off < n && !io->feed(io, p + off, n - off))
        return false;
    return io->done(io);
}

static void
c_jwssigio(void)
{
    json_t *jws = jarg(F[1]);
    json_t *sig = jarg(F[2]);
    json_t *jwk = jarg(F[3]);
    buf_t pay = unhex(F[5]);
    json_t *b64 = jose_b64_enc(pay.p, pay.n);
    const char *txt = json_string_value(b64);
    jose_io_t *io = jose_jws_sig_io(NULL, jws, sig, jwk);
    if (io && txt && feed_chunks(io, F[4], (const uint8_t *) txt, strlen(txt)) &&
        json_object_set(jws, "payload", b64) == 0)
        putjson(jws);
    else
        fputs("ERR", stdout);
    jose_io_decref(io);
    json_decref(b64);
    free(pay.p);
    json_decref(jws);
    json_decref(sig);
    json_decref(jwk);
}

static void
c_jweencio(void)
{
    json_t *jwe = jarg(F[1]);
    json_t *rcp = jarg(F[2]);
    json_t *jwk = jarg(F[3]);
    buf_t pt = unhex(F[5]);
    void *ct = NULL;
    size_t ctl = 0;
    jose_io_t *sink = jose_io_malloc(NULL, &ct, &ctl);
    jose_io_t *io = sink ? jose_jwe_enc_io(NULL, jwe, rcp, jwk, sink) : NULL;
    if (io && feed_chunks(io, F[4], pt.p, pt.n) &&
        json_object_set_new(jwe, "ciphertext", jose_b64_enc(ct, ctl)) == 0)
        putjson(jwe);
    else
        fputs("ERR", stdout);
    jose_io_decref(io);
    jose_io_decref(sink);
    free(pt.p);
    json_decref(jwe);
    json_decref(rcp);
    json_decref(jwk);
}

/* jwedecchain <jwe> <jwk> <chunk sizes|-> <b64|faildone>: streaming decryption whose OUTPUT goes into a further stage --
 *   b64:      base64url encoder -> malloc sink     -> <T|F> <hex of what arrived>   (the encoder's tail is flushed in done())
 *   faildone: a sink that accepts everything but whose done() fails -> <T|F>        (the head must report the failure) */
typedef struct { jose_io_t io; } fd_t;
static bool fd_feed(jose_io_t *io, const void *in, size_t len) { return true; }
static bool fd_done(jose_io_t *io) { return false; }
static void fd_free(jose_io_t *io) { }

static void
c_jwedecchain(void)
{
    json_t *jwe = jarg(F[1]);
    json_t *jwk = jarg(F[2]);
    void *buf = NULL;
    size_t len = 0;
    fd_t fd = { { .refs = 1, .feed = fd_feed, .done = fd_done, .free = fd_free } };
    bool b64 = strcmp(F[4], "b64") == 0;
    jose_io_t *sink = b64 ? jose_io_malloc(NULL, &buf, &len) : NULL;
    jose_io_t *enc = b64 && sink ? jose_b64_enc_io(sink) : NULL;
    jose_io_t *d = jose_jwe_dec_io(NULL, jwe, NULL, jwk, b64 ? enc : &fd.io);
    jose_io_t *io = d ? jose_b64_dec_io(d) : NULL;
    const char *ct = json_string_value(json_object_get(jwe, "ciphertext"));
    if (!io || !ct) {
        fputs("N", stdout);
    } else {
        bool ok = feed_chunks(io, F[3], (const uint8_t *) ct, strlen(ct));
        fputs(ok ? "T " : "F ", stdout);
        if (b64 && ok) puthex(buf, len); else fputs("x", stdout);
    }
    jose_io_decref(io);
    jose_io_decref(d);
    jose_io_decref(enc);
    jose_io_decref(sink);
    json_decref(jwe);
    json_decref(jwk);
}

static const cmd_t cmds_stream[] = { { "jwedecchain", c_jwedecchain }, { "jwssigio", c_jwssigio }, { "jweencio", c_jweencio }, { NULL, NULL } };
REGISTER(cmds_stream)
