/* C10: does the producing side of an operation accept this key?
 *   keyok sign <alg> <jwk>     jose_jws_sig with {"protected":{"alg":alg}} over a fixed payload     -> A | R
 *   keyok enc <enc> <cek>      jose_jwe_enc_cek with {"protected":{"enc":enc}} and the CEK as given -> A | R
 *   keyok wrap <alg> <jwk>     jose_jwe_enc_jwk with {"protected":{"alg":alg,"enc":"A128GCM"}} and an empty CEK -> A | R */
#include "h.h"

static void
c_keyok(void)
{
    const char *op = F[1];
    json_t *jwk = jarg(F[3]);
    bool ok = false;

    if (strcmp(op, "sign") == 0) {
        json_t *jws = json_pack("{s:s}", "payload", "YQ");
        json_t *sig = json_pack("{s:{s:s}}", "protected", "alg", F[2]);
        ok = jose_jws_sig(NULL, jws, sig, jwk);
        json_decref(jws);
        json_decref(sig);
    } else if (strcmp(op, "enc") == 0) {
        json_t *jwe = json_pack("{s:{s:s}}", "protected", "enc", F[2]);
        ok = jose_jwe_enc_cek(NULL, jwe, jwk, "x", 1);
        json_decref(jwe);
    } else if (strcmp(op, "wrap") == 0) {
        json_t *jwe = json_pack("{s:{s:s,s:s,s:i}}", "protected", "alg", F[2], "enc", "A128GCM", "p2c", 1000);
        json_t *cek = json_object();
        if (strncmp(F[2], "PBES2", 5) != 0)
            json_object_del(json_object_get(jwe, "protected"), "p2c");
        ok = jose_jwe_enc_jwk(NULL, jwe, NULL, jwk, cek);
        json_decref(jwe);
        json_decref(cek);
    } else {
        fputs("?", stdout);
        json_decref(jwk);
        return;
    }
    fputs(ok ? "A" : "R", stdout);
    json_decref(jwk);
}

static const cmd_t cmds_keyok[] = { { "keyok", c_keyok }, { NULL, NULL } };
REGISTER(cmds_keyok)
