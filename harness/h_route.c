/* C17: every error raised while an operation runs under a caller's context goes to THAT context's handler.
 *   cfgroute <op> <args...>  ->  null=<codes raised with cfg == NULL (default handler, read back from stderr)>
 *                                ctx=<codes the context's handler received, same call with a context>
 *                                stderr=<bytes the default handler wrote during the second call> other=<calls a second context's handler received>
 *     ops: ver <jws> <jwk> <all 0|1>   sig <jws> <template|-> <jwk>   dec <jwe> <jwk>   enc <jwe template> <jwk>
 *          exc <local> <remote>         gen <template>
 * codes are the JOSE_CFG_ERR_* numbers minus the base (or the errno value); the lists are in order of delivery. */
#include "h.h"
#include <unistd.h>
#include <fcntl.h>

static char rlog[2048];
static int other_calls;

static unsigned long long
code_of(uint64_t err)
{
    return err >= _JOSE_CFG_ERR_BASE ? 100 + (unsigned long long) (err - _JOSE_CFG_ERR_BASE) : (unsigned long long) err;
}

static void
h_mine(void *misc, const char *file, int line, uint64_t err, const char *fmt, va_list ap)
{
    size_t l = strlen(rlog);
    snprintf(rlog + l, sizeof(rlog) - l, "%s%llu", l ? "," : "", err >= _JOSE_CFG_ERR_BASE ? code_of(err) : 0ULL);
    if (misc != (void *) rlog)
        strncat(rlog, "(WRONG-MISC)", sizeof(rlog) - strlen(rlog) - 1);
}

static void
h_other(void *misc, const char *file, int line, uint64_t err, const char *fmt, va_list ap)
{
    other_calls++;
}

static void
run(jose_cfg_t *cfg)
{
    const char *op = F[1];
    json_t *a = NF > 2 ? jarg(F[2]) : NULL;
    json_t *b = NF > 3 ? jarg(F[3]) : NULL;
    json_t *c = NF > 4 && strcmp(op, "ver") != 0 ? jarg(F[4]) : NULL;
    if (strcmp(op, "ver") == 0) {
        (void) jose_jws_ver(cfg, a, NULL, b, NF > 4 && strcmp(F[4], "1") == 0);
    } else if (strcmp(op, "sig") == 0) {
        (void) jose_jws_sig(cfg, a, b, c);
    } else if (strcmp(op, "dec") == 0) {
        size_t l = 0;
        free(jose_jwe_dec(cfg, a, NULL, b, &l));
    } else if (strcmp(op, "enc") == 0) {
        (void) jose_jwe_enc(cfg, a, NULL, b, "x", 1);
    } else if (strcmp(op, "exc") == 0) {
        json_decref(jose_jwk_exc(cfg, a, b));
    } else if (strcmp(op, "gen") == 0) {
        (void) jose_jwk_gen(cfg, a);
    }
    json_decref(a);
    json_decref(b);
    json_decref(c);
}

/* run with stderr redirected into a temporary file; returns what was written */
static char *
capture(jose_cfg_t *cfg, size_t *n)
{
    static char buf[8192];
    char path[] = "/tmp/h_route_XXXXXX";
    int fd = mkstemp(path);
    int save = dup(2);
    fflush(stderr);
    dup2(fd, 2);
    run(cfg);
    fflush(stderr);
    dup2(save, 2);
    close(save);
    lseek(fd, 0, SEEK_SET);
    ssize_t r = read(fd, buf, sizeof(buf) - 1);
    close(fd);
    unlink(path);
    if (r < 0)
        r = 0;
    buf[r] = 0;
    *n = (size_t) r;
    return buf;
}

static void
c_cfgroute(void)
{
    size_t n = 0;
    char *e = capture(NULL, &n);
    /* the default handler prints "file:line:NAME:message": translate the names back into codes */
    fputs("null=", stdout);
    int first = 1;
    for (char *l = strtok(e, "\n"); l; l = strtok(NULL, "\n")) {
        const char *nm = strstr(l, "JOSE_CFG_ERR_");
        unsigned long long code = 0;
        if (nm) {
            static const char *names[] = { "JOSE_CFG_ERR_JWK_INVALID", "JOSE_CFG_ERR_JWK_MISMATCH", "JOSE_CFG_ERR_JWK_DENIED",
                                           "JOSE_CFG_ERR_ALG_NOTSUP", "JOSE_CFG_ERR_ALG_NOINFER", "JOSE_CFG_ERR_JWS_INVALID", NULL };
            for (int i = 0; names[i]; i++)
                if (strncmp(nm, names[i], strlen(names[i])) == 0)
                    code = 100 + 1 + i;
        }
        if (!nm && !strchr(l, ':'))
            continue;
        printf("%s%llu", first ? "" : ",", code);
        first = 0;
    }
    jose_cfg_t *mine = jose_cfg();
    jose_cfg_t *other = jose_cfg();
    jose_cfg_set_err_func(mine, h_mine, rlog);
    jose_cfg_set_err_func(other, h_other, NULL);
    rlog[0] = 0;
    other_calls = 0;
    e = capture(mine, &n);
    printf(" ctx=%s stderr=%zu other=%d", rlog, n, other_calls);
    jose_cfg_decref(mine);
    jose_cfg_decref(other);
}

static const cmd_t cmds_route[] = { { "cfgroute", c_cfgroute }, { NULL, NULL } };
REGISTER(cmds_route)
