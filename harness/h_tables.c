/* Translator, C side: dumps what the *running* code says (registries pushed by
 * the load-time constructors, macro values visible through headers).
 * tools/tables.py turns this into coq/Gen/*.v on every run. */
#include "h.h"
#include "hooks.h"
#include "openssl/misc.h"

static void
plist(const char *tag, const char **l)
{
    printf(" %s=", tag);
    for (size_t i = 0; l && l[i]; i++)
        printf("%s%s", i ? "," : "", l[i]);
}

static const char *
ns(const char *s)
{
    return s ? s : "-";
}

static void
c_tables(void)
{
    static const char *kinds[] = { "none", "hash", "sign", "wrap", "encr", "comp", "exch" };

    printf("b64_map %s\n", JOSE_B64_MAP);
    printf("keymax %d\n", (int) KEYMAX);
    printf("max_compressed_size %d\n", (int) MAX_COMPRESSED_SIZE);

    for (const jose_hook_alg_t *a = jose_hook_alg_list(); a; a = a->next) {
        printf("alg %s %s", kinds[a->kind], a->name);
        switch (a->kind) {
        case JOSE_HOOK_ALG_KIND_HASH: printf(" size=%zu", a->hash.size); break;
        case JOSE_HOOK_ALG_KIND_SIGN: printf(" sprm=%s vprm=%s", ns(a->sign.sprm), ns(a->sign.vprm)); break;
        case JOSE_HOOK_ALG_KIND_WRAP: printf(" eprm=%s dprm=%s", ns(a->wrap.eprm), ns(a->wrap.dprm)); break;
        case JOSE_HOOK_ALG_KIND_ENCR: printf(" eprm=%s dprm=%s", ns(a->encr.eprm), ns(a->encr.dprm)); break;
        case JOSE_HOOK_ALG_KIND_EXCH: printf(" prm=%s", ns(a->exch.prm)); break;
        default: break;
        }
        printf("\n");
    }

    for (const jose_hook_jwk_t *j = jose_hook_jwk_list(); j; j = j->next) {
        switch (j->kind) {
        case JOSE_HOOK_JWK_KIND_TYPE:
            printf("jwk_type %s", j->type.kty);
            plist("req", j->type.req);
            plist("pub", j->type.pub);
            plist("prv", j->type.prv);
            printf("\n");
            break;
        case JOSE_HOOK_JWK_KIND_OPER:
            printf("jwk_oper pub=%s prv=%s use=%s\n", ns(j->oper.pub), ns(j->oper.prv), ns(j->oper.use));
            break;
        case JOSE_HOOK_JWK_KIND_PREP: printf("jwk_prep\n"); break;
        case JOSE_HOOK_JWK_KIND_MAKE: printf("jwk_make\n"); break;
        default: break;
        }
    }
}

static const cmd_t cmds_tables[] = {
    { "tables", c_tables },
    { NULL, NULL }
};
REGISTER(cmds_tables)
