/* C12: conversion to and from OpenSSL key objects preserves the key.
 *   osslrt <jwk>   -> JWK after jose_openssl_jwk_to_EVP_PKEY + jose_openssl_jwk_from_EVP_PKEY, TAB,
 *                     JWK after the type-specific route (to_EC_KEY/from_EC_KEY or to_RSA/from_RSA), or ERR */
#include "h.h"
#include <openssl/evp.h>
#include <openssl/ec.h>
#include <openssl/rsa.h>

static void
c_osslrt(void)
{
    json_t *jwk = jarg(F[1]);
    EVP_PKEY *pk = jose_openssl_jwk_to_EVP_PKEY(NULL, jwk);
    json_t *a = pk ? jose_openssl_jwk_from_EVP_PKEY(NULL, pk) : NULL;
    putjson(a);
    putchar('\t');
    const char *kty = json_string_value(json_object_get(jwk, "kty"));
    json_t *b = NULL;
    if (kty && strcmp(kty, "EC") == 0) {
        EC_KEY *k = jose_openssl_jwk_to_EC_KEY(NULL, jwk);
        b = k ? jose_openssl_jwk_from_EC_KEY(NULL, k) : NULL;
        EC_KEY_free(k);
    } else if (kty && strcmp(kty, "RSA") == 0) {
        RSA *k = jose_openssl_jwk_to_RSA(NULL, jwk);
        b = k ? jose_openssl_jwk_from_RSA(NULL, k) : NULL;
        RSA_free(k);
    }
    if (kty && strcmp(kty, "oct") == 0)
        putchar('-');          /* no type-specific route for symmetric keys */
    else
        putjson(b);
    EVP_PKEY_free(pk);
    json_decref(a);
    json_decref(b);
    json_decref(jwk);
}

static const cmd_t cmds_ossl[] = { { "osslrt", c_osslrt }, { NULL, NULL } };
REGISTER(cmds_ossl)
