/* C15: merged headers, suggestions, where a chosen algorithm is recorded
 *   hdr jws <sig> | hdr jwe <jwe> <rcp|->
 *   sug sign|wrap|encr <jwk>   sug wenc <alg> <jwk>   sug exch <prv> <pub>
 *   sigalg <sig template|-> <jwk>        -> chosen alg, then the signature object's protected/header as left by find_alg+encode
 *   sigmulti <sig template> <keys>      -> per signature P=.. H=.., then T=<template afterwards>
 *   encalg <jwe> <cek>                    -> jwe after jose_jwe_enc_cek_io() (protected decoded), or ERR
 *   wrapalg <jwe> <rcp|-> <jwk> <cek>     -> recipient header alg and cek alg after jose_jwe_enc_jwk(), or ERR
 *   gen <template>                        -> jose_jwk_gen result or ERR  */
#include "h.h"
#include "hooks.h"

static void
c_hdr(void)
{
    json_t *a = jarg(F[2]);
    json_t *h = NULL;
    if (strcmp(F[1], "jws") == 0) {
        h = jose_jws_hdr(a);
    } else {
        json_t *r = jarg(F[3]);
        h = jose_jwe_hdr(a, r);
        json_decref(r);
    }
    putjson(h);
    json_decref(h);
    json_decref(a);
}

static void
c_sug(void)
{
    const char *k = F[1];
    const char *out = NULL;
    json_t *a = NULL, *b = NULL;
    if (strcmp(k, "wenc") == 0) {
        a = jarg(F[3]);
        const jose_hook_alg_t *alg = jose_hook_alg_find(JOSE_HOOK_ALG_KIND_WRAP, F[2]);
        out = alg ? alg->wrap.enc(alg, NULL, a) : NULL;
    } else if (strcmp(k, "exch") == 0) {
        a = jarg(F[2]);
        b = jarg(F[3]);
        for (const jose_hook_alg_t *x = jose_hook_alg_list(); x && !out; x = x->next)
            if (x->kind == JOSE_HOOK_ALG_KIND_EXCH)
                out = x->exch.sug(x, NULL, a, b);
    } else {
        a = jarg(F[2]);
        for (const jose_hook_alg_t *x = jose_hook_alg_list(); x && !out; x = x->next) {
            if (strcmp(k, "sign") == 0 && x->kind == JOSE_HOOK_ALG_KIND_SIGN)
                out = x->sign.sug(x, NULL, a);
            else if (strcmp(k, "wrap") == 0 && x->kind == JOSE_HOOK_ALG_KIND_WRAP)
                out = x->wrap.alg(x, NULL, a);
            else if (strcmp(k, "encr") == 0 && x->kind == JOSE_HOOK_ALG_KIND_ENCR)
                out = x->encr.sug(x, NULL, a);
        }
    }
    fputs(out ? out : "-", stdout);
    json_decref(a);
    json_decref(b);
}

static void
c_sigalg(void)
{
    json_t *sig = jarg(F[1]);
    json_t *jwk = jarg(F[2]);
    json_t *jws = json_pack("{s:s}", "payload", "cGF5");
    if (!sig)
        sig = json_object();
    jose_io_t *io = jose_jws_sig_io(NULL, jws, sig, jwk);
    if (!io) {
        fputs("ERR", stdout);
    } else {
        /* the template object now holds what find_alg recorded and encode_protected produced */
        json_t *p = json_object_get(sig, "protected");
        json_t *dp = json_is_string(p) ? jose_b64_dec_load(p) : NULL;
        fputs("P=", stdout);
        putjson(dp ? dp : p ? p : json_null());
        fputs("\tH=", stdout);
        json_t *h = json_object_get(sig, "header");
        if (h) putjson(h); else fputs("-", stdout);
        json_decref(dp);
    }
    jose_io_decref(io);
    json_decref(jws);
    json_decref(sig);
    json_decref(jwk);
}

/* sigmulti <sig template object> <array of keys>: jose_jws_sig() with ONE template applied to several keys.
 * Prints, per produced signature, the decoded protected header and the unprotected header, then the caller's
 * template as it is afterwards. */
static void
c_sigmulti(void)
{
    json_t *sig = jarg(F[1]);
    json_t *jwk = jarg(F[2]);
    json_t *jws = json_pack("{s:s}", "payload", "cGF5");
    if (!jose_jws_sig(NULL, jws, sig, jwk)) {
        fputs("ERR", stdout);
    } else {
        json_t *arr = json_object_get(jws, "signatures");
        size_t n = arr ? json_array_size(arr) : 1;
        for (size_t i = 0; i < n; i++) {
            json_t *s = arr ? json_array_get(arr, i) : jws;
            json_t *p = json_object_get(s, "protected");
            json_t *dp = json_is_string(p) ? jose_b64_dec_load(p) : NULL;
            fputs("P=", stdout);
            putjson(dp ? dp : json_null());
            fputs(" H=", stdout);
            json_t *h = json_object_get(s, "header");
            if (h) putjson(h); else fputs("-", stdout);
            fputs("\t", stdout);
            json_decref(dp);
        }
    }
    fputs("T=", stdout);
    putjson(sig);
    json_decref(jws);
    json_decref(sig);
    json_decref(jwk);
}

static void
c_encalg(void)
{
    json_t *jwe = jarg(F[1]);
    json_t *cek = jarg(F[2]);
    void *buf = NULL;
    size_t len = 0;
    jose_io_t *sink = jose_io_malloc(NULL, &buf, &len);
    jose_io_t *io = jose_jwe_enc_cek_io(NULL, jwe, cek, sink);
    if (!io) {
        fputs("ERR", stdout);
    } else {
        json_t *p = json_object_get(jwe, "protected");
        json_t *dp = json_is_string(p) ? jose_b64_dec_load(p) : NULL;
        fputs("P=", stdout);
        putjson(dp ? dp : json_null());
        fputs("\tU=", stdout);
        json_t *u = json_object_get(jwe, "unprotected");
        if (u) putjson(u); else fputs("-", stdout);
        json_decref(dp);
        /* which algorithm was APPLIED: the IV it generated (12 octets for GCM, 16 for CBC-HMAC), and whether the
         * product decrypts again under the header the object now carries */
        printf("\tIV=");
        putsz(jose_b64_dec(json_object_get(jwe, "iv"), NULL, 0));
        bool ok = io->feed(io, "x", 1) && io->done(io);
        if (ok && json_object_set_new(jwe, "ciphertext", jose_b64_enc(buf, len)) == 0) {
            size_t ptl = 0;
            void *pt = jose_jwe_dec_cek(NULL, jwe, cek, &ptl);
            printf("\tRT=%s", (pt && ptl == 1 && *(char *) pt == 'x') ? "ok" : "FAIL");
            free(pt);
        } else {
            printf("\tRT=noenc");
        }
    }
    jose_io_decref(io);
    jose_io_decref(sink);
    json_decref(jwe);
    json_decref(cek);
}

static void
c_wrapalg(void)
{
    json_t *jwe = jarg(F[1]);
    json_t *rcp = jarg(F[2]);
    json_t *jwk = jarg(F[3]);
    json_t *cek = jarg(F[4]);
    if (!rcp)
        rcp = json_object();
    if (!jose_jwe_enc_jwk(NULL, jwe, rcp, jwk, cek)) {
        fputs("ERR", stdout);
    } else {
        json_t *h = jose_jwe_hdr(jwe, rcp);
        json_t *ralg = json_object_get(json_object_get(rcp, "header"), "alg");
        fputs("alg=", stdout);
        putjson(json_object_get(h, "alg"));
        fputs("\trcpalg=", stdout);
        if (ralg) putjson(ralg); else fputs("-", stdout);
        fputs("\tcekalg=", stdout);
        putjson(json_object_get(cek, "alg"));
        json_decref(h);
    }
    json_decref(jwe);
    json_decref(rcp);
    json_decref(jwk);
    json_decref(cek);
}

static void
c_gen(void)
{
    json_t *t = jarg(F[1]);
    if (jose_jwk_gen(NULL, t))
        putjson(t);
    else
        fputs("ERR", stdout);
    json_decref(t);
}

static const cmd_t cmds_hdr[] = {
    { "hdr", c_hdr },
    { "sug", c_sug },
    { "sigalg", c_sigalg },
    { "sigmulti", c_sigmulti },
    { "encalg", c_encalg },
    { "wrapalg", c_wrapalg },
    { "gen", c_gen },
    { NULL, NULL }
};
REGISTER(cmds_hdr)
