/* JWS sign / verify
 *   jwsver <jws> <sig|-> <jwk> <all 0|1>                  -> T | F   (jose_jws_ver, one-shot)
 *   jwsverio <jws> <sig|-> <jwk> <all 0|1> <chunk sizes|-> <payload hex>
 *                                                          -> N (no IO object) | <feeds accepted> <T|F|->
 *   jwssig <jws> <sig|-> <jwk>                             -> JWS after jose_jws_sig, or ERR */
#include "h.h"

static void
c_jwsver(void)
{
    json_t *jws = jarg(F[1]);
    json_t *sig = jarg(F[2]);
    json_t *jwk = jarg(F[3]);
    bool all = F[4][0] == '1';
    fputs(jose_jws_ver(NULL, jws, sig, jwk, all) ? "T" : "F", stdout);
    json_decref(jws);
    json_decref(sig);
    json_decref(jwk);
}

static void
c_jwsverio(void)
{
    json_t *jws = jarg(F[1]);
    json_t *sig = jarg(F[2]);
    json_t *jwk = jarg(F[3]);
    bool all = F[4][0] == '1';
    buf_t pay = unhex(F[6]);
    jose_io_t *io = jose_jws_ver_io(NULL, jws, sig, jwk, all);
    if (!io) {
        fputs("N", stdout);
    } else {
        size_t off = 0;
        int accepted = 0;
        bool ok = true;
        if (strcmp(F[5], "-") != 0) {
            const char *c = F[5];
            while (*c) {
                char *e = NULL;
                size_t l = (size_t) strtoul(c, &e, 10);
                c = (*e == ',') ? e + 1 : e;
                if (off + l > pay.n) l = pay.n - off;
                if (!io->feed(io, pay.p + off, l)) { ok = false; break; }
                off += l;
                accepted++;
            }
        }
        printf("%d ", accepted);
        fputs(!ok ? "-" : io->done(io) ? "T" : "F", stdout);
    }
    jose_io_decref(io);
    free(pay.p);
    json_decref(jws);
    json_decref(sig);
    json_decref(jwk);
}

static void
c_jwssig(void)
{
    json_t *jws = jarg(F[1]);
    json_t *sig = jarg(F[2]);
    json_t *jwk = jarg(F[3]);
    if (jose_jws_sig(NULL, jws, sig, jwk))
        putjson(jws);
    else
        fputs("ERR", stdout);
    json_decref(jws);
    json_decref(sig);
    json_decref(jwk);
}

static const cmd_t cmds_jws[] = {
    { "jwsver", c_jwsver },
    { "jwsverio", c_jwsverio },
    { "jwssig", c_jwssig },
    { NULL, NULL }
};
REGISTER(cmds_jws)
