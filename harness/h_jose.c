#include "h.h"

const cmd_t cmds_jose[] = {
    { NULL, NULL }
};
