/* C09: memory discipline of every JSON-consuming entry point.
 *
 *   mem <function> <json args...> [<extra fields>]   ->  V=<ok|fail>\tD=<n>[:<where>=<delta>;...]\tL=<n>[\tLEAK=<site>,...][\tJLEAK=<site>,...]
 *   mem ?list                                        ->  the bound function names, space separated
 *
 * For one call:
 *  (a) jansson's allocator is replaced (json_set_alloc_funcs) by a counting, poisoning one: live blocks are
 *      counted, a freed block is filled with 0xDD before it is really freed (so ASan still sees the free);
 *  (b) every node of every argument is recorded and pinned (one extra reference each, so that a reference the
 *      library drops without owning it shows up as a wrong count and not as a crash somewhere else); after
 *      the call the count of every node must be  pins + (1 if it is an argument or result root) + number of
 *      containers (reachable from the arguments and the result) that hold it;  D lists the nodes where it is not;
 *  (c) the result is released, the pins are dropped, the arguments are released;  L = jansson blocks allocated
 *      since the case started that are still alive;
 *  (d) LeakSanitizer is asked (when it is active: ASAN_OPTIONS=detect_leaks=1) whether anything malloc'ed became
 *      unreachable; reports are cumulative, so the allocation stacks are diffed against the previous check and
 *      only new ones are printed, as  <innermost lib/ frame>[<its lib/ caller].
 * A sanitizer abort / crash is reported by the runner as CRASH. */
#define _GNU_SOURCE
#include "h.h"
#include <jose/b64.h>
#include <jose/io.h>
#include <jose/jwk.h>
#include <jose/jws.h>
#include <jose/jwe.h>
#include <jose/openssl.h>
#include <openssl/rsa.h>
#include <openssl/ec.h>
#include <openssl/evp.h>
#include <unistd.h>
#include <sys/mman.h>
#include "misc.h"

#if defined(__has_feature)
# if __has_feature(address_sanitizer)
#  define HAVE_LSAN 1
#  include <sanitizer/lsan_interface.h>
#  include <sanitizer/common_interface_defs.h>
#  include <sanitizer/allocator_interface.h>
#  include <sanitizer/asan_interface.h>
# endif
#endif

/* ------------------------------------------------------------------ counting, poisoning allocator */

#define TAB (1u << 17)
/* open addressing; p == 1 is a tombstone.  Pointers are stored XORed with a mask so that the table does not make a
 * leaked block "reachable" for LeakSanitizer (it then also names the allocation site of leaked jansson values). */
#define HIDE(p) ((void *) ((uintptr_t) (p) ^ (uintptr_t) 0x5a5a5a5a5a5a5a5aull))
static struct { void *p; size_t n; } blk[TAB];
static size_t live_blocks, used_slots;
static int alloc_ready;

static size_t
slot_of(void *p)
{
    return (size_t) (((uintptr_t) p >> 4) * 0x9E3779B97F4A7C15ull >> 47) & (TAB - 1);
}

static void *
cm(size_t n)
{
    void *p = malloc(n ? n : 1);
    if (!p)
        return NULL;
    if (used_slots > TAB / 2) {
        /* rebuild without tombstones */
        static struct { void *p; size_t n; } tmp[TAB];
        memcpy(tmp, blk, sizeof(blk));
        memset(blk, 0, sizeof(blk));
        used_slots = 0;
        for (size_t i = 0; i < TAB; i++) {
            if (tmp[i].p && tmp[i].p != (void *) 1) {
                size_t s = slot_of(HIDE(tmp[i].p));
                while (blk[s].p) s = (s + 1) & (TAB - 1);
                blk[s].p = tmp[i].p;
                blk[s].n = tmp[i].n;
                used_slots++;
            }
        }
        if (used_slots > TAB / 2) {
            fprintf(stderr, "harness: allocation table full\n");
            exit(3);
        }
    }
    size_t s = slot_of(p);
    /* an entry with the same address is stale (the block was released with free() behind our back) */
    for (size_t t = s; blk[t].p; t = (t + 1) & (TAB - 1)) {
        if (blk[t].p == HIDE(p)) {
            blk[t].n = n;
            return p;
        }
    }
    while (blk[s].p && blk[s].p != (void *) 1) s = (s + 1) & (TAB - 1);
    if (!blk[s].p) used_slots++;
    blk[s].p = HIDE(p);
    blk[s].n = n;
    live_blocks++;
    return p;
}

static void
cf(void *p)
{
    if (!p)
        return;
    size_t s = slot_of(p);
    while (blk[s].p && blk[s].p != HIDE(p)) s = (s + 1) & (TAB - 1);
    if (blk[s].p == HIDE(p)) {
        memset(p, 0xDD, blk[s].n);
        blk[s].p = (void *) 1;
        live_blocks--;
    }
    /* a block that is not ours was allocated before the allocator was installed (or freed twice:
     * the real free below makes ASan say so) */
    free(p);
}

/* The library releases what json_dumps() returned with free() (correct with jansson's default allocator): such a
 * block is gone although our table still has it.  ASan knows: drop the entries it no longer owns. */
static void
sweep_foreign_frees(void)
{
#ifdef HAVE_LSAN
    for (size_t s = 0; s < TAB; s++) {
        if (!blk[s].p || blk[s].p == (void *) 1)
            continue;
        void *p = HIDE(blk[s].p);
        int ours = 0;
        if (__sanitizer_get_ownership(p)) {
            /* the address may have been handed out again to somebody else: ours only if cm() allocated it */
            void *trace[8];
            int tid = 0;
            size_t n = __asan_get_alloc_stack(p, trace, 8, &tid);
            for (size_t i = 0; i < n; i++)
                if ((uintptr_t) trace[i] - (uintptr_t) cm < 2048)
                    ours = 1;
        }
        if (!ours) {
            blk[s].p = (void *) 1;
            live_blocks--;
        }
    }
#endif
}

static void
alloc_init(void)
{
    if (alloc_ready)
        return;
    json_set_alloc_funcs(cm, cf);
    alloc_ready = 1;
}

/* ------------------------------------------------------------------ node table */

typedef struct {
    json_t *n;
    char *path;      /* a<arg>/<member>/<index>...; new nodes: +/... */
    size_t pins;
    size_t indeg;
    int root;        /* an argument root or the result root: one reference held by the caller */
    int isnew;
    int seen;
} ent_t;

static ent_t *ents;
static size_t nents, cents;

static ent_t *
ent_find(json_t *n)
{
    for (size_t i = 0; i < nents; i++)
        if (ents[i].n == n)
            return &ents[i];
    return NULL;
}

static ent_t *
ent_add(json_t *n, const char *path, int isnew)
{
    if (nents == cents) {
        cents = cents ? cents * 2 : 256;
        ents = realloc(ents, cents * sizeof(*ents));
    }
    ent_t *e = &ents[nents++];
    memset(e, 0, sizeof(*e));
    e->n = n;
    e->path = strdup(path);
    e->isnew = isnew;
    return e;
}

static int
singleton(const json_t *n)
{
    return n->refcount == (size_t) -1;   /* json_null(), json_true(), json_false() */
}

static void
walk_pre(json_t *n, const char *path)
{
    if (!n || singleton(n) || ent_find(n))
        return;
    ent_t *e = ent_add(n, path, 0);
    json_incref(n);
    e->pins = 1;
    char sub[600];
    if (json_is_object(n)) {
        const char *k;
        json_t *v;
        json_object_foreach(n, k, v) {
            snprintf(sub, sizeof(sub), "%.400s/%.100s", path, k);
            walk_pre(v, sub);
        }
    } else if (json_is_array(n)) {
        size_t i;
        json_t *v;
        json_array_foreach(n, i, v) {
            snprintf(sub, sizeof(sub), "%.400s/%zu", path, i);
            walk_pre(v, sub);
        }
    }
}

static void
walk_post(json_t *n, const char *path)
{
    if (!n || singleton(n))
        return;
    ent_t *e = ent_find(n);
    if (!e)
        e = ent_add(n, path, 1);
    if (e->seen)
        return;
    e->seen = 1;
    size_t me = (size_t) (e - ents);
    char sub[600];
    if (json_is_object(n)) {
        const char *k;
        json_t *v;
        json_object_foreach(n, k, v) {
            if (!v || singleton(v))
                continue;
            snprintf(sub, sizeof(sub), "%.400s/%.100s", ents[me].isnew ? ents[me].path : "+", k);
            walk_post(v, sub);
            ent_find(v)->indeg++;
        }
    } else if (json_is_array(n)) {
        size_t i;
        json_t *v;
        json_array_foreach(n, i, v) {
            if (!v || singleton(v))
                continue;
            snprintf(sub, sizeof(sub), "%.400s/%zu", ents[me].isnew ? ents[me].path : "+", i);
            walk_post(v, sub);
            ent_find(v)->indeg++;
        }
    }
}

/* ------------------------------------------------------------------ bindings */

typedef struct {
    json_t *a[6];
    json_t *ret;     /* a JSON value the call returned (owned by us) */
    int ok;
} call_t;

static buf_t
xarg(int i)
{
    if (i < NF)
        return unhex(F[i]);
    return unhex("-");
}

static void
run_io(jose_io_t *io, int x, call_t *c)
{
    /* feed the bytes of field x and finish */
    buf_t d = xarg(x);
    c->ok = 0;
    if (io) {
        c->ok = io->feed(io, d.p, d.n) && io->done(io);
        jose_io_decref(io);
    }
    free(d.p);
}

static void b_b64_dec(call_t *c)
{
    /* field 3: q (query), x (exact buffer), or a number (buffer of that many bytes) */
    const char *m = NF > 3 ? F[3] : "x";
    size_t r;
    if (m[0] == 'q') {
        r = jose_b64_dec(c->a[0], NULL, 0);
    } else {
        size_t n = m[0] == 'x' ? jose_b64_dec(c->a[0], NULL, 0) : (size_t) argll(m);
        if (n == SIZE_MAX) {
            r = SIZE_MAX;
        } else {
            uint8_t *b = malloc(n ? n : 1);   /* exact size: ASan watches the end */
            if (n == 0) { free(b); b = malloc(0); if (!b) b = malloc(1); }
            r = jose_b64_dec(c->a[0], b, n);
            free(b);
        }
    }
    c->ok = r != SIZE_MAX;
}
static void b_b64_dec_load(call_t *c) { c->ret = jose_b64_dec_load(c->a[0]); c->ok = c->ret != NULL; }
static void b_b64_enc_dump(call_t *c) { c->ret = jose_b64_enc_dump(c->a[0]); c->ok = c->ret != NULL; }

static void b_jws_hdr(call_t *c) { c->ret = jose_jws_hdr(c->a[0]); c->ok = c->ret != NULL; }
static void b_jws_sig(call_t *c) { c->ok = jose_jws_sig(NULL, c->a[0], c->a[1], c->a[2]); }
static void b_jws_sig_io(call_t *c) { run_io(jose_jws_sig_io(NULL, c->a[0], c->a[1], c->a[2]), 5, c); }
static void b_jws_ver(call_t *c) { c->ok = jose_jws_ver(NULL, c->a[0], c->a[1], c->a[2], NF > 5 && F[5][0] == '1'); }
static void b_jws_ver_io(call_t *c) { run_io(jose_jws_ver_io(NULL, c->a[0], c->a[1], c->a[2], NF > 5 && F[5][0] == '1'), 6, c); }

static void b_jwe_hdr(call_t *c) { c->ret = jose_jwe_hdr(c->a[0], c->a[1]); c->ok = c->ret != NULL; }
static void b_jwe_enc(call_t *c)
{
    buf_t d = xarg(5);
    c->ok = jose_jwe_enc(NULL, c->a[0], c->a[1], c->a[2], d.p, d.n);
    free(d.p);
}
static void b_jwe_enc_io(call_t *c)
{
    void *b = NULL; size_t l = 0;
    jose_io_t *o = jose_io_malloc(NULL, &b, &l);
    run_io(jose_jwe_enc_io(NULL, c->a[0], c->a[1], c->a[2], o), 5, c);
    jose_io_decref(o);
}
static void b_jwe_enc_jwk(call_t *c) { c->ok = jose_jwe_enc_jwk(NULL, c->a[0], c->a[1], c->a[2], c->a[3]); }
static void b_jwe_enc_cek(call_t *c)
{
    buf_t d = xarg(4);
    c->ok = jose_jwe_enc_cek(NULL, c->a[0], c->a[1], d.p, d.n);
    free(d.p);
}
static void b_jwe_enc_cek_io(call_t *c)
{
    void *b = NULL; size_t l = 0;
    jose_io_t *o = jose_io_malloc(NULL, &b, &l);
    run_io(jose_jwe_enc_cek_io(NULL, c->a[0], c->a[1], o), 4, c);
    jose_io_decref(o);
}
static void b_jwe_dec(call_t *c)
{
    size_t l = 0;
    void *p = jose_jwe_dec(NULL, c->a[0], c->a[1], c->a[2], &l);
    c->ok = p != NULL;
    free(p);
}
static void
dec_through(jose_io_t *d, call_t *c)
{
    /* what jose_jwe_dec_cek does with the stage: base64url-decode "ciphertext" into it */
    const char *ct = NULL; size_t ctl = 0;
    jose_io_t *i = jose_b64_dec_io(d);
    c->ok = 0;
    if (d && i && json_unpack(c->a[0], "{s:s%}", "ciphertext", &ct, &ctl) == 0)
        c->ok = i->feed(i, ct, ctl) && i->done(i);
    jose_io_decref(i);
    jose_io_decref(d);
}
static void b_jwe_dec_io(call_t *c)
{
    void *b = NULL; size_t l = 0;
    jose_io_t *o = jose_io_malloc(NULL, &b, &l);
    dec_through(jose_jwe_dec_io(NULL, c->a[0], c->a[1], c->a[2], o), c);
    jose_io_decref(o);
}
static void b_jwe_dec_jwk(call_t *c) { c->ret = jose_jwe_dec_jwk(NULL, c->a[0], c->a[1], c->a[2]); c->ok = c->ret != NULL; }
static void b_jwe_dec_cek(call_t *c)
{
    size_t l = 0;
    void *p = jose_jwe_dec_cek(NULL, c->a[0], c->a[1], &l);
    c->ok = p != NULL;
    free(p);
}
static void b_jwe_dec_cek_io(call_t *c)
{
    void *b = NULL; size_t l = 0;
    jose_io_t *o = jose_io_malloc(NULL, &b, &l);
    dec_through(jose_jwe_dec_cek_io(NULL, c->a[0], c->a[1], o), c);
    jose_io_decref(o);
}

static void b_jwk_gen(call_t *c) { c->ok = jose_jwk_gen(NULL, c->a[0]); }
static void b_jwk_pub(call_t *c) { c->ok = jose_jwk_pub(NULL, c->a[0]); }
static void b_jwk_prm(call_t *c)
{
    c->ok = jose_jwk_prm(NULL, c->a[0], NF > 3 && F[3][0] == '1', NF > 4 && strcmp(F[4], "NULL") ? F[4] : NULL);
}
static void b_jwk_eql(call_t *c) { c->ok = jose_jwk_eql(NULL, c->a[0], c->a[1]); }
static void b_jwk_thp(call_t *c) { c->ret = jose_jwk_thp(NULL, c->a[0], NF > 3 ? F[3] : "S256"); c->ok = c->ret != NULL; }
static void b_jwk_thp_buf(call_t *c)
{
    const char *alg = NF > 3 ? F[3] : "S256";
    size_t r;
    if (NF <= 4 || strcmp(F[4], "NULL") == 0) {
        r = jose_jwk_thp_buf(NULL, c->a[0], alg, NULL, 0);
    } else {
        size_t n = (size_t) argll(F[4]);
        uint8_t *b = malloc(n ? n : 1);
        r = jose_jwk_thp_buf(NULL, c->a[0], alg, b, n);
        free(b);
    }
    c->ok = r != SIZE_MAX;
}
static void b_jwk_exc(call_t *c) { c->ret = jose_jwk_exc(NULL, c->a[0], c->a[1]); c->ok = c->ret != NULL; }

static void b_to_rsa(call_t *c) { RSA *k = jose_openssl_jwk_to_RSA(NULL, c->a[0]); c->ok = k != NULL; RSA_free(k); }
static void b_to_ec(call_t *c) { EC_KEY *k = jose_openssl_jwk_to_EC_KEY(NULL, c->a[0]); c->ok = k != NULL; EC_KEY_free(k); }
static void b_to_pkey(call_t *c) { EVP_PKEY *k = jose_openssl_jwk_to_EVP_PKEY(NULL, c->a[0]); c->ok = k != NULL; EVP_PKEY_free(k); }

/* internal glue with a model of its own (not exported; reached because the objects are linked directly) */
static void b_zip_in_prot(call_t *c) { c->ok = zip_in_protected_header(c->a[0]); }
static void b_encode_protected(call_t *c) { c->ok = encode_protected(c->a[0]); }

static const struct { const char *name; int njson; void (*fn)(call_t *); } binds[] = {
    { "jose_b64_dec", 1, b_b64_dec },
    { "jose_b64_dec_load", 1, b_b64_dec_load },
    { "jose_b64_enc_dump", 1, b_b64_enc_dump },
    { "jose_jws_hdr", 1, b_jws_hdr },
    { "jose_jws_sig", 3, b_jws_sig },
    { "jose_jws_sig_io", 3, b_jws_sig_io },
    { "jose_jws_ver", 3, b_jws_ver },
    { "jose_jws_ver_io", 3, b_jws_ver_io },
    { "jose_jwe_hdr", 2, b_jwe_hdr },
    { "jose_jwe_enc", 3, b_jwe_enc },
    { "jose_jwe_enc_io", 3, b_jwe_enc_io },
    { "jose_jwe_enc_jwk", 4, b_jwe_enc_jwk },
    { "jose_jwe_enc_cek", 2, b_jwe_enc_cek },
    { "jose_jwe_enc_cek_io", 2, b_jwe_enc_cek_io },
    { "jose_jwe_dec", 3, b_jwe_dec },
    { "jose_jwe_dec_io", 3, b_jwe_dec_io },
    { "jose_jwe_dec_jwk", 3, b_jwe_dec_jwk },
    { "jose_jwe_dec_cek", 2, b_jwe_dec_cek },
    { "jose_jwe_dec_cek_io", 2, b_jwe_dec_cek_io },
    { "jose_jwk_gen", 1, b_jwk_gen },
    { "jose_jwk_pub", 1, b_jwk_pub },
    { "jose_jwk_prm", 1, b_jwk_prm },
    { "jose_jwk_eql", 2, b_jwk_eql },
    { "jose_jwk_thp", 1, b_jwk_thp },
    { "jose_jwk_thp_buf", 1, b_jwk_thp_buf },
    { "jose_jwk_exc", 2, b_jwk_exc },
    { "jose_openssl_jwk_to_RSA", 1, b_to_rsa },
    { "jose_openssl_jwk_to_EC_KEY", 1, b_to_ec },
    { "jose_openssl_jwk_to_EVP_PKEY", 1, b_to_pkey },
    { "zip_in_protected_header", 1, b_zip_in_prot },
    { "encode_protected", 1, b_encode_protected },
    { NULL, 0, NULL }
};

/* ------------------------------------------------------------------ LeakSanitizer: new leaks since the last check */

/* things that must stay reachable: arguments whose counts were found wrong, and blocks LeakSanitizer has already
 * reported (so that it reports every leak once, in the case that produced it) */
static void *grave[1 << 16];
static size_t ngrave;

#ifdef HAVE_LSAN
static struct { uint64_t key; long count; } groups[2048];
static int ngroups;
static int lsan_fd = -1;

static uint64_t
fnv(const char *s, size_t n, uint64_t h)
{
    for (size_t i = 0; i < n; i++) { h ^= (unsigned char) s[i]; h *= 0x100000001b3ull; }
    return h;
}

/* a frame line:  "    #3 0x55d0 in func /path/file.c:12:3"  or  "... in func (/lib/x.so+0x12)".
 * Returns 0 (not a frame of the library's sources), 1 (a helper file: b64.c, io.c, openssl/misc.c), 2 (other). */
static int
lib_frame(const char *line, size_t n, char *fn, size_t fnsz)
{
    const char *in = memmem(line, n, " in ", 4);
    if (!in)
        return 0;
    const char *f = in + 4;
    const char *end = line + n;
    const char *sp = memchr(f, ' ', (size_t) (end - f));
    if (!sp)
        return 0;
    const char *path = sp + 1;
    size_t pl = (size_t) (end - path);
    if (pl == 0 || path[0] == '(')
        return 0;
    if (!memmem(path, pl, "/lib/", 5) || !memmem(path, pl, ".c:", 3) || memmem(path, pl, "/h_mem.c:", 9))
        return 0;
    size_t l = (size_t) (sp - f);
    if (l >= fnsz) l = fnsz - 1;
    memcpy(fn, f, l);
    fn[l] = 0;
    {
        /* static function names repeat across files: func@file.c */
        const char *c = memmem(path, pl, ".c:", 3);
        const char *b = c;
        while (b > path && b[-1] != '/') b--;
        size_t bl = (size_t) (c + 2 - b);
        if (l + 1 + bl < fnsz) { fn[l] = '@'; memcpy(fn + l + 1, b, bl); fn[l + 1 + bl] = 0; }
    }
    if (memmem(path, pl, "/lib/b64.c:", 11) || memmem(path, pl, "/lib/io.c:", 10) || memmem(path, pl, "/lib/openssl/misc.c:", 20))
        return 1;
    return 2;
}

static void
scrub_stack(void)
{
    /* deeper than anything the library used: a stale copy of a pointer would hide a leak until a later case */
    volatile char pad[1 << 20];
    memset((void *) pad, 0, sizeof(pad));
}

static void
add_site(char *out, size_t outsz, const char *site)
{
    if (!strstr(out, site) && strlen(out) + strlen(site) + 2 < outsz) {
        if (out[0]) strcat(out, ",");
        strcat(out, site);
    }
}

/* new leaks since the previous check: sites of malloc'ed blocks into out, of jansson values into jout */
static int
lsan_new(char *out, char *jout, size_t outsz)
{
    out[0] = 0;
    jout[0] = 0;
    if (lsan_fd < 0)
        lsan_fd = memfd_create("lsan", 0);
    if (lsan_fd < 0)
        return 0;
    if (ftruncate(lsan_fd, 0) != 0) return 0;
    lseek(lsan_fd, 0, SEEK_SET);
    scrub_stack();
    __sanitizer_set_report_fd((void *) (intptr_t) lsan_fd);
    int r = __lsan_do_recoverable_leak_check();
    __sanitizer_set_report_fd((void *) (intptr_t) 2);
    if (!r)
        return 0;
    off_t sz = lseek(lsan_fd, 0, SEEK_END);
    if (sz <= 0)
        return 0;
    char *txt = malloc((size_t) sz + 1);
    lseek(lsan_fd, 0, SEEK_SET);
    ssize_t got = read(lsan_fd, txt, (size_t) sz);
    if (got < 0) got = 0;
    txt[got] = 0;
    if (getenv("H_MEM_DEBUG"))
        fprintf(stderr, "%s\n", txt);
    int nnew = 0;
    char *p = txt;
    while ((p = strstr(p, " leak of "))) {
        /* "... leak of N byte(s) in K object(s) allocated from:" then the frames, then an empty line */
        long k = 0;
        char *o = strstr(p, " in ");
        if (o) k = strtol(o + 4, NULL, 10);
        char *fr = strchr(p, '\n');
        if (!fr) break;
        fr++;
        char *endb = strstr(fr, "\n\n");
        if (!endb) endb = txt + got;
        uint64_t key = fnv(fr, (size_t) (endb - fr), 0xcbf29ce484222325ull);
        int g;
        for (g = 0; g < ngroups; g++)
            if (groups[g].key == key) break;
        long prev = 0;
        if (g < ngroups) prev = groups[g].count;
        else if (ngroups < 2048) { groups[ngroups].key = key; ngroups++; }
        if (g < 2048) groups[g].count = k;
        /* with report_objects=1 the block lists the leaked addresses: keep them reachable from now on */
        {
            char *ob = memmem(fr, (size_t) (endb - fr), "Objects leaked above:", 21);
            char *lim = ob ? strstr(ob, "\n\n") : NULL;
            if (ob && !lim) lim = txt + got;
            for (char *q = ob; q && q < lim; ) {
                char *x = memmem(q, (size_t) (lim - q), "\n0x", 3);
                if (!x) break;
                void *addr = (void *) (uintptr_t) strtoull(x + 1, NULL, 16);
                if (addr && ngrave < sizeof(grave) / sizeof(grave[0])) grave[ngrave++] = addr;
                q = x + 3;
            }
            if (lim && lim > endb) endb = lim;
        }
        if (k > prev) {
            /* name the site: the innermost frame inside the library's sources and, when that one is in a helper
             * file, the first frame that is not */
            char f1[128] = "", f2[128] = "", fh[128] = "";
            int k1 = 0;
            int jans = memmem(fr, (size_t) (endb - fr), " in cm ", 7) != NULL;
            for (char *l = fr; l < endb; ) {
                char *nl = memchr(l, '\n', (size_t) (endb - l));
                size_t ln = nl ? (size_t) (nl - l) : (size_t) (endb - l);
                char fn[128];
                int kind = lib_frame(l, ln, fn, sizeof(fn));
                if (kind) {
                    if (!f1[0]) { strcpy(f1, fn); k1 = kind; if (kind == 2) break; }
                    else if (kind == 2) { strcpy(f2, fn); break; }
                } else if (f1[0] && !fh[0]) {
                    /* allocated by the harness itself (a sink it passed in): name the binding */
                    const char *in = memmem(l, ln, " in b_", 6);
                    if (in && memmem(l, ln, "/h_mem.c:", 9)) {
                        const char *e = memchr(in + 4, ' ', (size_t) (l + ln - (in + 4)));
                        size_t fl = e ? (size_t) (e - (in + 4)) : 0;
                        if (fl && fl < sizeof(fh) - 3) { memcpy(fh, "H:", 2); memcpy(fh + 2, in + 4, fl); fh[fl + 2] = 0; }
                    }
                }
                if (!nl) break;
                l = nl + 1;
            }
            (void) k1;
            char site[300];
            if (!f2[0] && k1 == 1 && fh[0]) strcpy(f2, fh);
            snprintf(site, sizeof(site), "%s%s%s", f1[0] ? f1 : "?", f2[0] ? "<" : "", f2);
            add_site(jans ? jout : out, outsz, site);
            nnew++;
        }
        p = endb;
    }
    free(txt);
    return nnew;
}
#endif

/* ------------------------------------------------------------------ the command */


static void
c_mem(void)
{
    if (NF < 2) {
        fputs("USAGE", stdout);
        return;
    }
    if (strcmp(F[1], "?list") == 0) {
        for (int i = 0; binds[i].name; i++)
            printf("%s%s", i ? " " : "", binds[i].name);
        return;
    }
    int b;
    for (b = 0; binds[b].name; b++)
        if (strcmp(binds[b].name, F[1]) == 0)
            break;
    if (!binds[b].name) {
        fputs("UNBOUND", stdout);
        return;
    }
    alloc_init();
    size_t base = live_blocks;

    call_t c;
    memset(&c, 0, sizeof(c));
    int nj = binds[b].njson;
    for (int i = 0; i < nj; i++)
        c.a[i] = (2 + i < NF) ? jarg(F[2 + i]) : NULL;

    nents = 0;
    if (strcmp(F[0], "memnp") == 0) {
        /* no pins: the arguments are owned by this call alone, exactly as an application would own them, so that a
         * node the library releases once too often IS freed and the sanitizer sees the later use */
        fflush(stdout);
        binds[b].fn(&c);
        printf("V=%s\tD=0", c.ok ? "ok" : "fail");
        json_decref(c.ret);
        for (int i = 0; i < nj; i++)
            json_decref(c.a[i]);
        if (live_blocks != base)
            sweep_foreign_frees();
        printf("\tL=%zu", live_blocks - base);
        fflush(stdout);
        return;
    }
    for (int i = 0; i < nj; i++) {
        char p[16];
        snprintf(p, sizeof(p), "a%d", i);
        walk_pre(c.a[i], p);
        if (c.a[i] && !singleton(c.a[i]))
            ent_find(c.a[i])->root++;      /* the same tree twice cannot happen: every argument is parsed separately */
    }

    fflush(stdout);
    binds[b].fn(&c);

    /* counts after the call */
    for (int i = 0; i < nj; i++) {
        char p[16];
        snprintf(p, sizeof(p), "a%d", i);
        walk_post(c.a[i], p);
    }
    if (c.ret && !singleton(c.ret)) {
        walk_post(c.ret, "+ret");
        ent_find(c.ret)->root++;
    }
    /* a caller node the call detached from its argument (a replaced member) is alive through its pin only;
     * it still holds its own children */
    for (size_t i = 0; i < nents; i++)
        if (!ents[i].isnew && !ents[i].seen)
            walk_post(ents[i].n, "+detached");
    char dbuf[2048];
    size_t dl = 0, nd = 0;
    dbuf[0] = 0;
    for (size_t i = 0; i < nents; i++) {
        ent_t *e = &ents[i];
        size_t want = e->pins + (size_t) e->root + e->indeg;
        size_t have = e->n->refcount;
        if (have != want) {
            nd++;
            long long d = (long long) have - (long long) want;
            int w = snprintf(dbuf + dl, sizeof(dbuf) - dl, "%s%.200s=%+lld", dl ? ";" : "", e->path, d);
            if (w > 0 && (size_t) w < sizeof(dbuf) - dl) dl += (size_t) w;
        }
    }
    printf("V=%s\tD=%zu%s%s", c.ok ? "ok" : "fail", nd, nd ? ":" : "", dbuf);

    if (nd == 0) {
        /* release what the call returned, the pins, the arguments */
        json_decref(c.ret);
        for (size_t i = 0; i < nents; i++)
            for (size_t k = 0; k < ents[i].pins; k++)
                json_decref(ents[i].n);
        for (int i = 0; i < nj; i++)
            json_decref(c.a[i]);
        if (live_blocks != base)
            sweep_foreign_frees();
        printf("\tL=%zu", live_blocks - base);
#ifdef HAVE_LSAN
        if (live_blocks != base && getenv("H_MEM_DEBUG")) {
            for (size_t s = 0; s < TAB; s++)
                if (blk[s].p && blk[s].p != (void *) 1) {
                    fprintf(stderr, "live block %p size %zu\n", HIDE(blk[s].p), blk[s].n);
                    __asan_describe_address(HIDE(blk[s].p));
                }
        }
#endif
    } else {
        /* the counts are wrong: releasing would free something twice; keep everything reachable */
        if (ngrave + 8 < sizeof(grave) / sizeof(grave[0])) {
            grave[ngrave++] = c.ret;
            for (int i = 0; i < nj; i++)
                grave[ngrave++] = c.a[i];
        }
        sweep_foreign_frees();           /* so that the next case starts from a clean count */
        fputs("\tL=?", stdout);
    }
    for (size_t i = 0; i < nents; i++) {
        free(ents[i].path);
        ents[i].n = NULL;
    }
    nents = 0;
    fflush(stdout);
#ifdef HAVE_LSAN
    {
        char sites[1024], jsites[1024];
        if (lsan_new(sites, jsites, sizeof(sites)) > 0) {
            if (sites[0]) printf("\tLEAK=%s", sites);
            if (jsites[0]) printf("\tJLEAK=%s", jsites);
        }
    }
#endif
}

static const cmd_t cmds_mem[] = {
    { "mem", c_mem },
    { "memnp", c_mem },
    { NULL, NULL }
};
REGISTER(cmds_mem)
