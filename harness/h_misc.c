#include "h.h"

const cmd_t cmds_misc[] = {
    { NULL, NULL }
};
