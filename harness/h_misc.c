#include "h.h"

/* jsonrt <hex text> : json_loadb(JSON_DECODE_ANY) then compact sorted dump */
static void
c_jsonrt(void)
{
    buf_t t = unhex(F[1]);
    json_t *j = json_loadb((const char *) t.p, t.n, JSON_DECODE_ANY, NULL);
    putjson(j);
    json_decref(j);
    free(t.p);
}

static const cmd_t cmds_misc[] = {
    { "jsonrt", c_jsonrt },
    { NULL, NULL }
};
REGISTER(cmds_misc)
