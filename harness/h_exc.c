/* C13: key exchange through the public entry point.
 *   exc <local jwk> <remote jwk>   -> JWK returned by jose_jwk_exc(NULL, local, remote), or ERR
 * (local is the "prv" argument / `jose jwk exc -l`, remote the "pub" argument / `-r`).
 * The arguments are checked to be left unmodified: a changed argument prints MUTATED. */
#include "h.h"

static int
same(const json_t *a, const json_t *b)
{
    return (!a && !b) || (a && b && json_equal(a, b));
}

static void
c_exc(void)
{
    json_t *l = jarg(F[1]);
    json_t *r = jarg(F[2]);
    json_t *l0 = json_deep_copy(l);
    json_t *r0 = json_deep_copy(r);
    json_t *k = jose_jwk_exc(NULL, l, r);

    if (!same(l, l0) || !same(r, r0))
        fputs("MUTATED ", stdout);
    putjson(k);

    json_decref(k);
    json_decref(l0);
    json_decref(r0);
    json_decref(l);
    json_decref(r);
}

static const cmd_t cmds_exc[] = {
    { "exc", c_exc },
    { NULL, NULL }
};
REGISTER(cmds_exc)
