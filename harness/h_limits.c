/* C14 -- hostile parameters cannot force unbounded work or oversized buffers.
 *
 * Every command drives the REAL entry points of the library with one boundary value and reports
 * what was handed on to the primitive.  The amount of work / number of bytes is observed at the
 * OpenSSL boundary: this file defines PKCS5_PBKDF2_HMAC, HMAC_Init_ex, EVP_EncryptUpdate and
 * EVP_DecryptUpdate; the repo's objects are linked into the harness executable, so their calls bind
 * to these definitions, which record the arguments and pass the call on to libcrypto (dlsym
 * RTLD_NEXT).  Outside a limits command they are plain pass-throughs.  While a limits command is
 * observing, a PBKDF2 request above KDF_CAP iterations is recorded and then NOT executed (it
 * returns 0), so that a request for 2^31-1 iterations can be observed without waiting for it.
 *
 *   pbes2_unw <p2c json|-|keep> <p2s json|-|keep|len:<n>> <alg 0..2>      (len:n = n zero bytes)
 *        a valid PBES2 JWE (made with p2c=1000) whose p2c / p2s are replaced, then jose_jwe_dec_jwk
 *        -> G=<P|R> iter=<n> saltl=<n> kdfret=<1|0|capped|-> final=<A|R> us=<wall time>
 *   p2c_wrp <p2c json|-> <prot|unprot|rcp> <alg 0..2>
 *        jose_jwe_enc_jwk with that header
 *        -> G=<P|R> iter=<n> final=<A|R> p2c=<p2c of the produced header|-> us=..
 *   zipct <text length> <mode 0..3> <deflated 0|1>
 *        one-shot jose_jwe_dec_cek of a JWE (A128GCM, valid whenever the length allows) whose
 *        ciphertext text has that length; mode 0 no zip, 1 zip=DEF protected, 2 zip=DEF unprotected
 *        only, 3 zip=XYZ protected
 *        -> final=<A|R> dec=<D|N> (was any ciphertext handed to the cipher) ptl=<n|-> us=..
 *   inffeed <len>
 *        one feed of a valid raw-deflate stream (stored blocks) of that length into comp.inf of DEF
 *        -> final=<A|R> out=<bytes that reached the sink after done|0> us=..
 *   keymax <site> <len|bad|none> [<alg>]
 *        -> G=<P|R|-> n=<bytes handed on|-> final=<A|R> us=..
 *   oct_gen <bytes json|->
 *        -> final=<A|R> n=<decoded length of the generated k|-> us=..
 */
#include "h.h"
#include "hooks.h"
#include "openssl/misc.h"
#include <dlfcn.h>
#include <time.h>
#include <openssl/evp.h>
#include <openssl/hmac.h>

#define KDF_CAP 200000

static int obs_on;
static long kdf_calls, kdf_ret;
static long long kdf_iter;
static long long kdf_saltl, kdf_passl;
static int kdf_capped;
static long long hm_len;
static long hm_calls;
static long long enc_in, dec_in;
static long enc_calls, dec_calls;

static void
obs_reset(void)
{
    kdf_calls = 0; kdf_ret = -1; kdf_iter = 0; kdf_saltl = 0; kdf_passl = 0; kdf_capped = 0;
    hm_len = 0; hm_calls = 0; enc_in = dec_in = 0; enc_calls = dec_calls = 0;
}

int
PKCS5_PBKDF2_HMAC(const char *pass, int passlen, const unsigned char *salt, int saltlen, int iter,
                  const EVP_MD *digest, int keylen, unsigned char *out)
{
    static int (*real)(const char *, int, const unsigned char *, int, int, const EVP_MD *, int, unsigned char *);
    if (!real)
        real = dlsym(RTLD_NEXT, "PKCS5_PBKDF2_HMAC");
    if (!obs_on)
        return real(pass, passlen, salt, saltlen, iter, digest, keylen, out);
    kdf_calls++;
    kdf_iter = iter;
    kdf_saltl = saltlen;
    kdf_passl = passlen;
    if (iter > KDF_CAP) {
        kdf_capped = 1;
        kdf_ret = 0;
        return 0;
    }
    kdf_ret = real(pass, passlen, salt, saltlen, iter, digest, keylen, out);
    return (int) kdf_ret;
}

int
HMAC_Init_ex(HMAC_CTX *ctx, const void *key, int len, const EVP_MD *md, ENGINE *impl)
{
    static int (*real)(HMAC_CTX *, const void *, int, const EVP_MD *, ENGINE *);
    if (!real)
        real = dlsym(RTLD_NEXT, "HMAC_Init_ex");
    if (obs_on && key) {
        hm_calls++;
        hm_len = len;
    }
    return real(ctx, key, len, md, impl);
}

int
EVP_EncryptUpdate(EVP_CIPHER_CTX *ctx, unsigned char *out, int *outl, const unsigned char *in, int inl)
{
    static int (*real)(EVP_CIPHER_CTX *, unsigned char *, int *, const unsigned char *, int);
    if (!real)
        real = dlsym(RTLD_NEXT, "EVP_EncryptUpdate");
    if (obs_on && out) {
        enc_calls++;
        enc_in += inl;
    }
    return real(ctx, out, outl, in, inl);
}

int
EVP_DecryptUpdate(EVP_CIPHER_CTX *ctx, unsigned char *out, int *outl, const unsigned char *in, int inl)
{
    static int (*real)(EVP_CIPHER_CTX *, unsigned char *, int *, const unsigned char *, int);
    if (!real)
        real = dlsym(RTLD_NEXT, "EVP_DecryptUpdate");
    if (obs_on && out) {
        dec_calls++;
        dec_in += inl;
    }
    return real(ctx, out, outl, in, inl);
}

/* ------------------------------------------------------------------ helpers */

static long long
now_us(void)
{
    struct timespec ts;
    clock_gettime(CLOCK_MONOTONIC, &ts);
    return (long long) ts.tv_sec * 1000000LL + ts.tv_nsec / 1000;
}

static const char *PB_ALG[] = { "PBES2-HS256+A128KW", "PBES2-HS384+A192KW", "PBES2-HS512+A256KW" };
static const char *PB_ENC[] = { "A128CBC-HS256", "A192CBC-HS384", "A256CBC-HS512" };

static int
algidx(const char *s)
{
    int i = atoi(s);
    return i < 0 || i > 2 ? 0 : i;
}

/* a JSON string: base64url of n zero bytes ('A' repeated; canonical), "bad" = undecodable length, "none" = NULL */
static json_t *
b64zeros(const char *spec)
{
    if (strcmp(spec, "none") == 0)
        return NULL;
    if (strcmp(spec, "bad") == 0)
        return json_string("AAAAA");
    size_t n = (size_t) strtoull(spec, NULL, 10);
    size_t el = n / 3 * 4 + (n % 3 == 0 ? 0 : n % 3 + 1);
    char *t = malloc(el + 1);
    memset(t, 'A', el);
    t[el] = 0;
    json_t *j = json_stringn(t, el);
    free(t);
    return j;
}

static void
set_or_del(json_t *obj, const char *key, json_t *v)
{
    if (v)
        json_object_set_new(obj, key, v);
    else
        json_object_del(obj, key);
}

static json_t *
password_jwk(void)
{
    return json_pack("{s:s,s:s}", "kty", "oct", "k", "cGFzc3dvcmQ");
}

/* a valid flattened PBES2 JWE {header:{alg,enc,p2c,p2s},encrypted_key} made by the library itself */
static json_t *
pbes2_jwe(jose_cfg_t *cfg, int ai, const json_t *jwk)
{
    json_t *jwe = json_object();
    json_t *rcp = json_pack("{s:{s:s,s:s,s:i}}", "header", "alg", PB_ALG[ai], "enc", PB_ENC[ai], "p2c", 1000);
    json_t *cek = json_object();
    bool ok = jose_jwe_enc_jwk(cfg, jwe, rcp, jwk, cek);
    json_decref(rcp);
    json_decref(cek);
    if (!ok) {
        json_decref(jwe);
        return NULL;
    }
    return jwe;
}

static void
put_kdf(bool final, long long us)
{
    if (kdf_calls > 0)
        printf("G=P\titer=%lld\tsaltl=%lld\tkdfret=%s", kdf_iter, kdf_saltl,
               kdf_capped ? "capped" : kdf_ret > 0 ? "1" : "0");
    else
        printf("G=R\titer=0\tsaltl=0\tkdfret=-");
    printf("\tfinal=%s\tus=%lld", final ? "A" : "R", us);
}

/* ------------------------------------------------------------------ PBES2 */

static void
c_pbes2_unw(void)
{
    jose_cfg_t *cfg = jose_cfg();
    int ai = algidx(F[3]);
    json_t *jwk = password_jwk();
    json_t *jwe = pbes2_jwe(cfg, ai, jwk);
    if (!jwe) {
        fputs("SETUP-FAILED", stdout);
        goto out;
    }
    json_t *h = json_object_get(jwe, "header");
    if (strcmp(F[1], "keep") != 0)
        set_or_del(h, "p2c", jarg(F[1]));
    if (strncmp(F[2], "len:", 4) == 0)
        set_or_del(h, "p2s", b64zeros(F[2] + 4));
    else if (strcmp(F[2], "keep") != 0)
        set_or_del(h, "p2s", jarg(F[2]));

    obs_reset();
    obs_on = 1;
    long long t0 = now_us();
    json_t *cek = jose_jwe_dec_jwk(cfg, jwe, NULL, jwk);
    long long t1 = now_us();
    obs_on = 0;
    put_kdf(cek != NULL, t1 - t0);
    json_decref(cek);
out:
    json_decref(jwe);
    json_decref(jwk);
    jose_cfg_decref(cfg);
}

static void
c_p2c_wrp(void)
{
    jose_cfg_t *cfg = jose_cfg();
    int ai = algidx(F[3]);
    json_t *jwk = password_jwk();
    json_t *jwe = json_pack("{s:{s:s,s:s}}", "protected", "alg", PB_ALG[ai], "enc", PB_ENC[ai]);
    json_t *rcp = json_object();
    json_t *cek = json_object();
    json_t *v = jarg(F[1]);
    if (v) {
        if (strcmp(F[2], "prot") == 0)
            json_object_set_new(json_object_get(jwe, "protected"), "p2c", v);
        else if (strcmp(F[2], "unprot") == 0)
            json_object_set_new(jwe, "unprotected", json_pack("{s:o}", "p2c", v));
        else
            json_object_set_new(rcp, "header", json_pack("{s:o}", "p2c", v));
    }
    obs_reset();
    obs_on = 1;
    long long t0 = now_us();
    bool ok = jose_jwe_enc_jwk(cfg, jwe, rcp, jwk, cek);
    long long t1 = now_us();
    obs_on = 0;
    if (kdf_calls > 0)
        printf("G=P\titer=%lld", kdf_iter);
    else
        printf("G=R\titer=0");
    printf("\tfinal=%s\tp2c=", ok ? "A" : "R");
    if (ok) {
        json_t *hdr = jose_jwe_hdr(jwe, jwe);
        json_t *p = json_object_get(hdr, "p2c");
        if (p)
            putjson(p);
        else
            putchar('-');
        json_decref(hdr);
    } else {
        putchar('-');
    }
    printf("\tus=%lld", t1 - t0);
    json_decref(cek);
    json_decref(rcp);
    json_decref(jwe);
    json_decref(jwk);
    jose_cfg_decref(cfg);
}

/* ------------------------------------------------------------------ raw deflate, stored blocks */

/* a valid raw-deflate stream of exactly n >= 5 bytes; returns the number of data bytes it carries */
static size_t
stored_stream(uint8_t *out, size_t n)
{
    size_t k = (n + 65539) / 65540;          /* blocks: 5 bytes of framing + at most 65535 of data each */
    size_t data = n - 5 * k;
    size_t left = data;
    size_t o = 0;
    for (size_t b = 0; b < k; b++) {
        size_t l = left > 65535 ? 65535 : left;
        out[o++] = (b + 1 == k) ? 1 : 0;     /* BFINAL, BTYPE=00 */
        out[o++] = l & 255;
        out[o++] = l >> 8;
        out[o++] = (~l) & 255;
        out[o++] = ((~l) >> 8) & 255;
        for (size_t i = 0; i < l; i++)
            out[o++] = (uint8_t) (i * 131 + b);
        left -= l;
    }
    return data;
}

typedef struct {
    jose_io_t io;
    size_t n;
} count_t;

static bool
cnt_feed(jose_io_t *io, const void *in, size_t len)
{
    ((count_t *) io)->n += len;
    return true;
}

static bool
cnt_done(jose_io_t *io)
{
    return true;
}

static void
cnt_free(jose_io_t *io)
{
}

static void
c_inffeed(void)
{
    size_t len = (size_t) strtoull(F[1], NULL, 10);
    /* optional third field: that many octets of garbage BEHIND the complete deflate stream (same feed) */
    size_t trail = NF > 2 ? (size_t) strtoull(F[2], NULL, 10) : 0;
    jose_cfg_t *cfg = jose_cfg();
    const jose_hook_alg_t *a = jose_hook_alg_find(JOSE_HOOK_ALG_KIND_COMP, "DEF");
    uint8_t *buf = malloc(len + trail ? len + trail : 1);
    if (len >= 5)
        stored_stream(buf, len);
    else
        memset(buf, 0, len);
    memset(buf + len, 0x55, trail);
    len += trail;
    count_t sink = { .io = { .refs = 1, .feed = cnt_feed, .done = cnt_done, .free = cnt_free }, .n = 0 };
    jose_io_t *inf = a ? a->comp.inf(a, cfg, &sink.io) : NULL;
    if (!inf) {
        fputs("SETUP-FAILED", stdout);
    } else {
        long long t0 = now_us();
        bool ok = inf->feed(inf, buf, len);
        long long t1 = now_us();
        size_t during = sink.n;
        if (ok)
            ok = inf->done(inf);
        printf("final=%s\tout=%zu\tus=%lld", ok ? "A" : "R", ok ? sink.n : during, t1 - t0);
        jose_io_decref(inf);
    }
    free(buf);
    jose_cfg_decref(cfg);
}

/* ------------------------------------------------------------------ compressed ciphertext limit */

static size_t
b64_dlen_of(size_t el)
{
    switch (el % 4) {
    case 0: return el / 4 * 3;
    case 2: return el / 4 * 3 + 1;
    case 3: return el / 4 * 3 + 2;
    default: return SIZE_MAX;
    }
}

static void
c_zipct(void)
{
    size_t tl = (size_t) strtoull(F[1], NULL, 10);
    int mode = atoi(F[2]);
    bool deflated = atoi(F[3]) != 0;
    jose_cfg_t *cfg = jose_cfg();
    json_t *cek = json_pack("{s:s,s:s}", "kty", "oct", "k", "AAAAAAAAAAAAAAAAAAAAAA");
    json_t *prot = json_pack("{s:s,s:s}", "alg", "dir", "enc", "A128GCM");
    json_t *jwe = json_object();
    if (mode == 1)
        json_object_set_new(prot, "zip", json_string("DEF"));
    if (mode == 3)
        json_object_set_new(prot, "zip", json_string("XYZ"));
    if (mode == 2)
        json_object_set_new(jwe, "unprotected", json_pack("{s:s}", "zip", "DEF"));
    json_object_set_new(jwe, "protected", jose_b64_enc_dump(prot));
    json_decref(prot);

    size_t n = b64_dlen_of(tl);
    size_t vn = n == SIZE_MAX ? b64_dlen_of(tl - 1) : n;   /* an undecodable length: valid text plus one character */
    size_t expect_ptl = 0;
    uint8_t *pt = malloc(vn ? vn : 1);
    if (deflated && vn >= 5) {
        expect_ptl = stored_stream(pt, vn);
        if (mode != 1)
            expect_ptl = vn;      /* nothing inflates it */
    } else {
        for (size_t i = 0; i < vn; i++)
            pt[i] = (uint8_t) (i * 7 + 3);
        expect_ptl = vn;
    }

    /* encrypt exactly these octets under the header with OpenSSL directly: the library's own encryption
     * path would compress (and is not what is measured here) */
    uint8_t *ct = malloc(vn + 16);
    size_t ctl = 0;
    {
        uint8_t key[16] = {0}, iv[12] = {1, 2, 3, 4, 5, 6, 7, 8, 9, 10, 11, 12}, tag[16];
        const char *aad = json_string_value(json_object_get(jwe, "protected"));
        int l = 0, fl = 0;
        EVP_CIPHER_CTX *x = EVP_CIPHER_CTX_new();
        bool ok = x && EVP_EncryptInit_ex(x, EVP_aes_128_gcm(), NULL, NULL, NULL) > 0
            && EVP_EncryptInit_ex(x, NULL, NULL, key, iv) > 0
            && EVP_EncryptUpdate(x, NULL, &l, (const uint8_t *) aad, (int) strlen(aad)) > 0
            && EVP_EncryptUpdate(x, ct, &l, pt, (int) vn) > 0
            && EVP_EncryptFinal_ex(x, ct + l, &fl) > 0
            && EVP_CIPHER_CTX_ctrl(x, EVP_CTRL_GCM_GET_TAG, sizeof(tag), tag) > 0;
        ctl = (size_t) (l + fl);
        EVP_CIPHER_CTX_free(x);
        if (!ok || ctl != vn) {
            fputs("SETUP-FAILED", stdout);
            goto out;
        }
        json_object_set_new(jwe, "iv", jose_b64_enc(iv, sizeof(iv)));
        json_object_set_new(jwe, "tag", jose_b64_enc(tag, sizeof(tag)));
    }
    {
        json_t *cts = jose_b64_enc(ct, ctl);
        if (n == SIZE_MAX) {
            size_t l = json_string_length(cts);
            char *t = malloc(l + 2);
            memcpy(t, json_string_value(cts), l);
            t[l] = 'A';
            t[l + 1] = 0;
            json_decref(cts);
            cts = json_stringn(t, l + 1);
            free(t);
        }
        if (json_string_length(cts) != tl) {
            fputs("SETUP-FAILED-LEN", stdout);
            json_decref(cts);
            goto out;
        }
        json_object_set_new(jwe, "ciphertext", cts);
    }
    {
        size_t ptl = 0;
        obs_reset();
        obs_on = 1;
        long long t0 = now_us();
        void *res = jose_jwe_dec_cek(cfg, jwe, cek, &ptl);
        long long t1 = now_us();
        obs_on = 0;
        printf("final=%s\tdec=%s\tptl=", res ? "A" : "R", dec_in > 0 ? "D" : "N");
        if (res)
            printf("%zu", ptl);
        else
            putchar('-');
        if (res && ptl != expect_ptl)
            printf("\tUNEXPECTED-PLAINTEXT-LENGTH");
        printf("\tus=%lld", t1 - t0);
        free(res);
    }
out:
    free(ct);
    free(pt);
    json_decref(jwe);
    json_decref(cek);
    jose_cfg_decref(cfg);
}

/* ------------------------------------------------------------------ KEYMAX sites */

static json_t *ec_prv;   /* one P-256 key per process */

static json_t *
ec_key(jose_cfg_t *cfg)
{
    if (!ec_prv) {
        ec_prv = json_pack("{s:s,s:s}", "kty", "EC", "crv", "P-256");
        if (!jose_jwk_gen(cfg, ec_prv)) {
            json_decref(ec_prv);
            ec_prv = NULL;
        }
    }
    return ec_prv;
}

static void
put_site(const char *g, long long n, bool final, long long us)
{
    printf("G=%s\tn=", g);
    if (n < 0)
        putchar('-');
    else
        printf("%lld", n);
    printf("\tfinal=%s\tus=%lld", final ? "A" : "R", us);
}

static const char *
arg_alg(const char *dflt)
{
    return NF > 3 ? F[3] : dflt;
}

static void
c_keymax(void)
{
    const char *site = F[1];
    const char *spec = F[2];
    jose_cfg_t *cfg = jose_cfg();
    long long t0 = 0, t1 = 0;
    size_t len = (strcmp(spec, "bad") == 0 || strcmp(spec, "none") == 0) ? 0 : (size_t) strtoull(spec, NULL, 10);
    bool numeric = !(strcmp(spec, "bad") == 0 || strcmp(spec, "none") == 0);

    if (strcmp(site, "hmac_sig") == 0 || strcmp(site, "hmac_ver") == 0) {
        const char *alg = arg_alg("HS256");
        json_t *jwk = json_pack("{s:s}", "kty", "oct");
        set_or_del(jwk, "k", b64zeros(spec));
        bool ok;
        if (strcmp(site, "hmac_sig") == 0) {
            json_t *jws = json_pack("{s:s}", "payload", "cGF5");
            json_t *sig = json_pack("{s:{s:s}}", "protected", "alg", alg);
            obs_reset();
            obs_on = 1;
            t0 = now_us();
            ok = jose_jws_sig(cfg, jws, sig, jwk);
            t1 = now_us();
            obs_on = 0;
            json_decref(jws);
            json_decref(sig);
        } else {
            /* a signature that is valid under the key (computed with OpenSSL directly) */
            json_t *ph = json_pack("{s:s}", "alg", alg);
            json_t *pe = jose_b64_enc_dump(ph);
            const char *p = json_string_value(pe);
            char tbs[256];
            snprintf(tbs, sizeof(tbs), "%s.cGF5", p);
            const EVP_MD *md = strcmp(alg, "HS512") == 0 ? EVP_sha512() : strcmp(alg, "HS384") == 0 ? EVP_sha384() : EVP_sha256();
            uint8_t mac[64];
            unsigned int ml = 0;
            uint8_t *key = calloc(1, len ? len : 1);
            HMAC(md, key, (int) len, (uint8_t *) tbs, strlen(tbs), mac, &ml);
            free(key);
            json_t *jws = json_pack("{s:s,s:s,s:o}", "payload", "cGF5", "protected", p, "signature", jose_b64_enc(mac, ml));
            obs_reset();
            obs_on = 1;
            t0 = now_us();
            ok = jose_jws_ver(cfg, jws, NULL, jwk, false);
            t1 = now_us();
            obs_on = 0;
            json_decref(jws);
            json_decref(pe);
            json_decref(ph);
        }
        put_site(hm_calls ? "P" : "R", hm_calls ? hm_len : -1, ok, t1 - t0);
        json_decref(jwk);
    } else if (strcmp(site, "aeskw_wrp") == 0) {
        const char *alg = arg_alg("A128KW");
        size_t kl = strcmp(alg, "A256KW") == 0 ? 32 : strcmp(alg, "A192KW") == 0 ? 24 : 16;
        char ks[16];
        snprintf(ks, sizeof(ks), "%zu", kl);
        json_t *jwk = json_pack("{s:s,s:o}", "kty", "oct", "k", b64zeros(ks));
        json_t *jwe = json_pack("{s:{s:s,s:s}}", "protected", "alg", alg, "enc", "A128GCM");
        json_t *cek = json_pack("{s:s,s:s}", "kty", "oct", "alg", "A128GCM");
        set_or_del(cek, "k", b64zeros(spec));
        if (!numeric && strcmp(spec, "none") == 0)
            json_object_set_new(cek, "k", json_integer(5));   /* present but not a string */
        obs_reset();
        obs_on = 1;
        t0 = now_us();
        bool ok = jose_jwe_enc_jwk(cfg, jwe, NULL, jwk, cek);
        t1 = now_us();
        obs_on = 0;
        put_site(enc_calls ? "P" : "R", enc_calls ? enc_in : -1, ok, t1 - t0);
        json_decref(cek);
        json_decref(jwe);
        json_decref(jwk);
    } else if (strcmp(site, "aeskw_unw") == 0) {
        const char *alg = arg_alg("A128KW");
        size_t kl = strcmp(alg, "A256KW") == 0 ? 32 : strcmp(alg, "A192KW") == 0 ? 24 : 16;
        char ks[16];
        snprintf(ks, sizeof(ks), "%zu", kl);
        json_t *jwk = json_pack("{s:s,s:o}", "kty", "oct", "k", b64zeros(ks));
        json_t *jwe = json_pack("{s:{s:s,s:s}}", "protected", "alg", alg, "enc", "A128GCM");
        json_t *ek = NULL;
        if (numeric && len >= 24 && len % 8 == 0) {
            /* a valid RFC 3394 wrapping of len-8 zero bytes under the zero key, made with OpenSSL directly */
            const EVP_CIPHER *c = kl == 32 ? EVP_aes_256_wrap() : kl == 24 ? EVP_aes_192_wrap() : EVP_aes_128_wrap();
            uint8_t kek[32] = {0};
            uint8_t iv[8];
            memset(iv, 0xA6, sizeof(iv));
            uint8_t *in = calloc(1, len);
            uint8_t *out = calloc(1, len + 32);
            int ol = 0, fl = 0;
            EVP_CIPHER_CTX *x = EVP_CIPHER_CTX_new();
            EVP_CIPHER_CTX_set_flags(x, EVP_CIPHER_CTX_FLAG_WRAP_ALLOW);
            if (EVP_EncryptInit_ex(x, c, NULL, kek, iv) > 0 && EVP_EncryptUpdate(x, out, &ol, in, (int) (len - 8)) > 0
                && EVP_EncryptFinal_ex(x, out + ol, &fl) > 0 && (size_t) (ol + fl) == len)
                ek = jose_b64_enc(out, len);
            EVP_CIPHER_CTX_free(x);
            free(in);
            free(out);
            if (!ek) {
                fputs("SETUP-FAILED", stdout);
                json_decref(jwe);
                json_decref(jwk);
                jose_cfg_decref(cfg);
                return;
            }
        } else {
            ek = b64zeros(spec);
        }
        set_or_del(jwe, "encrypted_key", ek);
        obs_reset();
        obs_on = 1;
        t0 = now_us();
        json_t *cek = jose_jwe_dec_jwk(cfg, jwe, NULL, jwk);
        t1 = now_us();
        obs_on = 0;
        put_site(dec_calls ? "P" : "R", dec_calls ? dec_in : -1, cek != NULL, t1 - t0);
        json_decref(cek);
        json_decref(jwe);
        json_decref(jwk);
    } else if (strcmp(site, "pbes2_k_wrp") == 0 || strcmp(site, "pbes2_pw_wrp") == 0) {
        int ai = algidx(arg_alg("0"));
        json_t *jwk;
        if (strcmp(site, "pbes2_pw_wrp") == 0) {
            char *pw = malloc(len + 1);
            memset(pw, 'p', len);
            pw[len] = 0;
            jwk = json_stringn(pw, len);
            free(pw);
        } else {
            jwk = json_pack("{s:s}", "kty", "oct");
            set_or_del(jwk, "k", b64zeros(spec));
        }
        json_t *jwe = json_pack("{s:{s:s,s:s,s:i}}", "protected", "alg", PB_ALG[ai], "enc", PB_ENC[ai], "p2c", 1000);
        json_t *cek = json_object();
        obs_reset();
        obs_on = 1;
        t0 = now_us();
        bool ok = jose_jwe_enc_jwk(cfg, jwe, NULL, jwk, cek);
        t1 = now_us();
        obs_on = 0;
        put_site(kdf_calls ? "P" : "R", kdf_calls ? kdf_passl : -1, ok, t1 - t0);
        json_decref(cek);
        json_decref(jwe);
        json_decref(jwk);
    } else if (strcmp(site, "pbes2_k_unw") == 0) {
        int ai = algidx(arg_alg("0"));
        json_t *jwk = json_pack("{s:s}", "kty", "oct");
        set_or_del(jwk, "k", b64zeros(spec));
        json_t *jwe = pbes2_jwe(cfg, ai, jwk);
        if (!jwe)   /* the library refuses to wrap under this key: an object with a fixed, well-formed header */
            jwe = json_pack("{s:{s:s,s:s,s:i,s:s},s:s}", "header", "alg", PB_ALG[ai], "enc", PB_ENC[ai], "p2c", 1000,
                            "p2s", "AAAAAAAAAAAAAAAAAAAAAA", "encrypted_key",
                            "AAAAAAAAAAAAAAAAAAAAAAAAAAAAAAAAAAAAAAAAAAAAAAAAAAAAAA");
        obs_reset();
        obs_on = 1;
        t0 = now_us();
        json_t *cek = jose_jwe_dec_jwk(cfg, jwe, NULL, jwk);
        t1 = now_us();
        obs_on = 0;
        put_site(kdf_calls ? "P" : "R", kdf_calls ? kdf_passl : -1, cek != NULL, t1 - t0);
        json_decref(cek);
        json_decref(jwe);
        json_decref(jwk);
    } else if (strcmp(site, "ecdhes_apu_wrp") == 0 || strcmp(site, "ecdhes_apv_wrp") == 0) {
        const char *name = site[9] == 'u' ? "apu" : "apv";
        json_t *prv = ec_key(cfg);
        json_t *pub = json_deep_copy(prv);
        jose_jwk_pub(cfg, pub);
        json_t *jwe = json_pack("{s:{s:s,s:s}}", "protected", "alg", "ECDH-ES", "enc", "A128GCM");
        json_t *v = b64zeros(spec);
        if (!numeric && strcmp(spec, "none") == 0)
            v = json_integer(5);              /* present but not a string */
        set_or_del(json_object_get(jwe, "protected"), name, v);
        json_t *cek = json_object();
        t0 = now_us();
        bool ok = jose_jwe_enc_jwk(cfg, jwe, NULL, pub, cek);
        t1 = now_us();
        put_site("-", -1, ok, t1 - t0);
        json_decref(cek);
        json_decref(jwe);
        json_decref(pub);
    } else if (strcmp(site, "ecdhes_apu_unw") == 0 || strcmp(site, "ecdhes_apv_unw") == 0
               || strcmp(site, "ecdhes_x_unw") == 0) {
        json_t *prv = ec_key(cfg);
        json_t *pub = json_deep_copy(prv);
        jose_jwk_pub(cfg, pub);
        json_t *jwe = json_pack("{s:{s:s,s:s}}", "protected", "alg", "ECDH-ES", "enc", "A128GCM");
        json_t *cek = json_object();
        bool made = jose_jwe_enc_jwk(cfg, jwe, NULL, pub, cek);
        json_decref(cek);
        if (!made) {
            fputs("SETUP-FAILED", stdout);
        } else {
            json_t *key = NULL;
            if (site[7] == 'x') {
                /* no "d": the caller did the exchange elsewhere and passes its result; "x" is what derive() reads */
                key = json_deep_copy(pub);
                json_t *v = b64zeros(spec);
                if (!numeric && strcmp(spec, "none") == 0)
                    v = json_integer(5);
                set_or_del(key, "x", v);
            } else {
                key = json_deep_copy(prv);
                json_t *v = b64zeros(spec);
                if (!numeric && strcmp(spec, "none") == 0)
                    v = json_integer(5);
                /* the produced JWE keeps "epk" in the per-recipient header; apu/apv go there too */
                json_t *h = json_object_get(jwe, "header");
                if (!h)
                    json_object_set_new(jwe, "header", h = json_object());
                set_or_del(h, site[9] == 'u' ? "apu" : "apv", v);
            }
            t0 = now_us();
            json_t *out = jose_jwe_dec_jwk(cfg, jwe, NULL, key);
            t1 = now_us();
            put_site("-", -1, out != NULL, t1 - t0);
            json_decref(out);
            json_decref(key);
        }
        json_decref(jwe);
        json_decref(pub);
    } else {
        fputs("UNKNOWN-SITE", stdout);
    }
    jose_cfg_decref(cfg);
}

static void
c_oct_gen(void)
{
    jose_cfg_t *cfg = jose_cfg();
    json_t *jwk = json_pack("{s:s}", "kty", "oct");
    set_or_del(jwk, "bytes", jarg(F[1]));
    long long t0 = now_us();
    bool ok = jose_jwk_gen(cfg, jwk);
    long long t1 = now_us();
    printf("final=%s\tn=", ok ? "A" : "R");
    if (ok)
        putsz(jose_b64_dec(json_object_get(jwk, "k"), NULL, 0));
    else
        putchar('-');
    printf("\tus=%lld", t1 - t0);
    json_decref(jwk);
    jose_cfg_decref(cfg);
}

static const cmd_t cmds_limits[] = {
    { "pbes2_unw", c_pbes2_unw },
    { "p2c_wrp", c_p2c_wrp },
    { "zipct", c_zipct },
    { "inffeed", c_inffeed },
    { "keymax", c_keymax },
    { "oct_gen", c_oct_gen },
    { NULL, NULL }
};
REGISTER(cmds_limits)
