/* Correspondence harness: common helpers.  One case per input line, fields
 * separated by TAB; one result line per case on stdout. */
#pragma once
#define _GNU_SOURCE
#include <jansson.h>
#include <jose/jose.h>
#include <jose/openssl.h>
#include <stdbool.h>
#include <stdint.h>
#include <stdio.h>
#include <stdlib.h>
#include <string.h>

typedef struct { uint8_t *p; size_t n; } buf_t;

/* fields of the current line */
extern char **F;
extern int NF;

buf_t unhex(const char *s);              /* malloc'ed, exact size (n may be 0; p non-NULL) */
void  puthex(const uint8_t *p, size_t n);
void  putsz(size_t v);                   /* decimal or MAX for SIZE_MAX */
json_t *jarg(const char *s);             /* parse JSON text field ("-" = NULL) */
void  putjson(const json_t *j);          /* compact sorted dump, ENCODE_ANY; NULL -> ERR */
long long argll(const char *s);

typedef void (*cmd_fn)(void);
typedef struct { const char *name; cmd_fn fn; } cmd_t;

/* each h_*.c registers its table from a constructor: REGISTER(cmds_xxx) */
void h_register(const cmd_t *table);
#define REGISTER(t) static void __attribute__((constructor)) reg_##t(void) { h_register(t); }
