#include "h.h"

const cmd_t cmds_jwk[] = {
    { NULL, NULL }
};
