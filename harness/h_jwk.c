/* JWK commands: pub, thp, thpbuf, eql */
#include "h.h"

static void
c_pub(void)
{
    json_t *j = jarg(F[1]);
    if (jose_jwk_pub(NULL, j))
        putjson(j);
    else
        fputs("ERR", stdout);
    json_decref(j);
}

static void
c_thp(void)
{
    json_t *j = jarg(F[1]);
    json_t *t = jose_jwk_thp(NULL, j, F[2]);
    putjson(t);
    json_decref(t);
    json_decref(j);
}

/* thpbuf <jwk> <hash> <len|NULL> */
static void
c_thpbuf(void)
{
    json_t *j = jarg(F[1]);
    if (strcmp(F[3], "NULL") == 0) {
        putsz(jose_jwk_thp_buf(NULL, j, F[2], NULL, 0));
    } else {
        size_t len = (size_t) argll(F[3]);
        uint8_t *b = malloc(len + 64);
        memset(b, 0xA5, len + 64);
        size_t r = jose_jwk_thp_buf(NULL, j, F[2], b, len);
        bool ok = true;
        for (int i = 0; i < 64; i++) if (b[len + i] != 0xA5) ok = false;
        putsz(r);
        putchar(' ');
        puthex(b, len);
        fputs(ok ? " canary-ok" : " CANARY-BROKEN", stdout);
        free(b);
    }
    json_decref(j);
}

static void
c_eql(void)
{
    json_t *a = jarg(F[1]);
    json_t *b = jarg(F[2]);
    fputs(jose_jwk_eql(NULL, a, b) ? "T" : "F", stdout);
    json_decref(a);
    json_decref(b);
}

static const cmd_t cmds_jwk[] = {
    { "pub", c_pub },
    { "thp", c_thp },
    { "thpbuf", c_thpbuf },
    { "eql", c_eql },
    { NULL, NULL }
};
REGISTER(cmds_jwk)
