/* add_entity / encode_protected (internal functions, reached by linking the repo's objects)
 *   entity <sig|rcp> <root> <obj1> [<obj2> ...]   -> root after each step (TAB separated), ERR stops
 *   encprot <obj>                                   -> obj after, or ERR */
#include "h.h"
#include "openssl/misc.h"

bool encode_protected(json_t *obj);

static void
c_entity(void)
{
    bool sig = strcmp(F[1], "sig") == 0;
    json_t *root = jarg(F[2]);
    for (int i = 3; i < NF; i++) {
        json_t *obj = jarg(F[i]);
        bool ok = sig
            ? add_entity(root, obj, "signatures", "signature", "protected", "header", NULL)
            : add_entity(root, obj, "recipients", "header", "encrypted_key", NULL);
        json_decref(obj);
        if (i > 3)
            putchar('\t');
        if (!ok) {
            fputs("ERR", stdout);
            break;
        }
        putjson(root);
    }
    json_decref(root);
}

static void
c_encprot(void)
{
    json_t *obj = jarg(F[1]);
    if (encode_protected(obj))
        putjson(obj);
    else
        fputs("ERR", stdout);
    json_decref(obj);
}

static const cmd_t cmds_entity[] = {
    { "entity", c_entity },
    { "encprot", c_encprot },
    { NULL, NULL }
};
REGISTER(cmds_entity)
