#include "h.h"
#include <ctype.h>

char **F;
int NF;

static int
hv(int c)
{
    if (c >= '0' && c <= '9') return c - '0';
    if (c >= 'a' && c <= 'f') return c - 'a' + 10;
    if (c >= 'A' && c <= 'F') return c - 'A' + 10;
    return -1;
}

buf_t
unhex(const char *s)
{
    buf_t b;
    size_t l = strlen(s);
    if (l == 1 && s[0] == '-')
        l = 0;
    b.n = l / 2;
    b.p = malloc(b.n ? b.n : 1);
    if (b.n == 0) {
        /* an exact-size zero-byte object, so that any read of it is out of bounds */
        free(b.p);
        b.p = malloc(0);
        if (!b.p) b.p = malloc(1);
    }
    for (size_t i = 0; i < b.n; i++)
        b.p[i] = (uint8_t) (hv(s[2 * i]) << 4 | hv(s[2 * i + 1]));
    return b;
}

void
puthex(const uint8_t *p, size_t n)
{
    static const char *d = "0123456789abcdef";
    if (n == 0) {
        putchar('-');
        return;
    }
    for (size_t i = 0; i < n; i++) {
        putchar(d[p[i] >> 4]);
        putchar(d[p[i] & 15]);
    }
}

void
putsz(size_t v)
{
    if (v == SIZE_MAX)
        fputs("MAX", stdout);
    else
        printf("%zu", v);
}

json_t *
jarg(const char *s)
{
    if (strcmp(s, "-") == 0)
        return NULL;
    json_t *j = json_loadb(s, strlen(s), JSON_DECODE_ANY | JSON_ALLOW_NUL, NULL);
    if (!j) {
        fprintf(stderr, "harness: bad JSON argument: %s\n", s);
        exit(3);
    }
    return j;
}

void
putjson(const json_t *j)
{
    if (!j) {
        fputs("ERR", stdout);
        return;
    }
    size_t n = json_dumpb(j, NULL, 0, JSON_COMPACT | JSON_SORT_KEYS | JSON_ENCODE_ANY);
    char *t = malloc(n + 1);
    json_dumpb(j, t, n, JSON_COMPACT | JSON_SORT_KEYS | JSON_ENCODE_ANY);
    fwrite(t, 1, n, stdout);
    free(t);
}

long long
argll(const char *s)
{
    return strtoll(s, NULL, 10);
}

static const cmd_t *tables[64];
static int ntables;

void
h_register(const cmd_t *table)
{
    if (ntables < 63)
        tables[ntables++] = table;
}

static cmd_fn
find(const char *name)
{
    for (int t = 0; tables[t]; t++)
        for (const cmd_t *c = tables[t]; c->name; c++)
            if (strcmp(c->name, name) == 0)
                return c->fn;
    return NULL;
}

int
main(int argc, char **argv)
{
    char *line = NULL;
    size_t cap = 0;
    ssize_t n;
    static char *fields[64];

    setvbuf(stdout, NULL, _IOFBF, 1 << 16);

    if (argc > 1) {
        /* single command from argv (used by the table dumper) */
        F = argv + 1;
        NF = argc - 1;
        cmd_fn f = find(F[0]);
        if (!f) {
            fprintf(stderr, "harness: unknown command %s\n", F[0]);
            return 2;
        }
        f();
        fflush(stdout);
        return 0;
    }

    while ((n = getline(&line, &cap, stdin)) >= 0) {
        while (n > 0 && (line[n - 1] == '\n' || line[n - 1] == '\r'))
            line[--n] = 0;
        if (n == 0)
            continue;
        NF = 0;
        char *p = line;
        while (NF < 63) {
            fields[NF++] = p;
            char *t = strchr(p, '\t');
            if (!t)
                break;
            *t = 0;
            p = t + 1;
        }
        F = fields;
        cmd_fn f = find(F[0]);
        if (!f) {
            fprintf(stderr, "harness: unknown command %s\n", F[0]);
            return 2;
        }
        f();
        putchar('\n');
        fflush(stdout);
    }
    free(line);
    return 0;
}
