#include "h.h"

const cmd_t cmds_io[] = {
    { NULL, NULL }
};
