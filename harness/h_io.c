/* IO chains built from the public constructors, driven chunk by chunk.
 *   chain <shape> <chunk sizes|-> <hex data>
 * shape := malloc | buffer:<cap> | file | faulty:<fail feed index|-1>:<fail done 0|1>
 *        | b64enc(<shape>) | b64dec(<shape>) | plexany(<shape>,..) | plexall(<shape>,..)
 *        | hash:<name>(<shape>) | def(<shape>) | inf(<shape>)
 * result: <buffers accepted> <done verdict T|F|-> <sink contents in left-to-right order...>  */
#include "h.h"
#include "hooks.h"

#define MAXSINK 32

typedef enum { K_MALLOC, K_BUFFER, K_FILE, K_FAULTY } skind_t;

typedef struct {
    jose_io_t io;
    int fail_feed;
    bool fail_done;
    int calls;
    uint8_t *d;
    size_t n;
} faulty_t;

typedef struct {
    skind_t kind;
    void *mbuf;            /* malloc sink */
    size_t mlen;
    uint8_t *bbuf;         /* buffer sink: capacity + canary */
    size_t bcap, blen;
    FILE *f;               /* file sink */
    char *fmem;
    size_t fsz;
    faulty_t *fy;
    jose_io_t *own;        /* the harness keeps its own reference to every sink */
} sinkrec_t;

static sinkrec_t sinks[MAXSINK];
static int nsinks;

static bool
fy_feed(jose_io_t *io, const void *in, size_t len)
{
    faulty_t *f = (faulty_t *) io;
    int c = f->calls++;
    if (f->fail_feed == c)
        return false;
    f->d = realloc(f->d, f->n + len + 1);
    memcpy(f->d + f->n, in, len);
    f->n += len;
    return true;
}

static bool
fy_done(jose_io_t *io)
{
    faulty_t *f = (faulty_t *) io;
    return !f->fail_done;
}

static void
fy_free(jose_io_t *io)
{
    /* owned by the harness record; released after printing */
}

static const char *P;   /* parse cursor */

static bool
eat(const char *s)
{
    size_t l = strlen(s);
    if (strncmp(P, s, l) == 0) {
        P += l;
        return true;
    }
    return false;
}

static long
num(void)
{
    char *e = NULL;
    long v = strtol(P, &e, 10);
    P = e;
    return v;
}

static jose_io_t *build(void);

static jose_io_t *
build_plex(bool all)
{
    jose_io_t *nx[17] = { NULL };
    int n = 0;
    jose_io_t *r = NULL;
    if (*P == ')') {
        P++;
        return jose_io_multiplex(NULL, nx, all);
    }
    for (;;) {
        nx[n] = build();
        if (!nx[n]) goto out;
        n++;
        if (*P == ',') { P++; continue; }
        if (*P == ')') { P++; break; }
        goto out;
    }
    r = jose_io_multiplex(NULL, nx, all);
out:
    for (int i = 0; i < n; i++)
        jose_io_decref(nx[i]);
    return r;
}

static jose_io_t *
wrap1(jose_io_t *(*mk)(jose_io_t *))
{
    jose_io_t *n = build();
    if (!n || *P != ')') { jose_io_decref(n); return NULL; }
    P++;
    jose_io_t *r = mk(n);
    jose_io_decref(n);
    return r;
}

static const jose_hook_alg_t *cur_alg;

static jose_io_t *mk_hash(jose_io_t *n) { return cur_alg->hash.hsh(cur_alg, NULL, n); }
static jose_io_t *mk_def(jose_io_t *n) { return cur_alg->comp.def(cur_alg, NULL, n); }
static jose_io_t *mk_inf(jose_io_t *n) { return cur_alg->comp.inf(cur_alg, NULL, n); }

static jose_io_t *
build(void)
{
    sinkrec_t *s = &sinks[nsinks];
    if (eat("malloc")) {
        memset(s, 0, sizeof(*s));
        s->kind = K_MALLOC;
        nsinks++;
        s->own = jose_io_malloc(NULL, &s->mbuf, &s->mlen);
        return jose_io_incref(s->own);
    }
    if (eat("buffer:")) {
        memset(s, 0, sizeof(*s));
        s->kind = K_BUFFER;
        s->bcap = (size_t) num();
        s->bbuf = malloc(s->bcap + 64);
        memset(s->bbuf, 0xA5, s->bcap + 64);
        s->blen = s->bcap;
        nsinks++;
        s->own = jose_io_buffer(NULL, s->bbuf, &s->blen);
        return jose_io_incref(s->own);
    }
    if (eat("file")) {
        memset(s, 0, sizeof(*s));
        s->kind = K_FILE;
        s->f = open_memstream(&s->fmem, &s->fsz);
        nsinks++;
        s->own = jose_io_file(NULL, s->f);
        return jose_io_incref(s->own);
    }
    if (eat("faulty:")) {
        memset(s, 0, sizeof(*s));
        s->kind = K_FAULTY;
        faulty_t *f = calloc(1, sizeof(*f));
        f->fail_feed = (int) num();
        P++; /* ':' */
        f->fail_done = num() != 0;
        f->io.feed = fy_feed;
        f->io.done = fy_done;
        f->io.free = fy_free;
        f->io.refs = 1;
        s->fy = f;
        nsinks++;
        return &f->io;
    }
    if (eat("b64enc(")) return wrap1(jose_b64_enc_io);
    if (eat("b64dec(")) return wrap1(jose_b64_dec_io);
    if (eat("plexany(")) return build_plex(false);
    if (eat("plexall(")) return build_plex(true);
    if (eat("hash:")) {
        char name[32];
        size_t i = 0;
        while (*P && *P != '(' && i < sizeof(name) - 1) name[i++] = *P++;
        name[i] = 0;
        if (*P == '(') P++;
        cur_alg = jose_hook_alg_find(JOSE_HOOK_ALG_KIND_HASH, name);
        if (!cur_alg) return NULL;
        return wrap1(mk_hash);
    }
    if (eat("def(")) {
        cur_alg = jose_hook_alg_find(JOSE_HOOK_ALG_KIND_COMP, "DEF");
        return wrap1(mk_def);
    }
    if (eat("inf(")) {
        cur_alg = jose_hook_alg_find(JOSE_HOOK_ALG_KIND_COMP, "DEF");
        return wrap1(mk_inf);
    }
    return NULL;
}

/* chainx: like chain, but EVERY chunk is fed whatever the earlier feeds answered and done() is always called;
 * prints the verdict of each feed (T/F, "." when there is none), then the verdict of done, then the sinks */
static bool keepgoing;

static void
c_chain(void)
{
    char verdicts[256] = "";
    size_t nv = 0;
    nsinks = 0;
    P = F[1];
    jose_io_t *io = build();
    buf_t data = unhex(F[3]);
    if (!io) {
        fputs("BUILD-FAILED", stdout);
        goto out;
    }
    size_t off = 0;
    int accepted = 0;
    bool ok = true;
    if (strcmp(F[2], "-") != 0) {
        const char *c = F[2];
        while (*c) {
            char *e = NULL;
            size_t l = (size_t) strtoul(c, &e, 10);
            c = (*e == ',') ? e + 1 : e;
            if (off + l > data.n) l = data.n - off;
            bool r = io->feed(io, data.p + off, l);
            if (nv < sizeof(verdicts) - 1) verdicts[nv++] = r ? 'T' : 'F';
            if (!r) { ok = false; if (!keepgoing) break; }
            off += l;
            if (r) accepted++;
        }
    }
    if (keepgoing) {
        printf("%s ", nv ? verdicts : ".");
        fputs(io->done(io) ? "T" : "F", stdout);
    } else {
        printf("%d ", accepted);
        if (ok)
            fputs(io->done(io) ? "T" : "F", stdout);
        else
            fputs("-", stdout);
    }
    for (int i = 0; i < nsinks; i++) {
        sinkrec_t *s = &sinks[i];
        putchar(' ');
        switch (s->kind) {
        case K_MALLOC: puthex(s->mbuf, s->mlen); break;
        case K_BUFFER: {
            bool cok = true;
            for (int j = 0; j < 64; j++) if (s->bbuf[s->bcap + j] != 0xA5) cok = false;
            if (!cok || s->blen > s->bcap) fputs("OVERFLOW:", stdout);
            puthex(s->bbuf, s->blen <= s->bcap ? s->blen : s->bcap);
            break;
        }
        case K_FILE: fflush(s->f); puthex((uint8_t *) s->fmem, s->fsz); break;
        case K_FAULTY: puthex(s->fy->d, s->fy->n); break;
        }
    }
out:
    {
        void *stolen[MAXSINK] = { NULL };
        for (int i = 0; i < nsinks; i++)
            if (sinks[i].kind == K_MALLOC)
                stolen[i] = jose_io_malloc_steal(&sinks[i].mbuf);
        jose_io_decref(io);
        for (int i = 0; i < nsinks; i++) {
            jose_io_decref(sinks[i].own);
            if (sinks[i].kind == K_MALLOC)
                sinks[i].mbuf = stolen[i];
        }
    }
    for (int i = 0; i < nsinks; i++) {
        sinkrec_t *s = &sinks[i];
        switch (s->kind) {
        case K_MALLOC: free(s->mbuf); break;
        case K_BUFFER: free(s->bbuf); break;
        case K_FILE: fclose(s->f); free(s->fmem); break;
        case K_FAULTY: free(s->fy->d); free(s->fy); break;
        }
    }
    free(data.p);
}

static void
c_chainx(void)
{
    keepgoing = true;
    c_chain();
    keepgoing = false;
}

static const cmd_t cmds_io[] = {
    { "chain", c_chain },
    { "chainx", c_chainx },
    { NULL, NULL }
};
REGISTER(cmds_io)
