/* Force-included (clang -include) into every /repo/lib source of the `hook` build variant
 * (tools/vlib.py LIB_ONLY["hook"]); never included by the harness itself.
 *
 * The library's own malloc / calloc / realloc calls are redirected AT COMPILE TIME to
 * vh_malloc / vh_calloc / vh_realloc (defined in harness/h_alloc.c), which count every
 * request and can make the k-th one return NULL.  They return blocks of the real
 * allocator, so `free` is deliberately NOT redirected: include/jose/io.h has a struct
 * member named `free` (`io->free(io)`), which a function-like macro would break, and a
 * block handed out by vh_malloc is released correctly by the real free().  Whether a
 * counted block was released is decided afterwards in h_alloc.c by asking the sanitizer
 * run time (__sanitizer_get_ownership) and by LeakSanitizer.
 *
 * <stdlib.h> and <string.h> are included FIRST so that the system declarations are
 * parsed before the macros exist (function-like macros: `malloc_feed`, `io_malloc_t`,
 * CRYPTO_malloc, json_malloc_t ... are different tokens and stay untouched). */
#ifndef VERIF_ALLOCHOOK_H
#define VERIF_ALLOCHOOK_H

#include <stdlib.h>
#include <string.h>

/* weak: tools/vlib.py also links the `jose` command-line binary from the same objects
 * WITHOUT the harness; there the symbols resolve to NULL and the real allocator is used */
void *vh_malloc(size_t size) __attribute__((weak));
void *vh_calloc(size_t nmemb, size_t size) __attribute__((weak));
void *vh_realloc(void *ptr, size_t size) __attribute__((weak));
void  vh_free(void *ptr) __attribute__((weak));   /* provided for completeness; lib code keeps calling free() */

/* `(malloc)(n)`: a parenthesised name is not expanded as a function-like macro */
#define malloc(n)      (vh_malloc  ? vh_malloc(n)          : (malloc)(n))
#define calloc(n, s)   (vh_calloc  ? vh_calloc((n), (s))   : (calloc)((n), (s)))
#define realloc(p, n)  (vh_realloc ? vh_realloc((p), (n))  : (realloc)((p), (n)))

#endif
