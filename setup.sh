#!/bin/sh
# Build the framework from files on disk only (offline): harness from /repo's
# working tree, regenerated Coq tables, full .vo build of the whole
# development, extraction, OCaml driver.
set -e
cd "$(dirname "$0")"
python3 - <<'PY'
import sys, os
sys.path.insert(0, "tools")
import vlib
with vlib.Lock():
    b = vlib.build("san")
    vlib.gen_tables(b)
    ok, lg = vlib.coq_make([])
    print(lg[-3000:])
    if not ok:
        sys.exit("coq build failed")
    g = vlib.gate()
    if g:
        sys.exit("gate: %s" % g)
    d, l = vlib.build_driver()
    if d is None:
        sys.exit("driver build failed: " + l)
print("setup ok")
PY
