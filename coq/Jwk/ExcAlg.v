(* C13: the two exchange algorithms of lib/openssl/ecdh.c and lib/openssl/ecmr.c as
   [exch_alg] records (Jwk/Exc.v), parameterised by an abstract implementation of the
   curve groups ([ec_impl]); the key import / result export of lib/openssl/jwk.c
   (jose_openssl_jwk_to_EC_KEY, mkpub, jose_openssl_jwk_from_EC_POINT) and of
   lib/openssl/misc.c (bn_decode_json, bn_encode_json).

   Instances of [ec_impl]:
     - [ec_shape] (below): a symbolic one that records WHICH operation was performed;
       it needs no arithmetic and is what the OCaml driver extracts (decisions only);
     - [ec_concrete ops] in Jwk/ExcEc.v: the reference arithmetic of Crypto/Ec.v over any
       [intops] instance (BigZ under vm_compute for the numeric correspondence).
   No proofs here (Jwk/ExcProofs.v). *)
From JoseV Require Export Jwk.Exc.
From JoseV Require Import Codec.B64Spec Gen.Tables Jose.Stubs Jose.Suggest.
Local Open Scope Z_scope.

(* ------------------------------------------------------------------ *)
(* An abelian group written additively with an action of the integers: the laws the
   theorems of C13 assume of the curve arithmetic (a statement, not a proof). *)
Record scalar_group {G : Type} (add : G -> G -> G) (neg : G -> G) (zero : G)
       (smul : Z -> G -> G) : Prop := {
  sg_assoc : forall a b c, add a (add b c) = add (add a b) c;
  sg_comm : forall a b, add a b = add b a;
  sg_zero_l : forall a, add zero a = a;
  sg_neg_r : forall a, add a (neg a) = zero;
  sg_smul_mul : forall m n P, smul (m * n) P = smul m (smul n P);
  sg_smul_add : forall m n P, smul (m + n) P = add (smul m P) (smul n P);
  sg_smul_one : forall P, smul 1 P = P;
  sg_smul_add_r : forall m P Q, smul m (add P Q) = add (smul m P) (smul m Q)
}.

(* ------------------------------------------------------------------ *)
(* The point computed by each algorithm, over any operations.
   [dl]/[dr]: the private value of the local (first argument of jose_jwk_exc, "prv",
   EC_KEY lcl) and remote ("pub", EC_KEY rem) key when the JWK carries one;
   [Ql]/[Qr]: their public points. *)
Section Ops.
  Context {G : Type}.
  Variables (add : G -> G -> G) (neg : G -> G) (zero : G) (smul : Z -> G -> G).

  (* ecdh.c alg_exch_exc: EC_POINT_mul(grp, p, NULL, pub(rem), prv(lcl)).  With a NULL
     scalar OpenSSL sets p to the point at infinity and reports success. *)
  Definition ecdh_op (dl : option Z) (Qr : G) : G :=
    match dl with
    | Some d => smul d Qr
    | None => zero
    end.

  (* ecmr.c alg_exch_exc:
       if (prv(lcl))  p = prv(lcl) * pub(rem)
       else { p = pub(rem); if (!prv(rem)) p = -p; p = pub(lcl) + p; } *)
  Definition ecmr_op (dl : option Z) (Ql : G) (dr : option Z) (Qr : G) : G :=
    match dl with
    | Some d => smul d Qr
    | None =>
        let p := Qr in
        let p := match dr with Some _ => p | None => neg p end in
        add Ql p
    end.
End Ops.

(* ------------------------------------------------------------------ *)
(* Curves: str2enum(crv, "P-256", "P-384", "P-521", "secp256k1", NULL) *)
Inductive crv := P256 | P384 | P521 | K256.

Definition crv_name (c : crv) : bytes :=
  match c with P256 => c_P256 | P384 => c_P384 | P521 => c_P521 | K256 => c_K256 end.

Definition crv_of_name (s : bytes) : option crv :=
  if bytes_eqb s c_P256 then Some P256
  else if bytes_eqb s c_P384 then Some P384
  else if bytes_eqb s c_P521 then Some P521
  else if bytes_eqb s c_K256 then Some K256
  else None.

(* EC_GROUP_cmp on two named groups *)
Definition crv_eqb (a b : crv) : bool :=
  match a, b with
  | P256, P256 | P384, P384 | P521, P521 | K256, K256 => true
  | _, _ => false
  end.

(* (EC_GROUP_get_degree(grp) + 7) / 8 *)
Definition crv_len (c : crv) : nat :=
  match c with P256 => 32 | P384 => 48 | P521 => 66 | K256 => 32 end%nat.

(* What the model needs from OpenSSL's EC_GROUP / EC_POINT / EC_KEY, per named curve. *)
Record ec_impl (G : Type) := {
  (* EC_POINT_set_affine_coordinates: the point with these coordinates (reduced into the
     field).  Its on-curve verdict is ignored by mkpub ("< 0" never holds), so this is
     total; a bad point is caught by [ei_check]. *)
  ei_mk : crv -> Z -> Z -> G;
  (* EC_KEY_check_key on (public point, optional private value) *)
  ei_check : crv -> G -> option Z -> bool;
  ei_add : crv -> G -> G -> G;            (* EC_POINT_add *)
  ei_neg : crv -> G -> G;                 (* EC_POINT_invert *)
  ei_zero : crv -> G;                     (* the point at infinity *)
  ei_smul : crv -> Z -> G -> G;           (* EC_POINT_mul(grp, r, NULL, P, k) *)
  (* EC_POINT_get_affine_coordinates: None = failure (point at infinity) *)
  ei_affine : crv -> G -> option (Z * Z)
}.
Arguments ei_mk {G} _ _ _ _.
Arguments ei_check {G} _ _ _ _.
Arguments ei_add {G} _ _ _ _.
Arguments ei_neg {G} _ _ _.
Arguments ei_zero {G} _ _.
Arguments ei_smul {G} _ _ _ _.
Arguments ei_affine {G} _ _ _.

(* ------------------------------------------------------------------ *)
(* Octets <-> integers (RFC 8017 4.1/4.2), as BN_bin2bn / BN_bn2bin use them.  (Same
   functions as Crypto/BigNum.v os2ip / i2osp; repeated here over Z so that this file and
   the extracted driver do not depend on Bignums; Props/Properties_C13.v compares known answers.) *)
Definition os2ip (b : bytes) : Z :=
  fold_left (fun acc x => acc * 256 + Z.of_N x) b 0.

Fixpoint le_digits (x : Z) (len : nat) : bytes * Z :=
  match len with
  | O => ([], x)
  | Datatypes.S k => let (r, rest) := le_digits (x / 256) k in (Z.to_N (x mod 256) :: r, rest)
  end.

Definition i2osp (x : Z) (len : nat) : option bytes :=
  if x <? 0 then None
  else let (d, rest) := le_digits x len in
       if rest =? 0 then Some (rev d) else None.

(* misc.c bn_decode_json: jose_b64_dec of a JSON string, then BN_bin2bn (any length,
   leading zeros allowed, never negative) *)
Definition bn_decode_json (j : json) : option Z :=
  match j with
  | JStr s => match B64Spec.dec s with Some b => Some (os2ip b) | None => None end
  | _ => None
  end.

(* misc.c bn_encode_json(bn, len) with len > 0: refused when the number needs more than
   len octets -- and when it is ZERO: bn_encode returns "BN_bn2bin(...) > 0", and
   BN_bn2bin writes (returns) 0 octets for the number 0. *)
Definition bn_encode_json (x : Z) (len : nat) : option json :=
  if x =? 0 then None
  else match i2osp x len with
       | Some b => Some (JStr (B64Spec.enc b))
       | None => None
       end.

(* member names *)
Definition s_x : bytes := [120]%N.
Definition s_y : bytes := [121]%N.
Definition s_d : bytes := [100]%N.

(* ------------------------------------------------------------------ *)
Section Model.
  Context {G : Type} (I : ec_impl G).

  Record ec_key := { k_crv : crv; k_pub : G; k_prv : option Z }.

  (* jose_openssl_jwk_to_EC_KEY:
       json_unpack "{s:s,s:s,s:o,s:o,s?o}" kty crv x y d; kty = "EC"; crv one of four;
       d (when present, whatever its JSON type) must decode; x and y must decode;
       the key must pass EC_KEY_check_key. *)
  Definition to_ec_key (jwk : json) : option ec_key :=
    match jwk with
    | JObj m =>
        match alookup x_kty m, alookup s_crv m, alookup s_x m, alookup s_y m with
        | Some (JStr kty), Some (JStr cn), Some jx, Some jy =>
            if negb (bytes_eqb (cstr kty) t_EC) then None
            else
              match crv_of_name (cstr cn) with
              | None => None
              | Some c =>
                  let D := match alookup s_d m with
                           | None => Some None
                           | Some jd => match bn_decode_json jd with
                                        | Some d => Some (Some d)
                                        | None => None
                                        end
                           end in
                  match D with
                  | None => None
                  | Some d =>
                      match bn_decode_json jx, bn_decode_json jy with
                      | Some X, Some Y =>
                          let Q := ei_mk I c X Y in
                          if ei_check I c Q d
                          then Some {| k_crv := c; k_pub := Q; k_prv := d |}
                          else None
                      | _, _ => None
                      end
                  end
              end
        | _, _, _, _ => None
        end
    | _ => None
    end.

  (* jose_openssl_jwk_from_EC_POINT(cfg, grp, p, NULL): the return value of
     EC_POINT_get_affine_coordinates is compared with "< 0", which never holds, so on
     failure (point at infinity) x and y keep the value of BN_new(), zero; zero is then
     refused by bn_encode_json, json_pack fails on the NULL member and the function
     returns NULL.  Members in json_pack order. *)
  Definition from_point (c : crv) (P : G) : option json :=
    let (x, y) := match ei_affine I c P with Some xy => xy | None => (0, 0) end in
    match bn_encode_json x (crv_len c), bn_encode_json y (crv_len c) with
    | Some jx, Some jy =>
        Some (JObj [(x_kty, JStr t_EC); (s_crv, JStr (crv_name c)); (s_x, jx); (s_y, jy)])
    | _, _ => None
    end.

  (* the common part of both alg_exch_exc: import both keys, same-group check, compute,
     export on the remote key's group *)
  Definition exch_with (op : crv -> ec_key -> ec_key -> G) (prv pub : json) : option json :=
    match to_ec_key prv with
    | None => None
    | Some l =>
        match to_ec_key pub with
        | None => None
        | Some r =>
            if negb (crv_eqb (k_crv l) (k_crv r)) then None       (* EC_GROUP_cmp != 0 *)
            else from_point (k_crv r) (op (k_crv l) l r)
        end
    end.

  Definition ecdh_exc : json -> json -> option json :=
    exch_with (fun c l r => ecdh_op (ei_zero I c) (ei_smul I c) (k_prv l) (k_pub r)).

  Definition ecmr_exc : json -> json -> option json :=
    exch_with (fun c l r => ecmr_op (ei_add I c) (ei_neg I c) (ei_smul I c)
                                    (k_prv l) (k_pub l) (k_prv r) (k_pub r)).

  (* the registered exchange algorithms, in registry order, names and required operation
     from the generated table; hooks by name (ecmr.c's sug always answers NULL) *)
  Definition exch_of_entry (e : alg_entry) : exch_alg :=
    {| xa_name := a_name e;
       xa_prm := oget (a_prm1 e);
       xa_sug := if bytes_eqb (a_name e) n_ECDH then ecdh_sug else fun _ _ => None;
       xa_exc := if bytes_eqb (a_name e) n_ECDH then ecdh_exc
                 else if bytes_eqb (a_name e) n_ECMR then ecmr_exc
                 else fun _ _ => None |}.

  Definition exch_algs : list exch_alg :=
    map exch_of_entry (filter (is_kind KExch) alg_registry).

  (* lib/jwk.c jose_jwk_exc with the real hooks *)
  Definition jose_jwk_exc (prv pub : json) : option json := jwk_exc exch_algs prv pub.
End Model.
Arguments k_crv {G} _.
Arguments k_pub {G} _.
Arguments k_prv {G} _.

(* ------------------------------------------------------------------ *)
(* The symbolic instance: points are expression trees; every key passes the check (the
   checks that need arithmetic are the business of the concrete instance); "affine
   coordinates" of a result encode which operation produced it. *)
Inductive shape :=
| ShPt (x y : Z)
| ShZero
| ShAdd (a b : shape)
| ShNeg (a : shape)
| ShMul (d : Z) (a : shape).

Definition shape_code (s : shape) : option (Z * Z) :=
  match s with
  | ShZero => None
  | ShMul _ (ShPt _ _) => Some (1, 1)                       (* d * Q *)
  | ShAdd (ShPt _ _) (ShPt _ _) => Some (2, 1)              (* Q + Q' *)
  | ShAdd (ShPt _ _) (ShNeg (ShPt _ _)) => Some (3, 1)      (* Q - Q' *)
  | _ => Some (4, 1)
  end.

Definition ec_shape : ec_impl shape :=
  {| ei_mk := fun _ x y => ShPt x y;
     ei_check := fun _ _ _ => true;
     ei_add := fun _ => ShAdd;
     ei_neg := fun _ => ShNeg;
     ei_zero := fun _ => ShZero;
     ei_smul := fun _ => ShMul;
     ei_affine := fun _ => shape_code |}.

(* the decision of jose_jwk_exc without arithmetic: None = refused, else the curve name of
   the result and the operation (1 = multiplication by the local private value,
   2 = addition, 3 = subtraction) *)
Definition exc_decision (prv pub : json) : option (bytes * Z) :=
  match jose_jwk_exc ec_shape prv pub with
  | Some (JObj m) =>
      match alookup s_crv m, alookup s_x m with
      | Some (JStr c), Some jx =>
          match bn_decode_json jx with Some z => Some (c, z) | None => None end
      | _, _ => None
      end
  | _ => None
  end.
