(* lib/jwk.c jwk_clean / jose_jwk_pub over the generated type and operation tables. *)
From JoseV Require Export Base.Json Jwk.Prm.
From JoseV Require Import Gen.Tables.
Local Open Scope N_scope.

Definition s_kty : bytes := [107; 116; 121].
Definition s_keys : bytes := [107; 101; 121; 115].

(* first registered type whose name equals kty ignoring ASCII case *)
Definition find_type_ci (kty : bytes) : option jwk_type :=
  find (fun t => strcasecmp_eq kty (t_kty t)) jwk_types.

Definition kty_of (jwk : json) : option bytes :=
  match jwk with
  | JObj m => match alookup s_kty m with Some (JStr s) => Some (cstr s) | _ => None end
  | _ => None
  end.

Fixpoint del_all (ks : list bytes) (m : list (bytes * json)) : list (bytes * json) :=
  match ks with
  | [] => m
  | k :: r => del_all r (match alookup k m with Some _ => adel k m | None => m end)
  end.

(* operation names removed from key_ops: every private operation, and for symmetric keys every operation *)
Definition removed_ops (sym : bool) : list bytes :=
  flat_map (fun o => match o_prv o with Some p => [p] | None => [] end ++
                     (if sym then match o_pub o with Some p => [p] | None => [] end else [])) jwk_opers.

Definition keep_op (rm : list bytes) (v : json) : bool :=
  match v with
  | JStr s => negb (existsb (bytes_eqb (cstr s)) rm)
  | _ => true
  end.

Definition jwk_clean (jwk : json) : option json :=
  match jwk with
  | JObj m =>
      match kty_of jwk with
      | None => None
      | Some kty =>
          match find_type_ci kty with
          | None => None
          | Some t =>
              let sym := match t_pub t with [] => true | _ => false end in
              let m1 := del_all (t_prv t) m in
              let m2 := match alookup s_key_ops m1 with
                        | Some (JArr l) => aset s_key_ops (JArr (filter (keep_op (removed_ops sym)) l)) m1
                        | _ => m1
                        end in
              Some (JObj m2)
          end
      end
  | _ => None
  end.

Fixpoint clean_all (l : list json) : option (list json) :=
  match l with
  | [] => Some []
  | k :: r => match jwk_clean k with
              | Some k' => match clean_all r with Some r' => Some (k' :: r') | None => None end
              | None => None
              end
  end.

Definition jwk_pub (jwk : json) : option json :=
  match jwk with
  | JArr l => match clean_all l with Some l' => Some (JArr l') | None => None end
  | JObj m =>
      match alookup s_keys m with
      | Some (JArr l) => match clean_all l with
                         | Some l' => Some (JObj (aset s_keys (JArr l') m))
                         | None => None
                         end
      | _ => jwk_clean jwk
      end
  | _ => None
  end.
