(* C12: thumbprint input, key equality. *)
From JoseV Require Import Jwk.Pub Jwk.Thp Base.JsonEq Gen.Tables.
Local Open Scope N_scope.

(* RFC 7638 section 3.2 required members, written from the RFC *)
Definition rfc7638_required (kty : bytes) : list bytes :=
  if bytes_eqb kty [111; 99; 116] then [[107]]                                  (* oct: k *)
  else if bytes_eqb kty [82; 83; 65] then [[101]; [110]]                        (* RSA: e n *)
  else if bytes_eqb kty [69; 67] then [[99; 114; 118]; [120]; [121]]            (* EC: crv x y *)
  else [].

Fixpoint lbeq (a b : list bytes) : bool :=
  match a, b with
  | [], [] => true
  | x :: a', y :: b' => bytes_eqb x y && lbeq a' b'
  | _, _ => false
  end.

Lemma required_is_rfc7638 :
  forallb (fun t => lbeq (t_req t) (rfc7638_required (t_kty t))
                    && negb (existsb (bytes_eqb s_kty) (t_req t))) jwk_types = true.
Proof. vm_compute. reflexivity. Qed.

(* the accumulated object: kty first, then each required member, values taken from the key *)
Fixpoint req_obj (jwk : json) (req : list bytes) (acc : list (bytes * json)) : option json :=
  match req with
  | [] => Some (JObj acc)
  | r :: rest => match lookup r jwk with Some v => req_obj jwk rest (aset r v acc) | None => None end
  end.

Lemma thp_object_unfold jwk :
  thp_object jwk =
  match kty_of jwk with
  | None => None
  | Some kty => match find_type_ci kty with
                | None => None
                | Some t => match lookup s_kty jwk with
                            | None => None
                            | Some ktyv => req_obj jwk (t_req t) [(s_kty, ktyv)]
                            end
                end
  end.
Proof.
  unfold thp_object. destruct (kty_of jwk); [|reflexivity]. destruct (find_type_ci b) as [t|]; [|reflexivity].
  destruct (lookup s_kty jwk); [|reflexivity]. generalize [(s_kty, j)]. induction (t_req t) as [|r rest IH]; intro acc; cbn [req_obj]; [reflexivity|].
  destruct (lookup r jwk); [apply IH|reflexivity].
Qed.

Lemma req_obj_some jwk req : forall acc o,
  req_obj jwk req acc = Some o ->
  exists m, o = JObj m /\
    (forall k, In k req -> alookup k m = lookup k jwk /\ lookup k jwk <> None) /\
    (forall k, ~ In k req -> alookup k m = alookup k acc).
Proof.
  induction req as [|r rest IH]; intros acc o H; cbn [req_obj] in H.
  - inversion H; subst. exists acc. split; [reflexivity|]. split; [intros k []|auto].
  - destruct (lookup r jwk) as [v|] eqn:E; [|discriminate].
    destruct (IH _ _ H) as (m & -> & Hin & Hout). exists m. split; [reflexivity|]. split.
    + intros k [Hk|Hk].
      * subst k. destruct (in_dec bytes_eq_dec r rest) as [i|n]; [apply Hin; exact i|].
        rewrite Hout by exact n. rewrite alookup_aset_same. rewrite E. split; [reflexivity|discriminate].
      * apply Hin. exact Hk.
    + intros k Hk. rewrite Hout by (intro F; apply Hk; right; exact F).
      apply alookup_aset_other. intro; subst. apply Hk. left. reflexivity.
Qed.

Lemma req_obj_none jwk req : forall acc, req_obj jwk req acc = None <-> exists r, In r req /\ lookup r jwk = None.
Proof.
  induction req as [|r rest IH]; intro acc; cbn [req_obj]; split; intro H.
  - discriminate. - destruct H as (r & [] & _).
  - destruct (lookup r jwk) eqn:E; [|exists r; split; [left; reflexivity|exact E]].
    apply IH in H. destruct H as (r' & Hr & N). exists r'. split; [right; exact Hr|exact N].
  - destruct H as (r' & [Hr|Hr] & N); [subst; rewrite N; reflexivity|].
    destruct (lookup r jwk); [|reflexivity]. apply IH. eauto.
Qed.

(* the thumbprint input holds exactly kty and the required members, with the key's values *)
Theorem thp_object_spec jwk o :
  thp_object jwk = Some o ->
  exists kty t m, kty_of jwk = Some kty /\ find_type_ci kty = Some t /\ o = JObj m /\
    alookup s_kty m = lookup s_kty jwk /\
    (forall r, In r (t_req t) -> alookup r m = lookup r jwk /\ lookup r jwk <> None) /\
    (forall k, k <> s_kty -> ~ In k (t_req t) -> alookup k m = None).
Proof.
  rewrite thp_object_unfold. destruct (kty_of jwk) as [kty|] eqn:K; [|discriminate].
  destruct (find_type_ci kty) as [t|] eqn:T; [|discriminate].
  destruct (lookup s_kty jwk) as [ktyv|] eqn:L; [|discriminate]. intro H.
  destruct (req_obj_some _ _ _ _ H) as (m & -> & Hin & Hout).
  pose proof required_is_rfc7638 as R. rewrite forallb_forall in R.
  assert (Tin : In t jwk_types) by (unfold find_type_ci in T; apply find_some in T; tauto).
  specialize (R t Tin). apply andb_true_iff in R. destruct R as [_ NK].
  assert (Hk : ~ In s_kty (t_req t)).
  { intro F. apply Bool.negb_true_iff in NK. assert (existsb (bytes_eqb s_kty) (t_req t) = true).
    { apply existsb_exists. exists s_kty. split; [exact F|apply bytes_eqb_refl]. } congruence. }
  exists kty, t, m. repeat split; auto.
  - rewrite Hout by exact Hk. cbn [alookup]. rewrite bytes_eqb_refl. reflexivity.
  - apply Hin. assumption.
  - apply Hin. assumption.
  - intros k Nk Nr. rewrite Hout by exact Nr. cbn [alookup].
    destruct (bytes_eqb k s_kty) eqn:E; [apply bytes_eqb_eq in E; contradiction|reflexivity].
Qed.

(* it ignores every other member *)
Theorem thp_ignores_others j j' :
  (forall k, lookup k j' = lookup k j) \/
  (kty_of j' = kty_of j /\ lookup s_kty j' = lookup s_kty j /\
   forall t, In t jwk_types -> forall r, In r (t_req t) -> lookup r j' = lookup r j) ->
  thp_object j' = thp_object j.
Proof.
  intros H. assert (H' : kty_of j' = kty_of j /\ lookup s_kty j' = lookup s_kty j /\
                         forall t, In t jwk_types -> forall r, In r (t_req t) -> lookup r j' = lookup r j).
  { destruct H as [H|H]; [|exact H]. split; [|split; [apply H|intros; apply H]].
    unfold kty_of. destruct j, j'; try reflexivity;
      try (specialize (H s_kty); cbn [lookup] in H; try rewrite H; try rewrite <- H; reflexivity). }
  destruct H' as (K & L & R). rewrite !thp_object_unfold. rewrite K, L.
  destruct (kty_of j) as [kty|]; [|reflexivity]. destruct (find_type_ci kty) as [t|] eqn:T; [|reflexivity].
  assert (Tin : In t jwk_types) by (unfold find_type_ci in T; apply find_some in T; tauto).
  destruct (lookup s_kty j); [|reflexivity]. generalize [(s_kty, j0)].
  specialize (R t Tin). induction (t_req t) as [|r rest IH]; intro acc; cbn [req_obj]; [reflexivity|].
  rewrite (R r (or_introl eq_refl)). destruct (lookup r j); [|reflexivity]. apply IH. intros r' Hr. apply R. right. exact Hr.
Qed.

(* ---- equality -------------------------------------------------------------------------------- *)

Theorem eql_spec a b :
  jwk_eql a b = true <->
  exists kty t ka kb, kty_of a = Some kty /\ find_type_ci kty = Some t /\
    lookup s_kty a = Some ka /\ lookup s_kty b = Some kb /\ jequal ka kb = true /\
    forall r, In r (t_req t) -> exists x y, lookup r a = Some x /\ lookup r b = Some y /\ jequal x y = true.
Proof.
  unfold jwk_eql. split.
  - destruct (kty_of a) as [kty|] eqn:K; [|discriminate]. destruct (find_type_ci kty) as [t|] eqn:T; [|discriminate].
    destruct (lookup s_kty a) as [ka|] eqn:La; [|discriminate]. destruct (lookup s_kty b) as [kb|] eqn:Lb; [|discriminate].
    intro H. apply andb_true_iff in H. destruct H as [H1 H2]. exists kty, t, ka, kb.
    split; [reflexivity|]. split; [exact T|]. split; [reflexivity|]. split; [reflexivity|]. split; [exact H1|].
    intros r Hr. rewrite forallb_forall in H2. specialize (H2 r Hr).
    destruct (lookup r a) as [x|]; [|discriminate]. destruct (lookup r b) as [y|]; [|discriminate]. eauto.
  - intros (kty & t & ka & kb & K & T & La & Lb & J & R). rewrite K, T, La, Lb, J. cbn [andb].
    apply forallb_forall. intros r Hr. destruct (R r Hr) as (x & y & X & Y & E). rewrite X, Y. exact E.
Qed.

Lemma kty_of_lookup a kty : kty_of a = Some kty -> exists s, lookup s_kty a = Some (JStr s) /\ cstr s = kty.
Proof.
  unfold kty_of. destruct a; try discriminate. cbn [lookup]. destruct (alookup s_kty m) as [v|]; [|discriminate].
  destruct v; try discriminate. intro H. inversion H. eauto.
Qed.

Lemma jequal_str s v : jequal (JStr s) v = true -> v = JStr s.
Proof. destruct v; cbn [jequal]; try discriminate. intro H. apply bytes_eqb_eq in H. subst. reflexivity. Qed.

Lemma lookup_wf k a v : wfj a -> lookup k a = Some v -> wfj v.
Proof.
  destruct a; cbn [lookup]; try discriminate. intros W H. apply wfj_obj in W. destruct W as [_ W].
  rewrite Forall_forall in W. apply alookup_in in H. apply (W (k, v) H).
Qed.

Theorem eql_refl a : wfj a -> thp_object a <> None -> jwk_eql a a = true.
Proof.
  intros W H. destruct (thp_object a) as [o|] eqn:E; [|congruence].
  destruct (thp_object_spec a o E) as (kty & t & m & K & T & -> & Lk & Hr & _).
  apply eql_spec. destruct (kty_of_lookup a kty K) as (s & Ls & _).
  exists kty, t, (JStr s), (JStr s).
  split; [exact K|]. split; [exact T|]. split; [exact Ls|]. split; [exact Ls|]. split; [apply bytes_eqb_refl|].
  intros r Hin. destruct (Hr r Hin) as [_ Ne]. destruct (lookup r a) as [x|] eqn:X; [|congruence].
  exists x, x. split; [reflexivity|]. split; [reflexivity|]. apply jequal_refl. exact (lookup_wf r a x W X).
Qed.

Theorem eql_sym a b : wfj a -> wfj b -> jwk_eql a b = true -> jwk_eql b a = true.
Proof.
  intros Wa Wb H. apply eql_spec in H. destruct H as (kty & t & ka & kb & K & T & La & Lb & J & R).
  destruct (kty_of_lookup a kty K) as (s & Ls & Cs). rewrite Ls in La. inversion La; subst ka.
  apply jequal_str in J. subst kb.
  assert (Kb : kty_of b = Some kty).
  { unfold kty_of. destruct b; try discriminate. cbn [lookup] in Lb. rewrite Lb. rewrite Cs. reflexivity. }
  apply eql_spec. exists kty, t, (JStr s), (JStr s).
  split; [exact Kb|]. split; [exact T|]. split; [exact Lb|]. split; [exact Ls|]. split; [apply bytes_eqb_refl|].
  intros r Hin. destruct (R r Hin) as (x & y & X & Y & E). exists y, x. split; [exact Y|]. split; [exact X|].
  apply jequal_sym; [exact (lookup_wf r a x Wa X)|exact (lookup_wf r b y Wb Y)|exact E].
Qed.

Theorem eql_trans a b c : wfj a -> wfj b -> wfj c -> jwk_eql a b = true -> jwk_eql b c = true -> jwk_eql a c = true.
Proof.
  intros Wa Wb Wc H1 H2. apply eql_spec in H1, H2.
  destruct H1 as (kty & t & ka & kb & K & T & La & Lb & J & R).
  destruct H2 as (kty2 & t2 & kb2 & kc & K2 & T2 & Lb2 & Lc & J2 & R2).
  destruct (kty_of_lookup a kty K) as (s & Ls & Cs). rewrite Ls in La. inversion La; subst ka.
  apply jequal_str in J. subst kb. rewrite Lb in Lb2. inversion Lb2; subst kb2.
  apply jequal_str in J2. subst kc.
  assert (Kb : kty_of b = Some kty).
  { unfold kty_of. destruct b; try discriminate. cbn [lookup] in Lb. rewrite Lb. rewrite Cs. reflexivity. }
  rewrite Kb in K2. inversion K2; subst kty2. rewrite T in T2. inversion T2; subst t2.
  apply eql_spec. exists kty, t, (JStr s), (JStr s).
  split; [exact K|]. split; [exact T|]. split; [exact Ls|]. split; [exact Lc|]. split; [apply bytes_eqb_refl|].
  intros r Hin. destruct (R r Hin) as (x & y & X & Y & E). destruct (R2 r Hin) as (y' & z & Y' & Z & E').
  rewrite Y in Y'. inversion Y'; subst y'. exists x, z. split; [exact X|]. split; [exact Z|].
  exact (jequal_trans x y z (lookup_wf r a x Wa X) (lookup_wf r b y Wb Y) (lookup_wf r c z Wc Z) E E').
Qed.

(* a key without thumbprint equals nothing, on either side *)
Theorem eql_none_left a b : thp_object a = None -> jwk_eql a b = false.
Proof.
  rewrite thp_object_unfold. unfold jwk_eql. destruct (kty_of a) as [kty|]; [|reflexivity].
  destruct (find_type_ci kty) as [t|]; [|reflexivity]. destruct (lookup s_kty a) as [ka|]; [|reflexivity].
  intro H. apply req_obj_none in H. destruct H as (r & Hr & N). destruct (lookup s_kty b); [|reflexivity].
  destruct (jequal ka j); [|reflexivity]. cbn [andb].
  match goal with |- forallb ?f (t_req t) = false => destruct (forallb f (t_req t)) eqn:F; [|reflexivity] end.
  rewrite forallb_forall in F. specialize (F r Hr). cbv beta in F. rewrite N in F. discriminate.
Qed.

Theorem eql_none_right a b : wfj a -> wfj b -> thp_object b = None -> jwk_eql a b = false.
Proof.
  intros Wa Wb H. destruct (jwk_eql a b) eqn:E; [|reflexivity].
  apply (eql_sym a b Wa Wb) in E. rewrite (eql_none_left b a H) in E. discriminate.
Qed.

(* the size query and the two forms *)
Theorem thp_forms_agree jwk h hn l :
  hash_of_name hn = Some h -> hash_len h <= l -> l <> 0 ->
  jwk_thp jwk hn = match jwk_str jwk with Some str => jose_b64_enc (hash h str) | None => None end /\
  jwk_thp_buf jwk hn (Some l) = match jwk_str jwk with Some str => (Some (hash_len h), hash h str) | None => (None, []) end /\
  fst (jwk_thp_buf jwk hn None) = Some (hash_len h).
Proof.
  intros H L N. unfold jwk_thp, jwk_thp_buf. rewrite H. destruct l as [|p]; [congruence|].
  destruct (jwk_str jwk); repeat split; auto.
  replace (N.pos p <? hash_len h) with false; [reflexivity|]. symmetry. apply N.ltb_ge. exact L.
Qed.

Theorem thp_buf_too_small jwk h hn l :
  hash_of_name hn = Some h -> l <> 0 -> l < hash_len h -> jwk_thp_buf jwk hn (Some l) = (None, []).
Proof.
  intros H N L. unfold jwk_thp_buf. rewrite H. destruct l as [|p]; [congruence|].
  destruct (jwk_str jwk); [|reflexivity]. replace (N.pos p <? hash_len h) with true; [reflexivity|].
  symmetry. apply N.ltb_lt. exact L.
Qed.

Lemma hash_names :
  map (fun n => match hash_of_name n with Some h => Some (hash_len h) | None => None end)
      [[83; 49]; [83; 50; 50; 52]; [83; 50; 53; 54]; [83; 51; 56; 52]; [83; 53; 49; 50]; [83; 50]]
  = [Some 20; Some 28; Some 32; Some 48; Some 64; None].
Proof. vm_compute. reflexivity. Qed.
